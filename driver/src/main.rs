// E1 — fact extractor for the acmed static checks.
//
// A rustc_private driver meant to be injected with RUSTC_WORKSPACE_WRAPPER under
// `cargo +nightly check`. For every workspace crate it compiles it writes ONE json file
// `$ACMED_FACTS_DIR/<crate>-<kind>-<pid>.json` holding the pre-borrowck MIR (mir_promoted)
// of every body (functions, closures, coroutines, consts) with resolved callees, decoded
// constants, field/ADT names on projections, local types, plus ADT definitions and attributes.
// No analysis is done here: rules live in /verif/rules (Python).
#![feature(rustc_private)]
#![allow(clippy::all)]
extern crate rustc_abi;
extern crate rustc_data_structures;
extern crate rustc_driver;
extern crate rustc_hir;
extern crate rustc_interface;
extern crate rustc_middle;
extern crate rustc_session;
extern crate rustc_span;

use rustc_driver::Callbacks;
use rustc_hir::def::DefKind;
use rustc_hir::def_id::{DefId, LocalDefId};
use rustc_interface::interface;
use rustc_middle::mir::{
    AggregateKind, AssertKind, BinOp, Body, BorrowKind, Const, ConstValue, Operand, Place,
    ProjectionElem, Rvalue, StatementKind, TerminatorKind, UnwindAction,
};
use rustc_middle::ty::print::{with_no_trimmed_paths, with_no_visible_paths, with_resolve_crate_name, with_crate_prefix};
use rustc_middle::ty::{self, Ty, TyCtxt};
use rustc_middle::util::Providers;
use rustc_span::Span;
use std::fmt::Write as _;
use std::sync::atomic::{AtomicUsize, Ordering};
use std::sync::Mutex;

static ORIG: AtomicUsize = AtomicUsize::new(0);
static BODIES: Mutex<Vec<String>> = Mutex::new(Vec::new());

// ------------------------------------------------------------------ tiny JSON helpers
fn esc(s: &str) -> String {
    let mut o = String::with_capacity(s.len() + 2);
    o.push('"');
    for c in s.chars() {
        match c {
            '"' => o.push_str("\\\""),
            '\\' => o.push_str("\\\\"),
            '\n' => o.push_str("\\n"),
            '\r' => o.push_str("\\r"),
            '\t' => o.push_str("\\t"),
            c if (c as u32) < 0x20 => {
                let _ = write!(o, "\\u{:04x}", c as u32);
            }
            c => o.push(c),
        }
    }
    o.push('"');
    o
}

fn jarr(items: &[String]) -> String {
    let mut o = String::from("[");
    for (i, it) in items.iter().enumerate() {
        if i > 0 {
            o.push(',');
        }
        o.push_str(it);
    }
    o.push(']');
    o
}

fn jobj(items: &[(&str, String)]) -> String {
    let mut o = String::from("{");
    for (i, (k, v)) in items.iter().enumerate() {
        if i > 0 {
            o.push(',');
        }
        o.push_str(&esc(k));
        o.push(':');
        o.push_str(v);
    }
    o.push('}');
    o
}

// ------------------------------------------------------------------ naming
fn path_of(tcx: TyCtxt<'_>, did: DefId) -> String {
    // real definition path with the crate name, never a re-export path
    with_no_visible_paths!(with_no_trimmed_paths!(with_resolve_crate_name!(with_crate_prefix!(
        tcx.def_path_str(did)
    ))))
}

fn ty_str<'tcx>(_tcx: TyCtxt<'tcx>, t: Ty<'tcx>) -> String {
    with_no_visible_paths!(with_no_trimmed_paths!(with_resolve_crate_name!(with_crate_prefix!(
        format!("{}", t)
    ))))
}

fn span_str(tcx: TyCtxt<'_>, sp: Span) -> (String, u32, bool) {
    let sm = tcx.sess.source_map();
    // the call-site of the outermost macro, so a report points into the repository's file
    let exp = sp.from_expansion();
    let sp2 = sp.source_callsite();
    let lo = sm.lookup_char_pos(sp2.lo());
    (format!("{}", lo.file.name.prefer_local_unconditionally()), lo.line as u32, exp)
}

// ------------------------------------------------------------------ type walking
const GUARDS: &[(&str, &str)] = &[
    ("RwLockReadGuard", "R"),
    ("RwLockWriteGuard", "W"),
    ("RwLockUpgradableReadGuard", "U"),
    ("RwLockReadGuardArc", "R"),
    ("RwLockWriteGuardArc", "W"),
    ("RwLockUpgradableReadGuardArc", "U"),
    ("MutexGuard", "W"),
    ("MutexGuardArc", "W"),
];

struct TyInfo {
    guards: Vec<String>,   // "W:acmed::endpoint::Endpoint"
    bodies: Vec<String>,   // closure / coroutine def keys contained (owned) in the type
    adts: Vec<String>,     // ADT keys appearing anywhere (also behind references)
}

fn walk_ty<'tcx>(tcx: TyCtxt<'tcx>, t: Ty<'tcx>, owned: bool, depth: usize, out: &mut TyInfo) {
    if depth > 12 {
        return;
    }
    match t.kind() {
        ty::Adt(adt, args) => {
            let p = path_of(tcx, adt.did());
            if !out.adts.contains(&p) {
                out.adts.push(p.clone());
            }
            let last = p.rsplit("::").next().unwrap_or("");
            let is_lock_crate = p.starts_with("async_lock::") || p.starts_with("std::sync::") || p.starts_with("tokio::sync::");
            let mut is_guard = false;
            if is_lock_crate {
                for (g, m) in GUARDS {
                    if last == *g {
                        is_guard = true;
                        if owned {
                            if let Some(a) = args.types().next() {
                                let s = format!("{}:{}", m, ty_str(tcx, a));
                                if !out.guards.contains(&s) {
                                    out.guards.push(s);
                                }
                            }
                        }
                    }
                }
            }
            if !is_guard {
                // Arc / Rc / references inside do not own a guard across tasks, but a
                // Box/Option/Vec/Result of a guard does: follow the generic type arguments.
                let shared = last == "Arc" || last == "Rc" || last == "Weak";
                for a in args.types() {
                    walk_ty(tcx, a, owned && !shared, depth + 1, out);
                }
            }
        }
        ty::Ref(_, inner, _) | ty::RawPtr(inner, _) => walk_ty(tcx, *inner, false, depth + 1, out),
        ty::Tuple(ts) => {
            for a in ts.iter() {
                walk_ty(tcx, a, owned, depth + 1, out);
            }
        }
        ty::Array(a, _) | ty::Slice(a) => walk_ty(tcx, *a, owned, depth + 1, out),
        ty::Closure(did, args) => {
            let p = path_of(tcx, *did);
            if owned && !out.bodies.contains(&p) {
                out.bodies.push(p);
            }
            for a in args.as_closure().upvar_tys().iter() {
                walk_ty(tcx, a, owned, depth + 1, out);
            }
        }
        ty::Coroutine(did, args) => {
            let p = path_of(tcx, *did);
            if owned && !out.bodies.contains(&p) {
                out.bodies.push(p);
            }
            for a in args.as_coroutine().upvar_tys().iter() {
                walk_ty(tcx, a, owned, depth + 1, out);
            }
        }
        ty::CoroutineClosure(did, args) => {
            let p = path_of(tcx, *did);
            if owned && !out.bodies.contains(&p) {
                out.bodies.push(p);
            }
            for a in args.as_coroutine_closure().upvar_tys().iter() {
                walk_ty(tcx, a, owned, depth + 1, out);
            }
        }
        ty::Alias(..) => {
            // opaque `impl Future` of an async fn call: expose the hidden coroutine if cheap
            if let ty::Alias(alias) = t.kind() {
                if let ty::AliasTyKind::Opaque { def_id } = alias.kind {
                    let _ = def_id;
                }
            }
        }
        _ => {}
    }
}

fn ty_info_json<'tcx>(tcx: TyCtxt<'tcx>, t: Ty<'tcx>) -> (String, String, String) {
    let mut ti = TyInfo { guards: vec![], bodies: vec![], adts: vec![] };
    walk_ty(tcx, t, true, 0, &mut ti);
    (
        jarr(&ti.guards.iter().map(|s| esc(s)).collect::<Vec<_>>()),
        jarr(&ti.bodies.iter().map(|s| esc(s)).collect::<Vec<_>>()),
        jarr(&ti.adts.iter().map(|s| esc(s)).collect::<Vec<_>>()),
    )
}

// ------------------------------------------------------------------ MIR → JSON
struct Cx<'a, 'tcx> {
    tcx: TyCtxt<'tcx>,
    body: &'a Body<'tcx>,
    env: ty::TypingEnv<'tcx>,
    owner: LocalDefId,
}

impl<'a, 'tcx> Cx<'a, 'tcx> {
    fn place(&self, p: &Place<'tcx>) -> String {
        let tcx = self.tcx;
        let mut projs: Vec<String> = vec![];
        let mut cur = rustc_middle::mir::PlaceTy::from_ty(self.body.local_decls[p.local].ty);
        for elem in p.projection.iter() {
            let j = match elem {
                ProjectionElem::Deref => esc("*"),
                ProjectionElem::Field(f, fty) => {
                    let mut items: Vec<(&str, String)> = vec![("f", format!("{}", f.as_usize()))];
                    match cur.ty.kind() {
                        ty::Adt(adt, _) => {
                            let vidx = cur.variant_index.unwrap_or(rustc_abi::FIRST_VARIANT);
                            if adt.is_enum() || adt.is_struct() || adt.is_union() {
                                if let Some(v) = adt.variants().get(vidx) {
                                    if let Some(fd) = v.fields.get(f) {
                                        items.push(("n", esc(fd.name.as_str())));
                                    }
                                    if adt.is_enum() {
                                        items.push(("v", esc(v.name.as_str())));
                                    }
                                }
                            }
                            items.push(("adt", esc(&path_of(tcx, adt.did()))));
                        }
                        ty::Closure(did, _) | ty::Coroutine(did, _) | ty::CoroutineClosure(did, _) => {
                            items.push(("upvar_of", esc(&path_of(tcx, *did))));
                        }
                        ty::Tuple(_) => {
                            items.push(("tuple", "true".into()));
                        }
                        _ => {}
                    }
                    let _ = fty;
                    jobj(&items)
                }
                ProjectionElem::Index(l) => jobj(&[("idx", format!("{}", l.as_usize()))]),
                ProjectionElem::ConstantIndex { offset, min_length, from_end } => jobj(&[
                    ("cidx", format!("{}", offset)),
                    ("minlen", format!("{}", min_length)),
                    ("from_end", format!("{}", from_end)),
                ]),
                ProjectionElem::Subslice { from, to, from_end } => jobj(&[
                    ("sub_from", format!("{}", from)),
                    ("sub_to", format!("{}", to)),
                    ("from_end", format!("{}", from_end)),
                ]),
                ProjectionElem::Downcast(name, vidx) => {
                    let n = match name {
                        Some(s) => s.as_str().to_string(),
                        None => format!("#{}", vidx.as_usize()),
                    };
                    jobj(&[("downcast", esc(&n))])
                }
                ProjectionElem::OpaqueCast(_) => esc("opaque"),
                ProjectionElem::UnwrapUnsafeBinder(_) => esc("unbind"),
            };
            projs.push(j);
            cur = cur.projection_ty(tcx, elem);
        }
        jobj(&[("l", format!("{}", p.local.as_usize())), ("p", jarr(&projs))])
    }

    fn fn_def(&self, did: DefId, args: ty::GenericArgsRef<'tcx>) -> Vec<(&'static str, String)> {
        let tcx = self.tcx;
        let mut items: Vec<(&'static str, String)> = vec![];
        items.push(("fn", esc(&path_of(tcx, did))));
        let mut resolved = None;
        if let Ok(Some(inst)) = ty::Instance::try_resolve(tcx, self.env, did, args) {
            let rd = inst.def_id();
            resolved = Some(rd);
            items.push(("res", esc(&path_of(tcx, rd))));
            if let ty::InstanceKind::Item(_) = inst.def {
            } else {
                items.push(("inst_kind", esc(&format!("{:?}", inst.def).split('(').next().unwrap_or("").to_string())));
            }
        }
        let _ = resolved;
        let mut gargs: Vec<String> = vec![];
        let mut ti = TyInfo { guards: vec![], bodies: vec![], adts: vec![] };
        for a in args.iter() {
            if let Some(t) = a.as_type() {
                gargs.push(esc(&ty_str(tcx, t)));
                walk_ty(tcx, t, true, 0, &mut ti);
                // closures passed by reference (&F) still identify the body
                let mut tt = t;
                while let ty::Ref(_, inner, _) = tt.kind() {
                    tt = *inner;
                }
                match tt.kind() {
                    ty::Closure(d, _) | ty::Coroutine(d, _) | ty::CoroutineClosure(d, _) => {
                        let p = path_of(tcx, *d);
                        if !ti.bodies.contains(&p) {
                            ti.bodies.push(p);
                        }
                    }
                    _ => {}
                }
            } else if let Some(c) = a.as_const() {
                gargs.push(esc(&format!("{}", c)));
            }
        }
        items.push(("gargs", jarr(&gargs)));
        if !ti.bodies.is_empty() {
            items.push(("gbodies", jarr(&ti.bodies.iter().map(|s| esc(s)).collect::<Vec<_>>())));
        }
        items
    }

    fn konst(&self, c: &rustc_middle::mir::ConstOperand<'tcx>) -> String {
        let tcx = self.tcx;
        let ty = c.const_.ty();
        let mut items: Vec<(&str, String)> = vec![("ty", esc(&ty_str(tcx, ty)))];
        // function items
        if let ty::FnDef(did, args) = ty.kind() {
            items.extend(self.fn_def(*did, args));
            return jobj(&[("const", jobj(&items))]);
        }
        // promoted / unevaluated
        let mut val: Option<ConstValue> = None;
        match c.const_ {
            Const::Unevaluated(uv, _) => {
                if let Some(p) = uv.promoted {
                    items.push(("promoted", format!("{}", p.as_usize())));
                    items.push(("promoted_of", esc(&path_of(tcx, uv.def))));
                } else {
                    items.push(("item", esc(&path_of(tcx, uv.def))));
                    // const items of other definitions: safe to evaluate (different borrowck root)
                    let is_self = uv.def == self.owner.to_def_id()
                        || tcx.typeck_root_def_id(uv.def) == tcx.typeck_root_def_id(self.owner.to_def_id());
                    if !is_self {
                        if let Ok(v) = c.const_.eval(tcx, self.env, c.span) {
                            val = Some(v);
                        }
                    }
                }
            }
            Const::Val(v, _) => val = Some(v),
            Const::Ty(_, ct) => {
                if let Some(v) = ct.try_to_value() {
                    let _ = v;
                }
                if let Ok(v) = c.const_.eval(tcx, self.env, c.span) {
                    val = Some(v);
                }
            }
        }
        if let Some(v) = val {
            self.const_value(v, ty, &mut items);
        }
        jobj(&[("const", jobj(&items))])
    }

    fn const_value(&self, v: ConstValue, ty: Ty<'tcx>, items: &mut Vec<(&str, String)>) {
        const_value(self.tcx, v, ty, items)
    }
}

fn const_value<'tcx>(tcx: TyCtxt<'tcx>, v: ConstValue, ty: Ty<'tcx>, items: &mut Vec<(&str, String)>) {
    {
        match v {
            ConstValue::Scalar(s) => {
                if let Ok(si) = s.try_to_scalar_int() {
                    match ty.kind() {
                        ty::Bool => items.push(("bool", format!("{}", si.try_to_bool().unwrap_or(false)))),
                        ty::Int(_) => {
                            let size = si.size();
                            items.push(("int", format!("{}", si.to_int(size))));
                        }
                        ty::Uint(_) => {
                            let size = si.size();
                            // json numbers above 2^63 are still fine for python
                            items.push(("int", format!("{}", si.to_uint(size))));
                        }
                        ty::Char => {
                            let size = si.size();
                            let u = si.to_uint(size) as u32;
                            items.push(("char", esc(&char::from_u32(u).map(|c| c.to_string()).unwrap_or_default())));
                        }
                        _ => {
                            let size = si.size();
                            items.push(("bits", format!("{}", si.to_uint(size))));
                        }
                    }
                }
            }
            ConstValue::ZeroSized => {
                items.push(("zst", "true".into()));
            }
            ConstValue::Slice { .. } => {
                if let Some(bytes) = v.try_get_slice_bytes_for_diagnostics(tcx) {
                    let inner = match ty.kind() {
                        ty::Ref(_, i, _) => Some(*i),
                        _ => None,
                    };
                    let is_str = inner.map(|i| i.is_str()).unwrap_or(false);
                    if is_str {
                        items.push(("str", esc(&String::from_utf8_lossy(bytes))));
                    } else {
                        let v: Vec<String> = bytes.iter().map(|b| format!("{}", b)).collect();
                        items.push(("bytes", jarr(&v)));
                    }
                }
            }
            ConstValue::Indirect { .. } => {}
        }
        // a readable rendering for everything (enum variants, arrays, &[u8; N] …)
        let pp = with_no_visible_paths!(with_no_trimmed_paths!(with_resolve_crate_name!(with_crate_prefix!(
            format!("{}", Const::Val(v, ty))
        ))));
        items.push(("pp", esc(&pp)));
    }
}

impl<'a, 'tcx> Cx<'a, 'tcx> {

    fn operand(&self, o: &Operand<'tcx>) -> String {
        match o {
            Operand::Copy(p) => jobj(&[("copy", self.place(p))]),
            Operand::Move(p) => jobj(&[("move", self.place(p))]),
            Operand::Constant(c) => self.konst(c),
            Operand::RuntimeChecks(r) => jobj(&[("runtime_check", esc(&format!("{:?}", r)))]),
        }
    }

    fn rvalue(&self, rv: &Rvalue<'tcx>) -> String {
        let tcx = self.tcx;
        match rv {
            Rvalue::Use(o, _) => jobj(&[("k", esc("use")), ("op", self.operand(o))]),
            Rvalue::Repeat(o, n) => jobj(&[("k", esc("repeat")), ("op", self.operand(o)), ("n", esc(&format!("{}", n)))]),
            Rvalue::Ref(_, bk, p) => {
                let m = match bk {
                    BorrowKind::Shared => "shared",
                    BorrowKind::Fake(_) => "fake",
                    BorrowKind::Mut { .. } => "mut",
                };
                jobj(&[("k", esc("ref")), ("bk", esc(m)), ("place", self.place(p))])
            }
            Rvalue::ThreadLocalRef(d) => jobj(&[("k", esc("tls")), ("item", esc(&path_of(tcx, *d)))]),
            Rvalue::RawPtr(_, p) => jobj(&[("k", esc("rawptr")), ("place", self.place(p))]),
            Rvalue::Cast(ck, o, t) => jobj(&[
                ("k", esc("cast")),
                ("ck", esc(&format!("{:?}", ck))),
                ("op", self.operand(o)),
                ("ty", esc(&ty_str(tcx, *t))),
            ]),
            Rvalue::BinaryOp(op, ab) => jobj(&[
                ("k", esc("binop")),
                ("op", esc(&format!("{:?}", op))),
                ("a", self.operand(&ab.0)),
                ("b", self.operand(&ab.1)),
            ]),
            Rvalue::UnaryOp(op, o) => jobj(&[("k", esc("unop")), ("op", esc(&format!("{:?}", op))), ("a", self.operand(o))]),
            Rvalue::Discriminant(p) => {
                let pt = p.ty(&self.body.local_decls, tcx).ty;
                let mut items = vec![("k", esc("discr")), ("place", self.place(p))];
                if let ty::Adt(adt, _) = pt.kind() {
                    items.push(("adt", esc(&path_of(tcx, adt.did()))));
                    if adt.is_enum() {
                        let mut vs = vec![];
                        for (i, d) in adt.discriminants(tcx) {
                            vs.push(jarr(&[format!("{}", d.val), esc(adt.variant(i).name.as_str())]));
                        }
                        items.push(("variants", jarr(&vs)));
                    }
                }
                jobj(&items)
            }
            Rvalue::Aggregate(kind, ops) => {
                let mut items: Vec<(&str, String)> = vec![("k", esc("agg"))];
                match &**kind {
                    AggregateKind::Array(t) => {
                        items.push(("agg", esc("array")));
                        items.push(("ty", esc(&ty_str(tcx, *t))));
                    }
                    AggregateKind::Tuple => items.push(("agg", esc("tuple"))),
                    AggregateKind::Adt(did, vidx, _, _, active) => {
                        items.push(("agg", esc("adt")));
                        items.push(("adt", esc(&path_of(tcx, *did))));
                        let adt = tcx.adt_def(*did);
                        let v = adt.variant(*vidx);
                        items.push(("variant", esc(v.name.as_str())));
                        let names: Vec<String> = if let Some(a) = active {
                            vec![esc(v.fields[*a].name.as_str())]
                        } else {
                            v.fields.iter().map(|f| esc(f.name.as_str())).collect()
                        };
                        items.push(("fields", jarr(&names)));
                    }
                    AggregateKind::Closure(did, _) => {
                        items.push(("agg", esc("closure")));
                        items.push(("def", esc(&path_of(tcx, *did))));
                    }
                    AggregateKind::Coroutine(did, _) => {
                        items.push(("agg", esc("coroutine")));
                        items.push(("def", esc(&path_of(tcx, *did))));
                    }
                    AggregateKind::CoroutineClosure(did, _) => {
                        items.push(("agg", esc("coroutine_closure")));
                        items.push(("def", esc(&path_of(tcx, *did))));
                    }
                    AggregateKind::RawPtr(..) => items.push(("agg", esc("rawptr"))),
                }
                let os: Vec<String> = ops.iter().map(|o| self.operand(o)).collect();
                items.push(("ops", jarr(&os)));
                jobj(&items)
            }
            Rvalue::CopyForDeref(p) => jobj(&[("k", esc("use")), ("op", jobj(&[("copy", self.place(p))]))]),
            Rvalue::WrapUnsafeBinder(o, _) => jobj(&[("k", esc("use")), ("op", self.operand(o))]),
        }
    }

    fn unwind(&self, u: &UnwindAction) -> String {
        match u {
            UnwindAction::Cleanup(bb) => format!("{}", bb.as_usize()),
            _ => "null".into(),
        }
    }

    fn body_json(&self, is_promoted: bool) -> String {
        let tcx = self.tcx;
        let body = self.body;
        // locals
        let mut names: Vec<Option<String>> = vec![None; body.local_decls.len()];
        for vdi in body.var_debug_info.iter() {
            if let rustc_middle::mir::VarDebugInfoContents::Place(p) = &vdi.value {
                if p.projection.is_empty() {
                    names[p.local.as_usize()] = Some(vdi.name.as_str().to_string());
                }
            }
        }
        let mut locals = vec![];
        for (l, decl) in body.local_decls.iter_enumerated() {
            let (g, b, a) = ty_info_json(tcx, decl.ty);
            let mut items: Vec<(&str, String)> = vec![("ty", esc(&ty_str(tcx, decl.ty)))];
            if g != "[]" {
                items.push(("guards", g));
            }
            if b != "[]" {
                items.push(("bodies", b));
            }
            if a != "[]" {
                items.push(("adts", a));
            }
            if let Some(n) = &names[l.as_usize()] {
                items.push(("name", esc(n)));
            }
            if decl.is_user_variable() {
                items.push(("user", "true".into()));
            }
            locals.push(jobj(&items));
        }
        // blocks
        let mut blocks = vec![];
        for (_bb, data) in body.basic_blocks.iter_enumerated() {
            let mut stmts = vec![];
            for st in data.statements.iter() {
                let (_, line, exp) = span_str(tcx, st.source_info.span);
                let j = match &st.kind {
                    StatementKind::Assign(b) => {
                        let (lhs, rv) = &**b;
                        Some(jobj(&[
                            ("s", esc("assign")),
                            ("lhs", self.place(lhs)),
                            ("rv", self.rvalue(rv)),
                            ("line", format!("{}", line)),
                            ("exp", format!("{}", exp)),
                        ]))
                    }
                    StatementKind::SetDiscriminant { place, variant_index } => Some(jobj(&[
                        ("s", esc("setdiscr")),
                        ("lhs", self.place(place)),
                        ("variant", format!("{}", variant_index.as_usize())),
                    ])),
                    StatementKind::StorageLive(l) => Some(jobj(&[("s", esc("live")), ("l", format!("{}", l.as_usize()))])),
                    StatementKind::StorageDead(l) => Some(jobj(&[("s", esc("dead")), ("l", format!("{}", l.as_usize()))])),
                    _ => None,
                };
                if let Some(j) = j {
                    stmts.push(j);
                }
            }
            let term = data.terminator();
            let (file, line, exp) = span_str(tcx, term.source_info.span);
            let mut t: Vec<(&str, String)> = vec![];
            match &term.kind {
                TerminatorKind::Goto { target } => {
                    t.push(("t", esc("goto")));
                    t.push(("target", format!("{}", target.as_usize())));
                }
                TerminatorKind::SwitchInt { discr, targets } => {
                    t.push(("t", esc("switch")));
                    t.push(("discr", self.operand(discr)));
                    let dty = discr.ty(&body.local_decls, tcx);
                    t.push(("dty", esc(&ty_str(tcx, dty))));
                    let mut arms = vec![];
                    for (v, bb) in targets.iter() {
                        arms.push(jarr(&[format!("{}", v), format!("{}", bb.as_usize())]));
                    }
                    t.push(("arms", jarr(&arms)));
                    t.push(("otherwise", format!("{}", targets.otherwise().as_usize())));
                }
                TerminatorKind::UnwindResume => t.push(("t", esc("resume"))),
                TerminatorKind::UnwindTerminate(_) => t.push(("t", esc("terminate"))),
                TerminatorKind::Return => t.push(("t", esc("return"))),
                TerminatorKind::Unreachable => t.push(("t", esc("unreachable"))),
                TerminatorKind::Drop { place, target, unwind, .. } => {
                    t.push(("t", esc("drop")));
                    t.push(("place", self.place(place)));
                    let pty = place.ty(&body.local_decls, tcx).ty;
                    t.push(("ty", esc(&ty_str(tcx, pty))));
                    t.push(("target", format!("{}", target.as_usize())));
                    t.push(("unwind", self.unwind(unwind)));
                }
                TerminatorKind::Call { func, args, destination, target, unwind, call_source, .. } => {
                    t.push(("t", esc("call")));
                    let mut handled = false;
                    if let Operand::Constant(c) = func {
                        if let ty::FnDef(did, gargs) = c.const_.ty().kind() {
                            t.extend(self.fn_def(*did, gargs));
                            handled = true;
                        }
                    }
                    if !handled {
                        t.push(("fn_op", self.operand(func)));
                        let fty = func.ty(&body.local_decls, tcx);
                        t.push(("fn_ty", esc(&ty_str(tcx, fty))));
                    }
                    let a: Vec<String> = args.iter().map(|a| self.operand(&a.node)).collect();
                    t.push(("args", jarr(&a)));
                    let at: Vec<String> = args.iter().map(|a| esc(&ty_str(tcx, a.node.ty(&body.local_decls, tcx)))).collect();
                    t.push(("arg_tys", jarr(&at)));
                    t.push(("dest", self.place(destination)));
                    t.push(("target", match target { Some(b) => format!("{}", b.as_usize()), None => "null".into() }));
                    t.push(("unwind", self.unwind(unwind)));
                    t.push(("src", esc(&format!("{:?}", call_source))));
                }
                TerminatorKind::TailCall { func, args, .. } => {
                    t.push(("t", esc("tailcall")));
                    t.push(("fn_op", self.operand(func)));
                    let a: Vec<String> = args.iter().map(|a| self.operand(&a.node)).collect();
                    t.push(("args", jarr(&a)));
                }
                TerminatorKind::Assert { cond, expected, msg, target, unwind } => {
                    t.push(("t", esc("assert")));
                    t.push(("cond", self.operand(cond)));
                    t.push(("expected", format!("{}", expected)));
                    let (kind, ops): (String, Vec<String>) = match &**msg {
                        AssertKind::BoundsCheck { len, index } => ("BoundsCheck".into(), vec![self.operand(len), self.operand(index)]),
                        AssertKind::Overflow(op, a, b) => (format!("Overflow({})", binop_name(*op)), vec![self.operand(a), self.operand(b)]),
                        AssertKind::OverflowNeg(a) => ("OverflowNeg".into(), vec![self.operand(a)]),
                        AssertKind::DivisionByZero(a) => ("DivisionByZero".into(), vec![self.operand(a)]),
                        AssertKind::RemainderByZero(a) => ("RemainderByZero".into(), vec![self.operand(a)]),
                        other => (format!("{:?}", other).split('(').next().unwrap_or("").to_string(), vec![]),
                    };
                    t.push(("kind", esc(&kind)));
                    t.push(("ops", jarr(&ops)));
                    t.push(("target", format!("{}", target.as_usize())));
                    t.push(("unwind", self.unwind(unwind)));
                }
                TerminatorKind::Yield { value, resume, drop, .. } => {
                    t.push(("t", esc("yield")));
                    t.push(("value", self.operand(value)));
                    t.push(("target", format!("{}", resume.as_usize())));
                    t.push(("drop", match drop { Some(b) => format!("{}", b.as_usize()), None => "null".into() }));
                }
                TerminatorKind::CoroutineDrop => t.push(("t", esc("coroutine_drop"))),
                TerminatorKind::FalseEdge { real_target, imaginary_target } => {
                    t.push(("t", esc("goto")));
                    t.push(("target", format!("{}", real_target.as_usize())));
                    t.push(("imaginary", format!("{}", imaginary_target.as_usize())));
                }
                TerminatorKind::FalseUnwind { real_target, .. } => {
                    t.push(("t", esc("goto")));
                    t.push(("target", format!("{}", real_target.as_usize())));
                    t.push(("false_unwind", "true".into()));
                }
                TerminatorKind::InlineAsm { .. } => t.push(("t", esc("asm"))),
            }
            t.push(("line", format!("{}", line)));
            t.push(("exp", format!("{}", exp)));
            if !is_promoted {
                t.push(("file", esc(&file)));
            }
            let mut b: Vec<(&str, String)> = vec![];
            if data.is_cleanup {
                b.push(("cleanup", "true".into()));
            }
            b.push(("stmts", jarr(&stmts)));
            b.push(("term", jobj(&t)));
            blocks.push(jobj(&b));
        }
        jobj(&[
            ("arg_count", format!("{}", body.arg_count)),
            ("locals", jarr(&locals)),
            ("blocks", jarr(&blocks)),
        ])
    }
}

fn binop_name(op: BinOp) -> &'static str {
    match op {
        BinOp::Add | BinOp::AddWithOverflow | BinOp::AddUnchecked => "Add",
        BinOp::Sub | BinOp::SubWithOverflow | BinOp::SubUnchecked => "Sub",
        BinOp::Mul | BinOp::MulWithOverflow | BinOp::MulUnchecked => "Mul",
        BinOp::Div => "Div",
        BinOp::Rem => "Rem",
        BinOp::Shl | BinOp::ShlUnchecked => "Shl",
        BinOp::Shr | BinOp::ShrUnchecked => "Shr",
        _ => "Other",
    }
}

fn dump_body<'tcx>(tcx: TyCtxt<'tcx>, def: LocalDefId, root: LocalDefId) -> String {
    let (body_s, promoted_s) = tcx.mir_promoted(def);
    let body = body_s.borrow();
    let promoted = promoted_s.borrow();
    let did = def.to_def_id();
    let env = ty::TypingEnv::post_analysis(tcx, did);
    let cx = Cx { tcx, body: &body, env, owner: def };
    let main = cx.body_json(false);
    let mut proms = vec![];
    for p in promoted.iter() {
        let pcx = Cx { tcx, body: p, env, owner: def };
        proms.push(pcx.body_json(true));
    }
    let kind = tcx.def_kind(did);
    let (file, line, exp) = span_str(tcx, tcx.def_span(did));
    let mut items: Vec<(&str, String)> = vec![
        ("key", esc(&path_of(tcx, did))),
        ("kind", esc(&format!("{:?}", kind))),
        ("file", esc(&file)),
        ("line", format!("{}", line)),
        ("exp", format!("{}", exp)),
        ("root", esc(&path_of(tcx, root.to_def_id()))),
    ];
    if def != root {
        items.push(("parent", esc(&path_of(tcx, tcx.local_parent(def).to_def_id()))));
    }
    items.push(("is_coroutine", format!("{}", body.coroutine.is_some())));
    if matches!(kind, DefKind::Fn | DefKind::AssocFn) {
        items.push(("vis", esc(&format!("{:?}", tcx.visibility(did)))));
        let sig = tcx.fn_sig(did).instantiate_identity().skip_binder();
        let ins: Vec<String> = sig.inputs().iter().map(|t| esc(&ty_str(tcx, *t))).collect();
        items.push(("inputs", jarr(&ins)));
        items.push(("output", esc(&ty_str(tcx, sig.output()))));
        items.push(("is_async", format!("{}", tcx.asyncness(did).is_async())));
        // predicates (trait bounds of generic parameters, e.g. F: Fn(&str,&str) -> ..)
        let preds = tcx.predicates_of(did);
        let mut ps = vec![];
        for (p, _) in preds.predicates.iter() {
            ps.push(esc(&with_no_trimmed_paths!(format!("{}", p))));
        }
        items.push(("preds", jarr(&ps)));
        // impl-of-trait info
        if let Some(impl_did) = tcx.impl_of_assoc(did) {
            if let Some(tr) = tcx.impl_opt_trait_ref(impl_did) {
                let tr = tr.instantiate_identity().skip_norm_wip();
                items.push(("impl_trait", esc(&path_of(tcx, tr.def_id))));
                items.push(("impl_self", esc(&ty_str(tcx, tr.self_ty()))));
            } else {
                let st = tcx.type_of(impl_did).instantiate_identity().skip_norm_wip();
                items.push(("impl_self", esc(&ty_str(tcx, st))));
            }
        }
    }
    if matches!(kind, DefKind::Closure) {
        // captured variables, in upvar order
        let caps: Vec<String> = tcx
            .closure_captures(def)
            .iter()
            .map(|c| {
                jobj(&[
                    ("var", esc(&c.to_string(tcx))),
                    ("by", esc(&format!("{:?}", c.info.capture_kind).split('(').next().unwrap_or("").to_string())),
                ])
            })
            .collect();
        items.push(("captures", jarr(&caps)));
    }
    items.push(("body", main));
    items.push(("promoted", jarr(&proms)));
    jobj(&items)
}

fn my_borrowck<'tcx>(
    tcx: TyCtxt<'tcx>,
    def: LocalDefId,
) -> Result<
    &'tcx rustc_data_structures::fx::FxIndexMap<LocalDefId, ty::DefinitionSiteHiddenType<'tcx>>,
    rustc_span::ErrorGuaranteed,
> {
    {
        let mut out = vec![dump_body(tcx, def, def)];
        for nested in tcx.nested_bodies_within(def) {
            out.push(dump_body(tcx, nested, def));
        }
        BODIES.lock().unwrap().extend(out);
    }
    let orig: for<'a> fn(
        TyCtxt<'a>,
        LocalDefId,
    ) -> Result<
        &'a rustc_data_structures::fx::FxIndexMap<LocalDefId, ty::DefinitionSiteHiddenType<'a>>,
        rustc_span::ErrorGuaranteed,
    > = unsafe { std::mem::transmute(ORIG.load(Ordering::SeqCst)) };
    orig(tcx, def)
}

fn dump_adts(tcx: TyCtxt<'_>) -> Vec<String> {
    let mut out = vec![];
    for id in tcx.hir_free_items() {
        let did = id.owner_id.to_def_id();
        let kind = tcx.def_kind(did);
        if !matches!(kind, DefKind::Struct | DefKind::Enum | DefKind::Union) {
            continue;
        }
        let adt = tcx.adt_def(did);
        let mut variants = vec![];
        for v in adt.variants().iter() {
            let mut fields = vec![];
            for f in v.fields.iter() {
                let fty = tcx.type_of(f.did).instantiate_identity().skip_norm_wip();
                let attrs = attrs_of(tcx, f.did);
                fields.push(jobj(&[
                    ("name", esc(f.name.as_str())),
                    ("ty", esc(&ty_str(tcx, fty))),
                    ("vis", esc(&format!("{:?}", f.vis))),
                    ("attrs", attrs),
                ]));
            }
            variants.push(jobj(&[
                ("name", esc(v.name.as_str())),
                ("fields", jarr(&fields)),
                ("attrs", attrs_of(tcx, v.def_id)),
            ]));
        }
        let (file, line, exp) = span_str(tcx, tcx.def_span(did));
        out.push(jobj(&[
            ("key", esc(&path_of(tcx, did))),
            ("kind", esc(&format!("{:?}", kind))),
            ("file", esc(&file)),
            ("line", format!("{}", line)),
            ("exp", format!("{}", exp)),
            ("attrs", attrs_of(tcx, did)),
            ("variants", jarr(&variants)),
        ]));
    }
    out
}

fn attrs_of(tcx: TyCtxt<'_>, did: DefId) -> String {
    let mut v = vec![];
    if let Some(l) = did.as_local() {
        let hir_id = tcx.local_def_id_to_hir_id(l);
        let sm = tcx.sess.source_map();
        for a in tcx.hir_attrs(hir_id) {
            // helper attributes of derives (serde(..)) are kept unparsed: use their source text
            if let rustc_hir::Attribute::Unparsed(item) = a {
                if let Ok(s) = sm.span_to_snippet(item.span) {
                    v.push(esc(&s));
                }
            }
        }
    }
    jarr(&v)
}

fn dump_consts(tcx: TyCtxt<'_>) -> Vec<String> {
    // value of every free `const` item with a scalar / str type
    let mut out = vec![];
    for id in tcx.hir_free_items() {
        let did = id.owner_id.to_def_id();
        if !matches!(tcx.def_kind(did), DefKind::Const { .. }) {
            continue;
        }
        if tcx.generics_of(did).count() != 0 {
            continue;
        }
        let ty = tcx.type_of(did).instantiate_identity().skip_norm_wip();
        let mut items: Vec<(&str, String)> = vec![("key", esc(&path_of(tcx, did))), ("ty", esc(&ty_str(tcx, ty)))];
        if let Ok(v) = tcx.const_eval_poly(did) {
            const_value(tcx, v, ty, &mut items);
        }
        out.push(jobj(&items));
    }
    out
}

struct Cb;

impl Callbacks for Cb {
    fn config(&mut self, config: &mut interface::Config) {
        config.override_queries = Some(|_sess, providers: &mut Providers| {
            ORIG.store(providers.queries.mir_borrowck as usize, Ordering::SeqCst);
            providers.queries.mir_borrowck = my_borrowck;
        });
    }

    fn after_analysis<'tcx>(&mut self, _compiler: &interface::Compiler, tcx: TyCtxt<'tcx>) -> rustc_driver::Compilation {
        let dir = match std::env::var("ACMED_FACTS_DIR") {
            Ok(d) => d,
            Err(_) => return rustc_driver::Compilation::Continue,
        };
        let krate = tcx.crate_name(rustc_hir::def_id::LOCAL_CRATE).to_string();
        let kinds: Vec<String> = tcx.crate_types().iter().map(|c| format!("{:?}", c)).collect();
        let is_test = tcx.sess.opts.test;
        let adts = dump_adts(tcx);
        let consts = dump_consts(tcx);
        let bodies = std::mem::take(&mut *BODIES.lock().unwrap());
        let cfgs: Vec<String> = tcx
            .sess
            .config
            .iter()
            .map(|(k, v)| match v {
                Some(v) => esc(&format!("{}={}", k, v)),
                None => esc(&format!("{}", k)),
            })
            .collect();
        let doc = jobj(&[
            ("crate", esc(&krate)),
            ("crate_types", jarr(&kinds.iter().map(|s| esc(s)).collect::<Vec<_>>())),
            ("test", format!("{}", is_test)),
            ("overflow_checks", format!("{}", tcx.sess.overflow_checks())),
            ("cfg", jarr(&cfgs)),
            ("adts", jarr(&adts)),
            ("consts", jarr(&consts)),
            ("bodies", jarr(&bodies)),
        ]);
        let name = format!("{}/{}-{}{}-{}.json", dir, krate, kinds.join("_"), if is_test { "-test" } else { "" }, std::process::id());
        let tmp = format!("{}.tmp", name);
        std::fs::write(&tmp, doc).expect("write facts");
        std::fs::rename(&tmp, &name).expect("rename facts");
        rustc_driver::Compilation::Continue
    }
}

fn main() {
    let mut args: Vec<String> = std::env::args().collect();
    // RUSTC_WORKSPACE_WRAPPER passes the real rustc path as argv[1]
    if args.len() > 1 && (args[1].ends_with("rustc") || args[1].contains("/rustc")) {
        args.remove(1);
    }
    let skip = std::env::var("CARGO_PKG_NAME").map(|n| n.is_empty()).unwrap_or(false)
        || args.iter().any(|a| a == "build_script_build")
        || args.iter().any(|a| a == "-vV" || a == "--version")
        || args.iter().any(|a| a.starts_with("--print"));
    if skip {
        struct Nop;
        impl Callbacks for Nop {}
        rustc_driver::run_compiler(&args, &mut Nop);
        return;
    }
    rustc_driver::run_compiler(&args, &mut Cb);
}
