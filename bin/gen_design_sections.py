#!/usr/bin/env python3
"""Regenerates section 8 of DESIGN.md (seeded changes / mutants and the checks that catch them) between its markers."""
import json, os, importlib, sys
VERIF = os.path.dirname(os.path.dirname(os.path.abspath(__file__)))
sys.path.insert(0, VERIF)
out = []
out.append("## 8. Seeded changes and which checks catch them\n")
out.append("Two sources. (1) **Independent seeded changes** (`seeded/<id>/`): written by fresh sub-agents that were given only the text of\n"
           "one property and a scratch worktree of /repo (nothing from /verif); each compiles, passes the 81 existing tests, comes with a\n"
           "demonstration that fails with the change and passes without it, and was re-confirmed with `bin/confirm_seed` in a scratch\n"
           "worktree (results in `meta.json`). `bin/seed_matrix` applies each to a scratch copy of the current tree and runs the\n"
           "property's quick check. (2) **Scripted mutants** (`mutants/Cxx.json`): single edits written alongside each rule module, run by\n"
           "`python3 -m rules.selftest Cxx` and by the thorough tier. A change counts as caught only when the check exits 1 with a\n"
           "VIOLATION line whose rule names the broken clause. Round 2 (`Cxx-2a/b/c`): three further changes per property, each\n"
           "attacking a different clause; the ones a check missed at first are listed in section 9 with the rule that was added.\n")
out.append("\n| seed | what it breaks (needs …) | caught by | first rule(s) |\n|---|---|---|---|")
sd = os.path.join(VERIF, "seeded")
for d in sorted(os.listdir(sd)):
    mp = os.path.join(sd, d, "meta.json")
    if not os.path.exists(mp):
        continue
    m = json.load(open(mp))
    det = m.get("detected_by", {})
    if not isinstance(det, dict):
        det = {"status": str(det), "rules": []}
    needs = m.get("needs_to_manifest") or "see seeded/%s/README.md" % d
    out.append("| %s | %s *(needs: %s)* | %s | %s |" % (d, m["breaks"].replace("|", "/"), needs.replace("|", "/"),
                                                       "`bin/check %s`: %s" % (m["property"], det.get("status")), ", ".join(det.get("rules", []))))
out.append("\nScripted mutants (all caught on the current tree unless marked):\n")
for f in sorted(os.listdir(os.path.join(VERIF, "mutants"))):
    ms = json.load(open(os.path.join(VERIF, "mutants", f)))
    out.append("* **%s** (%d): %s" % (f[:-5], len(ms), "; ".join("%s → %s" % (m["name"], "/".join(m.get("expect_rules", []))) for m in ms)))
text = "\n".join(out) + "\n"
p = os.path.join(VERIF, "DESIGN.md")
s = open(p).read()
b, e = "<!-- BEGIN SECTION 8 -->", "<!-- END SECTION 8 -->"
if b in s:
    s = s[:s.index(b) + len(b)] + "\n" + text + s[s.index(e):]
else:
    s = s.replace("## Appendix A — what the IR looks like", b + "\n" + text + e + "\n\n## Appendix A — what the IR looks like", 1)
# Appendix E: the rules as implemented (from the evidence files written by the last run of every check)
ap = ["## Appendix E — rules per property as implemented (generated from `evidence/Cxx.json`)\n",
      "One line per rule: id, what it decides, obligations discharged on the current tree. Rule ids with a `Cxx.` prefix and the tag",
      "`[shared]` are rule groups owned by another property's module, run here because this property depends on that mechanism.\n"]
ed = os.path.join(VERIF, "evidence")
for f in sorted(os.listdir(ed)):
    if not f.endswith(".json"):
        continue
    ev = json.load(open(os.path.join(ed, f)))
    rules = ev.get("coverage", {}).get("rules") or ev.get("rules") or {}
    ap.append("\n**%s**\n" % f[:-5])
    if isinstance(rules, dict):
        items = rules.items()
    else:
        items = [(r.get("id"), r) for r in rules]
    for rid, r in items:
        ap.append("* `%s` — %s *(%s/%s)*" % (rid, (r.get("rule") or r.get("text") or "").replace("|", "/"), r.get("discharged"), r.get("obligations")))
atext = "\n".join(ap) + "\n"
b2, e2 = "<!-- BEGIN APPENDIX E -->", "<!-- END APPENDIX E -->"
if b2 in s:
    s = s[:s.index(b2) + len(b2)] + "\n" + atext + s[s.index(e2):]
else:
    s = s.rstrip("\n") + "\n\n" + b2 + "\n" + atext + e2 + "\n"
open(p, "w").write(s)
print("section 8 and appendix E regenerated")
