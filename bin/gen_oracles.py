#!/usr/bin/env python3
"""Regenerates oracles/known_signatures.json (signature and direct callers of every workspace function of the tree the rules were
written for). Run on the PINNED tree only; the file is the reference the rename/move tolerance of rules/extract.py compares with."""
import json, os, sys
VERIF = os.path.dirname(os.path.dirname(os.path.abspath(__file__)))
sys.path.insert(0, VERIF)
from rules import extract
from rules.mir import strip_generics


def callers_of(crates):
    out = {}
    for c, data in crates.items():
        for b in data["bodies"]:
            root = b["key"].split("::{closure")[0]
            for blk in b["body"]["blocks"] if "body" in b and isinstance(b["body"], dict) else []:
                t = blk["term"]
                if t["t"] == "call":
                    for nm in (t.get("res"), t.get("fn")):
                        if nm:
                            out.setdefault(strip_generics(nm), set()).add(root)
    return out


if __name__ == "__main__":
    facts, _ = extract.ensure_facts("dev", extract.repo_path())
    crates = extract.load_facts(facts)
    cal = callers_of(crates)
    sigs = {}
    for c, data in crates.items():
        for b in data["bodies"]:
            if b["kind"] in ("Fn", "AssocFn") and not b.get("exp"):
                sigs[b["key"]] = {"inputs": b.get("inputs"), "output": b.get("output"), "is_async": b.get("is_async"), "kind": b["kind"],
                                  "callers": sorted(x for x in cal.get(b["key"], ()) if x != b["key"])}
    json.dump(sigs, open(os.path.join(VERIF, "oracles", "known_signatures.json"), "w"), indent=0, sort_keys=True)
    print(len(sigs), "signatures")
