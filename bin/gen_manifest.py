#!/usr/bin/env python3
"""Regenerates MANIFEST.json from the per-property metadata declared in rules/props/cNN.py
(LEVEL, TECHNIQUE, LEVEL_TEXT, LEVEL_NOTE) — a property without a module, or whose module sets CLAIMED = False,
is listed under not_applicable with its reason (NA_REASON or the default below)."""
import importlib
import json
import os
import sys

VERIF = os.path.dirname(os.path.dirname(os.path.abspath(__file__)))
sys.path.insert(0, VERIF)

BASELINE = ("cd /repo && cargo nextest run --workspace --no-fail-fast --tool-config-file pb:/w/lib/nextest.toml "
            "--profile pb --test-threads 8 --offline || cargo test --workspace --no-fail-fast --offline")


def main():
    props = [json.loads(l) for l in open(os.path.join(VERIF, "properties.jsonl"))]
    checks = []
    na = []
    for p in props:
        pid = p["id"]
        try:
            mod = importlib.import_module("rules.props.%s" % pid.lower())
        except ModuleNotFoundError:
            na.append({"property_id": pid, "reason": "static rule set for this property is designed (DESIGN.md section 4) "
                                                     "but not implemented yet; no verdict is claimed"})
            continue
        if not getattr(mod, "CLAIMED", True):
            na.append({"property_id": pid, "reason": mod.NA_REASON})
            continue
        level = getattr(mod, "LEVEL", "other")
        checks.append({
            "property_id": pid,
            "quick_cmd": "bin/check %s --tier quick" % pid,
            "thorough_cmd": "bin/check %s --tier thorough" % pid,
            "evidence_file": "evidence/%s.json" % pid,
            "replay_cmd_template": "bin/check %s --explain {path}" % pid,
            "engine": "E1 driver/ (rustc_private MIR fact extractor) + E2 rules/ (Python rule engine)" +
                      (" + E3 artifact analyser" if getattr(mod, "USES_ARTIFACTS", False) else ""),
            "level_claimed": {
                "category": level,
                "text": mod.LEVEL_TEXT,
                "design_ref": "DESIGN.md section 4, %s" % pid,
            },
            "level_note": mod.LEVEL_NOTE,
            "technique": mod.TECHNIQUE,
        })
    man = {
        "version": 1,
        "setup_cmd": "bin/setup",
        "hooks": {
            "guard": "breard_r_acmed_verif",
            "enable": "n/a — static analysis adds no hooks or instrumentation to /repo; the cfg flag is unused",
            "baseline_off_cmd": BASELINE,
            "source_commits": [],
            "add_only": True,
        },
        "engines": [
            {"name": "E1 fact extractor", "path": "driver/", "serves_properties": [c["property_id"] for c in checks],
             "kind_free_text": "rustc_private driver (nightly) injected with RUSTC_WORKSPACE_WRAPPER under cargo check: dumps "
                               "pre-borrowck MIR of every body of acmed, tacd, acme_common with resolved callees, decoded "
                               "constants, ADT/field names, local types, guard ownership; ADT definitions and attributes"},
            {"name": "E2 rule engine", "path": "rules/", "serves_properties": [c["property_id"] for c in checks],
             "kind_free_text": "Python: CFG without unwind edges, dominators, SCCs, must-pass-through, who-may-call, "
                               "lock-state dataflow, table extraction, provenance slices, panic-source enumeration"},
            {"name": "E3 artifact analyser", "path": "rules/artifacts.py", "serves_properties": ["C20", "C17", "C10"],
             "kind_free_text": "parsers for default_hooks.toml templates, mdoc man pages, Cargo.toml profiles"},
        ],
        "checks": checks,
        "not_applicable": na,
        "notes": "Static analysis only: every verdict is computed from /repo's current source on each run (facts are "
                 "re-extracted whenever the tree hash changes). Genuine defects found on the pinned tree were repaired by "
                 "unguarded `fix:` commits in /repo and are listed in known_findings.json (`fixed`).",
    }
    with open(os.path.join(VERIF, "MANIFEST.json"), "w") as fh:
        json.dump(man, fh, indent=1)
    print("MANIFEST: %d checks, %d not_applicable" % (len(checks), len(na)))


if __name__ == "__main__":
    main()
