"""T5 — table extraction by abstract interpretation of small MIR bodies over a FINITE input domain.

`run(body, {param_local: Val})` executes the normal-flow CFG of `body` on abstract values: enum variants, bools, ints,
strings, tuples/struct aggregates, references, Unknown. Branches on known values are followed; a branch on an
Unknown value stops the run (result.kind == 'stuck'): callers enumerate the whole finite domain (every variant of an
enum, every string of an oracle table) and compare the resulting table row by row with an oracle. This is evaluation of
the program's IR under all values of a finite type, not execution of acmed.
"""
import re
from .mir import CallSite, op_const, op_place, strip_generics


class Val:
    __slots__ = ("k", "v", "extra")

    def __init__(self, k, v=None, extra=None):
        self.k = k          # variant | bool | int | str | unit | tuple | adt | ref | unknown | fn | char | bytes
        self.v = v
        self.extra = extra

    def __repr__(self):
        if self.k == "variant":
            return "%s::%s" % (self.extra.rsplit("::", 1)[-1] if self.extra else "", self.v)
        if self.k == "adt":
            return "%s::%s%r" % (self.extra[0].rsplit("::", 1)[-1], self.extra[1], self.v)
        if self.k == "ref":
            return "&%r" % (self.v,)
        if self.k == "unknown":
            return "?%s" % (self.v or "")
        return "%s(%r)" % (self.k, self.v)

    def __eq__(self, o):
        return isinstance(o, Val) and self.k == o.k and self.v == o.v and self.extra == o.extra

    def __hash__(self):
        return hash((self.k, repr(self.v), repr(self.extra)))

    def target(self):
        """the referent: live (the owner's current value) for a `&mut` place reference, else the value captured at borrow time"""
        e = self.extra
        if isinstance(e, tuple) and len(e) > 2 and e[0] == "place":
            fr = _FRAMES.get(e[2])
            if fr is not None and e[1] in fr:
                v = fr[e[1]]
                for f in (e[3] if len(e) > 3 else ()):
                    n = 0
                    while v.k == "ref" and n < 32:
                        v = v.target()
                        n += 1
                    if v.k in ("adt", "tuple", "list") and isinstance(v.v, list) and f < len(v.v):
                        v = v.v[f]
                    else:
                        return self.v
                return v
        return self.v

    def deref(self):
        x = self
        n = 0
        while x.k == "ref" and n < 64:
            x = x.target()
            n += 1
        return x


def _structural_eq(a, b, depth=0):
    """derived PartialEq on fully concrete aggregates (newtypes around integers, tuples, Option/Result of those): True / False, or
    None when a leaf is not concrete"""
    a, b = a.deref(), b.deref()
    if depth > 8:
        return None
    if a.k in ("str", "int", "bool", "char") and b.k == a.k:
        return a.v == b.v
    if a.k == "variant" and b.k == "variant":
        return a.v == b.v
    if {a.k, b.k} == {"variant", "adt"}:
        va, ad = (a, b) if a.k == "variant" else (b, a)
        if isinstance(ad.extra, tuple) and len(ad.extra) > 1 and ad.extra[0] not in ("closure", "coroutine", "nom"):
            return False if ad.extra[1] != va.v else None
        return None
    if a.k == b.k and a.k in ("adt", "tuple") and isinstance(a.v, list) and isinstance(b.v, list):
        if a.k == "adt":
            if not (isinstance(a.extra, tuple) and isinstance(b.extra, tuple)) or a.extra[0] in ("closure", "coroutine", "nom"):
                return None
            if a.extra[0].rsplit("::", 1)[-1] != b.extra[0].rsplit("::", 1)[-1]:
                return None
            if a.extra[1] != b.extra[1]:
                return False
        if len(a.v) != len(b.v):
            return None
        out = True
        for x, y in zip(a.v, b.v):
            if not isinstance(x, Val) or not isinstance(y, Val):
                return None
            r = _structural_eq(x, y, depth + 1)
            if r is None:
                return None
            out = out and r
        return out
    return None


def _ip_text(v):
    """Display of an IpAddr / Ipv4Addr / Ipv6Addr value as Rust prints it (RFC 5952 text; v4-mapped as `::ffff:a.b.c.d`)"""
    import ipaddress
    if v.k == "adt" and v.extra and str(v.extra[0]).endswith("IpAddr") and v.v and v.v[0].deref().k == "ip":
        v = v.v[0].deref()
    if v.k != "ip":
        return None
    b = bytes(v.v)
    if len(b) == 4:
        return str(ipaddress.IPv4Address(b))
    if len(b) == 16:
        if b[:10] == bytes(10) and b[10:12] == b"\xff\xff":
            return "::ffff:" + str(ipaddress.IPv4Address(b[12:]))
        return str(ipaddress.IPv6Address(b))
    return None


def _is_place(x):
    return isinstance(x, tuple) and len(x) > 1 and x[0] == "place"


def _resolve_place(extra, env):
    """(frame, local, field path) of the storage a `&mut` place reference designates: whenever the walk meets another place
    reference (a reborrow, a `&mut self` kept in a coroutine state or a closure capture) it continues in the owner's frame"""
    path = list(extra[3]) if len(extra) > 3 else []
    e = _FRAMES.get(extra[2], env) if len(extra) > 2 else env
    l = extra[1]
    for _ in range(64):
        v = e.get(l, UNKNOWN)
        i = 0
        jumped = False
        guard = 0
        while guard < 256:
            guard += 1
            if v.k == "ref" and _is_place(v.extra):
                x = v.extra
                e = _FRAMES.get(x[2], e) if len(x) > 2 else e
                l = x[1]
                path = (list(x[3]) if len(x) > 3 else []) + path[i:]
                jumped = True
                break
            if v.k == "ref":
                v = v.v
                continue
            if i == len(path):
                break
            f = path[i]
            if v.k in ("adt", "tuple", "list") and isinstance(v.v, list) and f < len(v.v):
                v = v.v[f]
                i += 1
            else:
                break
        if not jumped:
            break
    return e, l, path


class _Slot:
    """read/write access to a (frame, local, field path) place"""

    def __init__(self, env, local, path):
        self.env, self.local, self.path = env, local, path

    def get(self, _k, default=None):
        v = self.env.get(self.local, default)
        if v is None:
            return default
        for f in self.path:
            n = 0
            while v.k == "ref" and n < 32:
                v = v.target()
                n += 1
            if v.k in ("adt", "tuple", "list") and isinstance(v.v, list) and f < len(v.v):
                v = v.v[f]
            else:
                return default
        return v

    def __setitem__(self, _k, new):
        def put(v, path):
            if not path:
                return new
            if v.k == "ref":
                return Val("ref", put(v.v, path), v.extra)
            if v.k in ("adt", "tuple", "list") and isinstance(v.v, list) and path[0] < len(v.v):
                nv = list(v.v)
                nv[path[0]] = put(nv[path[0]], path[1:])
                return Val(v.k, nv, v.extra)
            return v
        self.env[self.local] = put(self.env.get(self.local, UNKNOWN), self.path)


class Fallback(Val):
    """a call model's generic answer (`every fallible call succeeds`): used only when no built-in model knows the callee"""
    __slots__ = ()


class Diverged(Exception):
    """a followed callee / evaluated closure never returns (process::exit, panic): the caller does not continue either"""


class Effect:
    """a call model's answer that also WRITES through `&mut` arguments: ret = the returned value, writes = [(argument index, new
    value of the place behind that argument)] (e.g. `Read::read_to_string(&mut file, &mut buf)`)"""

    def __init__(self, ret, writes):
        self.ret, self.writes = ret, writes


_FRAMES = {}
_FRAME_SEQ = [0]
MAX_DEPTH = 40        # nested interpretations (followed callees, closures); termination is bounded by max_steps as well
UNKNOWN = Val("unknown")
UNIT = Val("unit")
NONE_V = Val("variant", "None", "core::option::Option")


def variant(adt, name):
    return Val("variant", name, adt)


def vstr(s):
    return Val("str", s)


def vbool(b):
    return Val("bool", bool(b))


def vint(i):
    return Val("int", int(i))


class Result:
    def __init__(self):
        self.kind = None      # 'return' | 'stuck' | 'diverge' | 'limit'
        self.ret = None
        self.calls = []       # (CallSite, [arg Vals], result Val)
        self.path = []
        self.stuck_at = None
        self.env = None

    def called(self, *names):
        return [c for c in self.calls if c[0].is_(*names)]

    def __repr__(self):
        return "<%s %r>" % (self.kind, self.ret)


TRANSPARENT = (
    "core::ops::deref::Deref::deref", "core::ops::deref::DerefMut::deref_mut", "alloc::string::String::as_str",
    "core::clone::Clone::clone", "alloc::borrow::ToOwned::to_owned", "alloc::string::ToString::to_string",
    "core::convert::AsRef::as_ref", "core::borrow::Borrow::borrow", "alloc::str::<impl alloc::borrow::ToOwned for str>::to_owned",
    "core::convert::Into::into", "core::convert::From::from", "alloc::string::String::as_bytes", "core::str::<impl str>::as_bytes",
)


def _split_top(s_):
    out, depth, cur, quote = [], 0, "", None
    for ch in s_:
        if quote:
            cur += ch
            if ch == quote:
                quote = None
            continue
        if ch in "\"'":
            quote = ch
            cur += ch
        elif ch in "([{":
            depth += 1
            cur += ch
        elif ch in ")]}":
            depth -= 1
            cur += ch
        elif ch == "," and depth == 0:
            out.append(cur.strip())
            cur = ""
        else:
            cur += ch
    if cur.strip():
        out.append(cur.strip())
    return out


def _parse_pp_value(part):
    import re as _re
    part = part.strip()
    if part.startswith("const "):
        part = part[6:].strip()
    m = _re.match(r"^(-?\d+)_[iu](?:8|16|32|64|128|size)$", part)
    if m:
        return vint(int(m.group(1)))
    if part in ("true", "false"):
        return vbool(part == "true")
    if len(part) >= 2 and part[0] == '"' and part[-1] == '"':
        return vstr(part[1:-1])
    if len(part) == 3 and part[0] == "'" and part[-1] == "'":
        return Val("char", part[1])
    if part.startswith("(") and part.endswith(")"):
        items = [_parse_pp_value(x) for x in _split_top(part[1:-1])]
        return None if any(x is None for x in items) else Val("tuple", items)
    if part.startswith("[") and part.endswith("]"):
        items = [_parse_pp_value(x) for x in _split_top(part[1:-1])]
        return None if any(x is None for x in items) else Val("list", items)
    if part.startswith("&"):
        return _parse_pp_value(part[1:])
    if _re.match(r"^[A-Za-z_][\w:<>]*$", part) and "::" in part:
        adt, name = part.rsplit("::", 1)
        return variant(adt, name)
    m = _re.match(r"^([A-Za-z_][\w:]*)\((.*)\)$", part)
    if m and "::" in m.group(1):
        # a tuple struct / newtype constant: `openssl::pkey::Id(6_i32)`
        items = [_parse_pp_value(x) for x in _split_top(m.group(2))]
        if items and all(x is not None for x in items):
            return Val("adt", items, (m.group(1), m.group(1).rsplit("::", 1)[-1]))
    return None


def _parse_pp_list(pp):
    """`[A::B::X, A::B::Y]` / `[60_u64, 600_u64]` / `[('s', 1_u64), ..]` -> list of Vals, or None"""
    v = _parse_pp_value(pp or "")
    return list(v.v) if v is not None and v.k == "list" else None


def _promoted_to_val(body, idx, depth=0):
    """value of a promoted constant: its tiny body is a straight line of assignments (array literal, reference to a const item)"""
    if idx >= len(body.promoted) or depth > 3:
        return None
    env = {}
    it = Interp(body)
    for blk in body.promoted[idx]["blocks"]:
        for st in blk["stmts"]:
            if st["s"] == "assign" and not st["lhs"]["p"]:
                rv = st["rv"]
                if rv["k"] == "use" and op_const(rv["op"]) is not None:
                    cc = op_const(rv["op"])
                    v = _item_val(body, cc)
                    env[st["lhs"]["l"]] = v if v is not None else const_val(body, rv["op"])
                elif rv["k"] == "agg" and rv.get("agg") == "array":
                    env[st["lhs"]["l"]] = Val("list", [it.operand(env, o) for o in rv["ops"]])
                else:
                    env[st["lhs"]["l"]] = it.rvalue(env, rv)
    return env.get(0)


def _item_val(body, c):
    """a reference to a `const ITEM: [T; N]` item whose value is printed in the facts"""
    prog = getattr(body, "prog", None)
    item = c.get("item")
    src = None
    if item and prog is not None and item in prog.consts:
        src = prog.consts[item].get("pp")
    elif c.get("ty", "").lstrip("&").startswith("[") and c.get("pp"):
        src = c.get("pp")
    if src:
        vals = _parse_pp_list(src)
        if vals is not None:
            return Val("list", vals)
    return None


def const_val(body, op):
    c0 = op_const(op)
    if c0 is not None and "promoted" in c0 and c0.get("ty", "").lstrip("&").startswith("["):
        v = _promoted_to_val(body, c0["promoted"])
        if v is not None and v.deref().k == "list":
            return v
    if c0 is not None:
        v = _item_val(body, c0)
        if v is not None:
            return v
    c = body.const_of(op)
    if c is None:
        return UNKNOWN
    if "variant" in c and "adt" in c:
        ops = c.get("ops", [])
        if not ops:
            return variant(strip_generics(c["adt"]), c["variant"])
        return Val("adt", [const_val(body, o) if isinstance(o, dict) else UNKNOWN for o in ops],
                   (strip_generics(c["adt"]), c["variant"]))
    if "bool" in c:
        return vbool(c["bool"])
    if "int" in c:
        return vint(c["int"])
    if "str" in c:
        return vstr(c["str"])
    if "char" in c:
        return Val("char", c["char"])
    if "bytes" in c:
        return Val("bytes", bytes(c["bytes"]))
    if "fn" in c:
        return Val("fn", strip_generics(c.get("res") or c["fn"]))
    if c.get("zst"):
        return UNIT
    if "array" in c:
        return Val("list", [_cv(x) for x in c["array"]])
    if "pp" in c:
        pp = c["pp"]
        md = re.match(r"^core::time::Duration \{+\s*secs: (\d+)_u64, nanos: .*?\((\d+)_u32", pp)
        if md and int(md.group(2)) == 0:
            return Val("int", int(md.group(1)), "dur")            # a whole number of seconds
        # fieldless enum constants are rendered as a path `crate::mod::Enum::Variant`
        if "::" in pp and pp.replace("::", "").replace("_", "").isalnum():
            adt, name = pp.rsplit("::", 1)
            return variant(adt, name)
        if re.match(r"^[A-Za-z_][\w:]*\(-?\d+_[iu]\w+\)$", pp):
            v_ = _parse_pp_value(pp)                           # newtype constant around an integer: `openssl::pkey::Id(6_i32)`
            if v_ is not None:
                return v_
        return Val("unknown", pp)
    return UNKNOWN


def _cv(c):
    if c is None:
        return UNKNOWN
    if "variant" in c and "adt" in c:
        return variant(strip_generics(c["adt"]), c["variant"])
    for k, f in (("bool", vbool), ("int", vint), ("str", vstr)):
        if k in c:
            return f(c[k])
    if "pp" in c and "::" in c["pp"]:
        adt, name = c["pp"].rsplit("::", 1)
        return variant(adt, name)
    return UNKNOWN


def _rust_bytes(pp):
    import ast
    try:
        v = ast.literal_eval(pp)
        return v if isinstance(v, bytes) else None
    except Exception:
        return None


def _fmt_template(raw):
    """pieces of a compiled format template (core::fmt::Arguments, byte-encoded): literal strings, None for a `{}` placeholder with
    default options taking the next argument. Anything else (explicit width/precision/position) -> not evaluated."""
    out, i = [], 0
    while i < len(raw):
        n = raw[i]
        i += 1
        if n == 0:
            return out
        if n < 0x80:
            out.append(raw[i:i + n].decode("utf-8", "replace"))
            i += n
        elif n == 0x80 and i + 2 <= len(raw):
            ln = raw[i] | (raw[i + 1] << 8)
            i += 2
            out.append(raw[i:i + ln].decode("utf-8", "replace"))
            i += ln
        elif n == 0xC0:
            out.append(None)
        elif n & 0xF0 == 0xC0:
            # placeholder with options: bit0 = flags (u32), bit1 = width (u16), bit2 = precision (u16), bit3 = argument index (u16)
            flags = width = prec = idx = None
            if n & 1:
                flags = int.from_bytes(raw[i:i + 4], "little")
                i += 4
            if n & 2:
                width = int.from_bytes(raw[i:i + 2], "little")
                i += 2
            if n & 4:
                prec = int.from_bytes(raw[i:i + 2], "little")
                i += 2
            if n & 8:
                idx = int.from_bytes(raw[i:i + 2], "little")
                i += 2
            out.append(("ph", flags, width, prec, idx))
        else:
            return None
    return out


def _fmt_arg(a, spec=None):
    t = _fmt_arg_plain(a)
    if t is None or spec is None:
        return t
    _, flags, width, prec, _idx = spec
    if prec is not None:
        return None
    if width is not None and len(t) < width:
        numeric = a.v[0].deref().k == "int"
        fl = flags or 0x20
        fill = chr(fl & 0x1FFFFF) if (fl & 0x1FFFFF) else " "
        if (fl >> 24) & 1 and numeric:
            return t.rjust(width, "0")
        align = (fl >> 29) & 3
        if align == 0 or (align == 3 and not numeric):
            return t.ljust(width, fill)
        if align == 2:
            return t.center(width, fill)
        return t.rjust(width, fill)
    return t


def _fmt_arg_plain(a):
    if a.k != "fmtarg":
        return None
    v = a.v[0].deref()
    kind = a.extra
    if kind == "display" and v.k in ("str", "int", "char"):
        return str(v.v)
    if kind == "display" and v.k == "bool":
        return "true" if v.v else "false"
    if kind == "lower_hex" and v.k == "int":
        return "%x" % v.v
    if kind == "upper_hex" and v.k == "int":
        return "%X" % v.v
    return None


class _FnValueCall:
    """stand-in for a CallSite when a function VALUE is invoked (through Fn::call or an iterator adaptor)"""

    def __init__(self, cs, key):
        self.body, self.bb, self.term = cs.body, cs.bb, cs.term
        self.fn = self.res = self.name = key
        m = re.match(r"^<.* as ([^<>]+(?:<.*>)?)>::(\w+)$", key)
        if m:
            self.fn = "%s::%s" % (re.sub(r"<.*>$", "", strip_generics(m.group(1))), m.group(2))
        self.args, self.dest, self.target, self.line, self.exp = [], None, cs.target, cs.line, cs.exp
        self.gbodies, self.gargs = [], []

    def is_(self, *names):
        for n in names:
            if n == self.name or n == self.fn or (n.startswith("*") and self.name.endswith(n[1:])):
                return True
        return False

    def is_or_polls(self, *names):
        return self.is_(*names)

    def where(self):
        return "%s:%s (%s bb%d)" % (self.body.file_of(self.bb), self.line, self.body.key, self.bb)


class Interp:
    def __init__(self, body, call_model=None, max_steps=4000):
        self.body = body
        self.call_model = call_model
        self.max_steps = max_steps
        self.depth = 0
        self._res = None
        self.follow = None      # predicate(CallSite) -> bool: workspace callees to interpret instead of treating as opaque

    # ---------------------------------------------------------------- places
    def read_place(self, env, p):
        v = env.get(p["l"], UNKNOWN)
        for e in p["p"]:
            if e == "*":
                if v.k == "ref":
                    v = v.target()
                # deref of a non-ref known value (Box/&): keep value
                continue
            if isinstance(e, dict):
                if "downcast" in e:
                    continue
                if "f" in e:
                    if v.k in ("tuple", "adt") and isinstance(v.v, list) and e["f"] < len(v.v):
                        v = v.v[e["f"]]
                    elif v.k == "unknown":
                        v = Val("unknown", "%s.%s" % (v.v or "", e.get("n", e["f"])))
                    else:
                        v = UNKNOWN
                    continue
                if "cidx" in e:
                    if v.k in ("tuple", "list") and e["cidx"] < len(v.v) and not e.get("from_end"):
                        v = v.v[e["cidx"]]
                    else:
                        v = UNKNOWN
                    continue
                if "idx" in e:
                    ix = env.get(int(e["idx"]), UNKNOWN).deref()
                    if v.k in ("tuple", "list") and ix.k == "int" and 0 <= ix.v < len(v.v):
                        v = v.v[ix.v]
                    else:
                        v = UNKNOWN
                    continue
            v = UNKNOWN
        return v

    def write_place(self, env, p, val):
        if not p["p"]:
            env[p["l"]] = val
            return
        # `vec![..]`: the array is written into a fresh Box<MaybeUninit<[T; N]>> through its transparent wrappers
        wrappers = ("core::mem::maybe_uninit::MaybeUninit", "core::mem::manually_drop::ManuallyDrop", "core::mem::maybe_dangling::MaybeDangling")
        if p["p"] and all(e == "*" or (isinstance(e, dict) and e.get("adt") in wrappers) for e in p["p"]) and any(isinstance(e, dict) for e in p["p"]):
            env[p["l"]] = val
            return
        # field write into a known aggregate: `_x.0 = v`
        base = env.get(p["l"], UNKNOWN)
        if len(p["p"]) == 1 and isinstance(p["p"][0], dict) and "f" in p["p"][0]:
            i = p["p"][0]["f"]
            if base.k in ("tuple", "adt") and isinstance(base.v, list):
                nv = list(base.v)
                while len(nv) <= i:
                    nv.append(UNKNOWN)
                nv[i] = val
                env[p["l"]] = Val(base.k, nv, base.extra)
                return
            if base.k == "unknown":
                nv = [UNKNOWN] * (i + 1)
                nv[i] = val
                env[p["l"]] = Val("tuple", nv)
                return
        if all(e == "*" or (isinstance(e, dict) and ("f" in e or "downcast" in e)) for e in p["p"]):
            # `(*self).field = v`, `_x.0.1 = v`: the storage is found by walking references (into the owner's frame for `&mut`
            # place references) and fields
            fields = tuple(e["f"] for e in p["p"] if isinstance(e, dict) and "f" in e)
            try:
                fr, l_, path = _resolve_place(("place", p["l"], getattr(self, "fid", 0), fields), env)
                slot = _Slot(fr if fr is not None else env, l_, path)
                if slot.get("slot") is not None or not path:
                    slot["slot"] = val
                    return
            except Exception:
                pass
            if p["p"][0] == "*":
                self._lost_write(env, p)
                return
        elif p["p"] and p["p"][0] == "*":
            self._lost_write(env, p)
            return
        env[p["l"]] = UNKNOWN

    def _lost_write(self, env, p):
        b_ = env.get(p["l"])
        x = b_.extra if b_ is not None and b_.k == "ref" else None
        if isinstance(x, tuple) and len(x) > 2 and x[0] == "lostplace":
            fr = _FRAMES.get(x[2])
            if fr is not None and x[1] in fr:
                fr[x[1]] = UNKNOWN

    def operand(self, env, o):
        c = op_const(o)
        if c is not None:
            return const_val(self.body, o)
        p = op_place(o)
        if p is None:
            return UNKNOWN
        return self.read_place(env, p)

    # ---------------------------------------------------------------- calls
    def model_call(self, cs, args):
        fb = None
        if self.call_model is not None:
            r = self.call_model(cs, args)
            if isinstance(r, Effect):
                for i_, nv_ in r.writes:
                    if i_ < len(args) and args[i_].k == "ref" and _is_place(args[i_].extra):
                        _Slot(*_resolve_place(args[i_].extra, getattr(self, "_env", {})))["slot"] = nv_
                return r.ret
            if isinstance(r, Fallback):
                fb = Val(r.k, r.v, r.extra)
            elif r is not None:
                return r
        r = self.builtin_models(cs, args)
        if r is None:
            # an unmodelled callee that receives `&mut` access to a concrete value may have changed it: the value is unknown from
            # here on (otherwise an evaluation would silently keep the pre-call state — `list.dedup_by(..)`, `map.retain(..)`)
            for a in args:
                if a.k == "ref" and isinstance(a.extra, tuple) and len(a.extra) > 2 and a.extra[0] == "lostplace":
                    fr_ = _FRAMES.get(a.extra[2])
                    if fr_ is not None and a.extra[1] in fr_:
                        fr_[a.extra[1]] = UNKNOWN
                if a.k == "ref" and _is_place(a.extra):
                    try:
                        slot = _Slot(*_resolve_place(a.extra, getattr(self, "_env", {})))
                        cur = slot.get("slot")
                        if cur is not None and cur.k in ("list", "str", "iter", "int", "bool", "tuple", "adt") and not (cur.k == "adt" and cur.extra and cur.extra[0] in ("closure", "coroutine")):
                            slot["slot"] = UNKNOWN
                    except Exception:
                        pass
        return r if r is not None else fb

    def builtin_models(self, cs, args):
        fn = cs.fn or ""
        d = [a.deref() for a in args]
        if fn in ("core::cmp::PartialEq::eq", "core::cmp::PartialEq::ne") and len(d) == 2:
            a, b = d
            if a.k != "unknown" and b.k != "unknown" and a.k == b.k and a.k in ("variant", "str", "int", "bool", "char", "bytes"):
                r = (a.v == b.v) and (a.extra == b.extra or a.k != "variant" or a.extra is None or b.extra is None
                                      or a.extra.rsplit("::", 1)[-1] == b.extra.rsplit("::", 1)[-1])
                return vbool(r if fn.endswith("eq") else not r)
            se = _structural_eq(a, b)
            if se is not None:
                return vbool(se if fn.endswith("eq") else not se)
            return UNKNOWN
        r = self.fmt_models(cs, args, d)
        if r is not None:
            return r
        if cs.is_("alloc::string::ToString::to_string") and d and d[0].k in ("int", "char"):
            return vstr(str(d[0].v))
        if cs.is_("alloc::string::ToString::to_string") and d:
            t_ = _ip_text(d[0])
            if t_ is not None:
                return vstr(t_)
        if cs.is_(*TRANSPARENT) and args:
            a = args[0]
            if fn.endswith("clone") or fn.endswith("to_owned") or fn.endswith("to_string") or fn.endswith("into") or fn.endswith("from"):
                if (fn.endswith("clone") or fn.endswith("to_owned")) and a.deref().k == "list":
                    return a.deref()                        # a cloned Vec / map / set is a value of its own, not a view of the original
                return a.deref() if a.deref().k in ("str", "variant", "int", "bool", "adt", "tuple") else a
            return a
        if cs.is_("core::str::<impl str>::to_lowercase", "alloc::str::<impl str>::to_lowercase") and d and d[0].k == "str":
            return vstr(d[0].v.lower())
        if cs.is_("core::str::<impl str>::to_uppercase", "alloc::str::<impl str>::to_uppercase") and d and d[0].k == "str":
            return vstr(d[0].v.upper())
        if fn == "core::ops::try_trait::Try::branch" and d and d[0].k in ("adt", "variant"):
            nm = d[0].extra[1] if d[0].k == "adt" else d[0].v
            payload = d[0].v if d[0].k == "adt" else []
            if nm in ("Ok", "Some"):
                return Val("adt", list(payload) or [UNIT], ("core::ops::control_flow::ControlFlow", "Continue"))
            if nm in ("Err", "None"):
                return Val("adt", [Val("adt", list(payload), d[0].extra)] if d[0].k == "adt" else [d[0]], ("core::ops::control_flow::ControlFlow", "Break"))
        if fn == "core::ops::try_trait::FromResidual::from_residual" and d and d[0].k in ("adt", "variant"):
            nm = d[0].extra[1] if d[0].k == "adt" else d[0].v
            if nm == "Err" and d[0].k == "adt":
                return Val("adt", list(d[0].v), ("core::result::Result", "Err"))
            if nm == "None":
                return NONE_V
        if fn in ("core::ops::function::FnOnce::call_once", "core::ops::function::Fn::call", "core::ops::function::FnMut::call_mut") and args:
            # calling a closure / fn value: the argument tuple is spread over the callee's parameters
            f0 = args[0].deref()
            if (f0.k == "adt" and f0.extra and f0.extra[0] == "closure") or f0.k == "fn":
                tup = args[1].deref() if len(args) > 1 else Val("tuple", [])
                cargs = list(tup.v) if tup.k == "tuple" else ([] if tup.k == "unit" else [tup])
                return self.call_closure(cs, args[0], cargs)
        r = self.option_combinators(cs, args, d)
        if r is not None:
            return r
        r = self.list_models(cs, args, d)
        if r is not None:
            return r
        r = self.str_models(cs, args, d)
        if r is not None:
            return r
        if fn == "core::bool::<impl bool>::then_some" and d and d[0].k == "bool" and len(args) > 1:
            return some(args[1]) if d[0].v else NONE_V
        if fn == "core::bool::<impl bool>::then" and d and d[0].k == "bool" and len(args) > 1:
            return some(self.call_closure(cs, args[1], [])) if d[0].v else NONE_V
        if cs.is_("core::option::Option::is_none") and d and d[0].k in ("variant", "adt"):
            nm = d[0].v if d[0].k == "variant" else d[0].extra[1]
            return vbool(nm == "None")
        if cs.is_("core::option::Option::is_some") and d and d[0].k in ("variant", "adt"):
            nm = d[0].v if d[0].k == "variant" else d[0].extra[1]
            return vbool(nm == "Some")
        return None

    def nom_models(self, cs, args, d):
        """the handful of nom 7 combinators the period grammar is written with, on concrete input strings: parser values are kept as
        terms, applying one runs the argument parsers / closures through call_closure (library knowledge, like the Vec / HashMap models)"""
        fn = cs.fn or ""
        nm = cs.name or fn
        if not (fn.startswith("nom::") or nm.startswith("nom::")):
            return None
        m = fn.rsplit("::", 1)[-1]

        def nerr(kind):
            return Val("adt", [Val("unknown", "nom::Err(%s)" % kind)], ("core::result::Result", "Err"))

        def apply(parser, inp):
            """run a parser VALUE (fn item, closure, or a combinator term built below) on the str `inp`: Result value or None"""
            p = parser.deref()
            if p.k == "adt" and isinstance(p.extra, tuple) and p.extra[0] == "nom":
                return run_term(p, inp)
            r_ = self.call_closure(cs, parser, [Val("ref", vstr(inp))])
            return r_.deref() if r_ is not None else None

        def split_ok(res):
            res = res.deref() if res is not None else None
            if res is None or res.k != "adt" or not res.extra:
                return None
            if res.extra[1] == "Err":
                return ("Err", res)
            if res.extra[1] == "Ok" and res.v and res.v[0].deref().k == "tuple" and len(res.v[0].deref().v) == 2 and res.v[0].deref().v[0].deref().k == "str":
                t_ = res.v[0].deref()
                return ("Ok", t_.v[0].deref().v, t_.v[1])
            return None

        def run_term(p, inp):
            kind = p.extra[1]
            if kind in ("take_while_m_n", "take_while1", "take_while"):
                lo, hi, pred = p.v
                n_ = 0
                while n_ < len(inp) and (hi is None or n_ < hi):
                    rb = self.call_closure(cs, pred, [Val("char", inp[n_])]).deref()
                    if rb.k != "bool":
                        return None
                    if not rb.v:
                        break
                    n_ += 1
                if n_ < lo:
                    return nerr(kind)
                return ok(Val("tuple", [vstr(inp[n_:]), vstr(inp[:n_])]))
            if kind in ("take_till",):
                lo, pred = p.v
                n_ = 0
                while n_ < len(inp):
                    rb = self.call_closure(cs, pred, [Val("char", inp[n_])]).deref()
                    if rb.k != "bool":
                        return None
                    if rb.v:
                        break
                    n_ += 1
                if n_ < lo:
                    return nerr("TakeTill1")
                return ok(Val("tuple", [vstr(inp[n_:]), vstr(inp[:n_])]))
            if kind == "satisfy":
                if not inp:
                    return nerr("Satisfy")
                rb = self.call_closure(cs, p.v[0], [Val("char", inp[0])]).deref()
                if rb.k != "bool":
                    return None
                return ok(Val("tuple", [vstr(inp[1:]), Val("char", inp[0])])) if rb.v else nerr("Satisfy")
            if kind in ("tag", "char", "one_of", "none_of"):
                v_ = p.v[0].deref()
                if v_.k not in ("str", "char"):
                    return None
                if kind == "tag":
                    return ok(Val("tuple", [vstr(inp[len(v_.v):]), vstr(v_.v)])) if inp.startswith(v_.v) else nerr("Tag")
                if kind == "char":
                    return ok(Val("tuple", [vstr(inp[1:]), Val("char", inp[0])])) if inp[:1] == v_.v and inp else nerr("Char")
                hit = bool(inp) and ((inp[0] in v_.v) == (kind == "one_of"))
                return ok(Val("tuple", [vstr(inp[1:]), Val("char", inp[0])])) if hit else nerr("OneOf")
            if kind in ("pair", "tuple", "preceded", "terminated", "separated_pair", "delimited"):
                outs, cur_ = [], inp
                for q in p.v:
                    s1 = split_ok(apply(q, cur_))
                    if s1 is None:
                        return None
                    if s1[0] == "Err":
                        return s1[1]
                    outs.append(s1[2])
                    cur_ = s1[1]
                pick = {"pair": outs, "tuple": outs, "preceded": outs[1:2], "terminated": outs[0:1], "separated_pair": [outs[0], outs[-1]], "delimited": outs[1:2]}[kind]
                return ok(Val("tuple", [vstr(cur_), Val("tuple", pick) if kind in ("pair", "tuple", "separated_pair") else pick[0]]))
            if kind == "alt":
                last = None
                for q in p.v:
                    r1 = apply(q, inp)
                    s1 = split_ok(r1)
                    if s1 is None:
                        return None
                    if s1[0] == "Ok" or "Failure" in repr(s1[1]):
                        return r1
                    last = s1[1]
                return last
            if kind in ("opt", "all_consuming", "recognize", "value", "many1", "many0", "complete", "cut"):
                q = p.v[-1]
                if kind in ("many1", "many0"):
                    outs, cur_ = [], inp
                    for _ in range(200):
                        s1 = split_ok(apply(q, cur_))
                        if s1 is None:
                            return None
                        if s1[0] == "Err":
                            if "Failure" in repr(s1[1]):
                                return s1[1]
                            break
                        if s1[1] == cur_:
                            return nerr("Many")
                        outs.append(s1[2])
                        cur_ = s1[1]
                    if kind == "many1" and not outs:
                        return nerr("Many1")
                    return ok(Val("tuple", [vstr(cur_), Val("list", outs)]))
                r1 = apply(q, inp)
                s1 = split_ok(r1)
                if s1 is None:
                    return None
                if kind == "opt":
                    if s1[0] == "Err":
                        return s1[1] if "Failure" in repr(s1[1]) else ok(Val("tuple", [vstr(inp), NONE_V]))
                    return ok(Val("tuple", [vstr(s1[1]), some(s1[2])]))
                if s1[0] == "Err":
                    return s1[1]
                if kind == "all_consuming":
                    return r1 if s1[1] == "" else nerr("Eof")
                if kind == "recognize":
                    return ok(Val("tuple", [vstr(s1[1]), vstr(inp[:len(inp) - len(s1[1])])]))
                if kind == "value":
                    return ok(Val("tuple", [vstr(s1[1]), p.v[0]]))
                return r1
            if kind == "map_res":
                parser, f_ = p.v
                s1 = split_ok(apply(parser, inp))
                if s1 is None:
                    return None
                if s1[0] == "Err":
                    return s1[1]
                r2 = self.call_closure(cs, f_, [s1[2]]).deref()
                if r2.k == "adt" and r2.extra and r2.extra[1] == "Ok":
                    return ok(Val("tuple", [vstr(s1[1]), r2.v[0]]))
                if r2.k == "adt" and r2.extra and r2.extra[1] == "Err":
                    return nerr("MapRes")
                return None
            if kind == "map":
                parser, f_ = p.v
                s1 = split_ok(apply(parser, inp))
                if s1 is None:
                    return None
                if s1[0] == "Err":
                    return s1[1]
                return ok(Val("tuple", [vstr(s1[1]), self.call_closure(cs, f_, [s1[2]])]))
            if kind in ("fold_many1", "fold_many0"):
                parser, init, step = p.v
                acc = self.call_closure(cs, init, [])
                n_ok = 0
                cur_ = inp
                for _ in range(200):
                    s1 = split_ok(apply(parser, cur_))
                    if s1 is None:
                        return None
                    if s1[0] == "Err":
                        if "Failure" in repr(s1[1]):
                            return s1[1]
                        break
                    if s1[1] == cur_:
                        return nerr("Many")
                    acc = self.call_closure(cs, step, [acc, s1[2]])
                    cur_ = s1[1]
                    n_ok += 1
                if kind == "fold_many1" and n_ok == 0:
                    return nerr("Many1")
                return ok(Val("tuple", [vstr(cur_), acc]))
            return None
        # constructors: the parser as a term
        if fn == "nom::bytes::complete::take_while_m_n" and len(d) == 3 and d[0].k == d[1].k == "int":
            return Val("adt", [d[0].v, d[1].v, args[2]], ("nom", "take_while_m_n"))
        if fn in ("nom::bytes::complete::take_while1", "nom::bytes::complete::take_while") and len(d) == 1:
            return Val("adt", [1 if fn.endswith("1") else 0, None, args[0]], ("nom", "take_while1"))
        if fn == "nom::character::complete::satisfy" and len(args) == 1:
            return Val("adt", [args[0]], ("nom", "satisfy"))
        if fn in ("nom::bytes::complete::take_till1", "nom::bytes::complete::take_till") and len(d) == 1:
            return Val("adt", [1 if fn.endswith("1") else 0, args[0]], ("nom", "take_till"))
        if fn in ("nom::bytes::complete::tag", "nom::character::complete::char", "nom::character::complete::one_of", "nom::character::complete::none_of") and len(d) == 1:
            return Val("adt", [args[0]], ("nom", m))
        if fn in ("nom::sequence::pair", "nom::sequence::preceded", "nom::sequence::terminated", "nom::sequence::separated_pair", "nom::sequence::delimited") and len(args) >= 2:
            return Val("adt", list(args), ("nom", m))
        if fn in ("nom::sequence::tuple", "nom::branch::alt") and len(d) == 1 and d[0].k == "tuple":
            return Val("adt", list(d[0].v), ("nom", m))
        if fn in ("nom::combinator::opt", "nom::combinator::all_consuming", "nom::combinator::recognize", "nom::combinator::complete", "nom::combinator::cut", "nom::multi::many1", "nom::multi::many0") and len(args) == 1:
            return Val("adt", [args[0]], ("nom", m))
        if fn == "nom::combinator::value" and len(args) == 2:
            return Val("adt", [args[0], args[1]], ("nom", m))
        if fn in ("nom::combinator::map_res", "nom::combinator::map") and len(args) == 2:
            return Val("adt", [args[0], args[1]], ("nom", m))
        if fn in ("nom::multi::fold_many1", "nom::multi::fold_many0") and len(args) == 3:
            return Val("adt", [args[0], args[1], args[2]], ("nom", m))
        # digit1 & friends applied directly (or through a fn value)
        if nm.startswith("nom::character::complete::digit1") or fn.startswith("nom::character::complete::digit1"):
            if d and d[0].k == "str":
                inp = d[0].v
                n_ = 0
                while n_ < len(inp) and inp[n_] in "0123456789":
                    n_ += 1
                return ok(Val("tuple", [vstr(inp[n_:]), vstr(inp[:n_])])) if n_ else nerr("Digit")
            return None
        for nm_, cls_, ek_ in (("alpha1", lambda ch: ch.isalpha() and ord(ch) < 128, "Alpha"), ("alphanumeric1", lambda ch: ch.isalnum() and ord(ch) < 128, "AlphaNumeric"),
                               ("digit0", lambda ch: ch in "0123456789", None), ("space0", lambda ch: ch in " \t", None), ("multispace0", lambda ch: ch in " \t\r\n", None)):
            if nm.startswith("nom::character::complete::" + nm_) or fn.startswith("nom::character::complete::" + nm_):
                if d and d[0].k == "str":
                    inp = d[0].v
                    n_ = 0
                    while n_ < len(inp) and cls_(inp[n_]):
                        n_ += 1
                    return ok(Val("tuple", [vstr(inp[n_:]), vstr(inp[:n_])])) if (n_ or ek_ is None) else nerr(ek_)
                return None
        # applying a combinator term: `<term>::{closure#0}(&mut parser, (input,))`
        if "{closure" in nm and d and d[0].k == "adt" and isinstance(d[0].extra, tuple) and d[0].extra[0] == "nom" and len(d) > 1:
            inp = d[1].v[0].deref() if d[1].k == "tuple" and d[1].v else d[1]
            if inp.k == "str":
                return run_term(d[0], inp.v)
        return None

    def fmt_models(self, cs, args, d):
        """format!/to_string of concrete values, IP address parsing, integer byte views — what the name-building code is made of"""
        fn = cs.fn or ""
        nm = cs.name or fn
        m = fn.rsplit("::", 1)[-1]
        if fn.startswith("core::fmt::rt::Argument") and m.startswith("new_") and d:
            return Val("fmtarg", [d[0]], m[4:])
        if fn.startswith("core::fmt::Arguments") and m in ("new", "new_v1", "new_const", "from_str", "from_str_nonconst") and d:
            tpl = d[0]
            if tpl.k == "str":
                return Val("fmt", [[tpl.v], []])
            raw = None
            if tpl.k == "bytes":
                raw = tpl.v
            elif tpl.k == "unknown" and isinstance(tpl.v, str) and tpl.v.startswith('b"'):
                raw = _rust_bytes(tpl.v)
            pieces = _fmt_template(raw) if raw is not None else None
            fa = d[1] if len(d) > 1 else Val("tuple", [])
            if pieces is None or fa.k not in ("tuple", "list"):
                return None
            return Val("fmt", [pieces, [x.deref() for x in fa.v]])
        if fn in ("alloc::fmt::format", "alloc::fmt::format::format_inner") and d and d[0].k == "fmt":
            pieces, fargs = d[0].v
            out, i = "", 0
            for pc in pieces:
                if isinstance(pc, str):
                    out += pc
                    continue
                if pc is not None and pc[4] is not None:
                    if pc[4] >= len(fargs):
                        return None
                    t = _fmt_arg(fargs[pc[4]], pc)
                    if t is None:
                        return None
                    out += t
                    continue
                if i >= len(fargs):
                    return None
                t = _fmt_arg(fargs[i], pc)
                i += 1
                if t is None:
                    return None
                out += t
            return vstr(out)
        if fn == "core::hint::must_use" and args:
            return args[0]
        r_nom = self.nom_models(cs, args, d)
        if r_nom is not None:
            return r_nom
        if fn.startswith("core::num::<impl u") and len(d) == 2 and d[0].k == d[1].k == "int" and m in ("checked_mul", "checked_add", "checked_sub", "saturating_mul", "saturating_add", "saturating_sub", "wrapping_add", "wrapping_mul"):
            bits = {"u8": 8, "u16": 16, "u32": 32, "u64": 64, "usize": 64, "u128": 128}.get(fn[len("core::num::<impl "):].split(">", 1)[0], 64)
            x, y = d[0].v, d[1].v
            val = {"mul": x * y, "add": x + y, "sub": x - y}[m.rsplit("_", 1)[1]]
            if m.startswith("checked"):
                return some(vint(val)) if 0 <= val < 2 ** bits else NONE_V
            if m.startswith("saturating"):
                return vint(min(max(val, 0), 2 ** bits - 1))
            return vint(val % (2 ** bits))
        if fn in ("core::str::<impl str>::parse",) and d and d[0].k == "str" and cs.dest is not None:
            dty = self.body.local_ty(cs.dest["l"]) if hasattr(cs, "dest") and cs.dest else ""
            mt = re.match(r"^core::result::Result<(u8|u16|u32|u64|usize|u128),", dty)
            if mt:
                bits = {"u8": 8, "u16": 16, "u32": 32, "u64": 64, "usize": 64, "u128": 128}[mt.group(1)]
                txt = d[0].v[1:] if d[0].v.startswith("+") else d[0].v
                if txt.isdigit() and all(ord(ch_) < 128 for ch_ in txt) and int(txt) < 2 ** bits:
                    return ok(vint(int(txt)))
                return Val("adt", [Val("unknown", "ParseIntError")], ("core::result::Result", "Err"))
        if fn.startswith("core::char::methods::<impl char>::") and d and d[0].k == "char":
            ch = d[0].v
            preds = {"is_ascii": ord(ch) < 128, "is_ascii_alphanumeric": ord(ch) < 128 and ch.isalnum(), "is_ascii_alphabetic": ord(ch) < 128 and ch.isalpha(),
                     "is_ascii_digit": ch in "0123456789", "is_ascii_lowercase": "a" <= ch <= "z", "is_ascii_uppercase": "A" <= ch <= "Z",
                     "is_ascii_punctuation": ord(ch) < 128 and not ch.isalnum() and not ch.isspace() and ch.isprintable(), "is_ascii_hexdigit": ch in "0123456789abcdefABCDEF",
                     "is_alphanumeric": ch.isalnum(), "is_alphabetic": ch.isalpha(), "is_numeric": ch.isnumeric(), "is_whitespace": ch.isspace(), "is_ascii_whitespace": ch in " \t\n\x0c\r",
                     "is_lowercase": ch.islower(), "is_uppercase": ch.isupper()}
            if m in preds:
                return vbool(bool(preds[m]))
            if m == "to_ascii_lowercase":
                return Val("char", ch.lower() if ord(ch) < 128 else ch)
            if m == "to_ascii_uppercase":
                return Val("char", ch.upper() if ord(ch) < 128 else ch)
        if fn.startswith("core::time::Duration::") and d and all(x.k == "int" for x in d):
            x = d[0].v
            y = d[1].v if len(d) > 1 else None
            if m == "saturating_sub" and y is not None:
                return Val("int", max(0, x - y), "dur")
            if m == "saturating_add" and y is not None:
                return Val("int", x + y, "dur")
            if m in ("checked_sub", "checked_add") and y is not None:
                r_ = x - y if m == "checked_sub" else x + y
                return some(Val("int", r_, "dur")) if 0 <= r_ < 2 ** 64 else NONE_V
            if m == "is_zero":
                return vbool(x == 0)
            if m == "as_secs":
                return vint(x)
            if m == "from_secs":
                return Val("int", x, "dur")
            if m == "new" and y == 0:
                return Val("int", x, "dur")
        if fn.startswith(("std::collections::hash::set::HashSet::", "alloc::collections::btree::set::BTreeSet::")) and d and d[0].k == "list":
            av = [x.deref() for x in d[0].v]
            comparable = lambda L: all(x.k in ("str", "int", "variant", "char") for x in L)
            if len(d) > 1 and d[1].k == "list" and comparable(av) and comparable([x.deref() for x in d[1].v]):
                bv = [x.deref() for x in d[1].v]
                inb = lambda x: any(y.k == x.k and y.v == x.v for y in bv)
                ina = lambda x: any(y.k == x.k and y.v == x.v for y in av)
                if m == "difference":
                    return Val("iter", [Val("ref", x) for x in av if not inb(x)])
                if m == "intersection":
                    return Val("iter", [Val("ref", x) for x in av if inb(x)])
                if m == "union":
                    return Val("iter", [Val("ref", x) for x in av] + [Val("ref", x) for x in bv if not ina(x)])
                if m == "symmetric_difference":
                    return Val("iter", [Val("ref", x) for x in av if not inb(x)] + [Val("ref", x) for x in bv if not ina(x)])
                if m == "is_subset":
                    return vbool(all(inb(x) for x in av))
                if m == "is_superset":
                    return vbool(all(ina(x) for x in bv))
                if m == "is_disjoint":
                    return vbool(not any(inb(x) for x in av))
            if m == "contains" and len(d) > 1 and comparable(av) and d[1].k in ("str", "int", "variant", "char"):
                return vbool(any(y.k == d[1].k and y.v == d[1].v for y in av))
            if m == "len":
                return vint(len(av))
            if m == "is_empty":
                return vbool(not av)
            if m == "iter":
                return Val("iter", [Val("ref", x) for x in d[0].v])
        if fn.startswith("core::cmp::PartialOrd::") and len(d) == 2 and d[0].k == "variant" and str(d[0].extra).startswith("log::Level"):
            return vbool(False)                             # `log_enabled` tests of the log macros: logging is off in an evaluation
        if fn.startswith(("core::cmp::PartialOrd::", "core::cmp::Ord::")) and len(d) == 2 and d[0].k == d[1].k and d[0].k in ("int", "str", "char"):
            x, y = d[0].v, d[1].v
            if m in ("lt", "le", "gt", "ge"):
                return vbool({"lt": x < y, "le": x <= y, "gt": x > y, "ge": x >= y}[m])
            if m in ("partial_cmp", "cmp"):
                o = Val("variant", "Less" if x < y else ("Greater" if x > y else "Equal"), "core::cmp::Ordering")
                return some(o) if m == "partial_cmp" else o
            if m in ("max", "min"):
                return d[0] if ((x >= y) == (m == "max")) else d[1]
        if fn == "core::cmp::Ordering::reverse" and d and d[0].k == "variant":
            return Val("variant", {"Less": "Greater", "Greater": "Less"}.get(d[0].v, d[0].v), d[0].extra)
        if fn in ("core::cmp::max", "core::cmp::min") and len(d) == 2 and d[0].k == d[1].k == "int":
            return vint(max(d[0].v, d[1].v) if fn.endswith("max") else min(d[0].v, d[1].v))
        if fn in ("alloc::boxed::box_assume_init_into_vec_unsafe", "alloc::slice::<impl [T]>::into_vec") and d and d[0].k == "list":
            return d[0]
        if fn == "core::intrinsics::discriminant_value" and d and (d[0].k == "variant" or (d[0].k == "adt" and d[0].extra)):
            adt_, nm_ = (d[0].extra, d[0].v) if d[0].k == "variant" else (d[0].extra[0], d[0].extra[1])
            try:
                vs_ = self.body.prog.adt_variants(adt_) if isinstance(adt_, str) and self.body.prog.adt(adt_) is not None else None
            except Exception:
                vs_ = None
            if vs_ and nm_ in vs_:
                return vint(vs_.index(nm_))               # fieldless / default-numbered enums: the derives compare these
            if adt_ == "core::option::Option":
                return vint(1 if nm_ == "Some" else 0)
            if adt_ == "core::result::Result":
                return vint(0 if nm_ == "Ok" else 1)
        if fn == "core::default::Default::default" and not args:
            nm_ = cs.name or ""
            if nm_.startswith(("<alloc::vec::Vec<", "<std::collections::hash::set::HashSet<", "<alloc::collections::btree::set::BTreeSet<")):
                return Val("list", [])
            if nm_.startswith(("<std::collections::hash::map::HashMap<", "<alloc::collections::btree::map::BTreeMap<")):
                return Val("list", [], "map")
            if nm_.startswith("<core::option::Option<"):
                return NONE_V
            if nm_.startswith("<alloc::string::String as"):
                return vstr("")
            if nm_.startswith("<bool as"):
                return vbool(False)
            if nm_.startswith(("<u8 as", "<u16 as", "<u32 as", "<u64 as", "<usize as", "<i32 as", "<i64 as", "<isize as")):
                return vint(0)
        if fn in ("alloc::string::String::new", "alloc::string::String::with_capacity"):
            return vstr("")
        if fn == "alloc::vec::Vec::with_capacity":
            return Val("list", [])
        if fn in ("core::iter::sources::repeat::repeat", "core::iter::sources::repeat_n::repeat_n") and d:
            if fn.endswith("repeat_n") and len(d) > 1 and d[1].k == "int":
                return Val("iter", [d[0]] * d[1].v)
            return Val("repeat", d[0])
        if fn == "core::iter::traits::iterator::Iterator::take" and len(d) > 1 and d[0].k == "repeat" and d[1].k == "int" and 0 <= d[1].v < 100000:
            return Val("iter", [d[0].v] * d[1].v)
        if fn in ("core::iter::traits::collect::IntoIterator::into_iter", "core::iter::traits::iterator::Iterator::rev", "core::iter::traits::iterator::Iterator::map", "core::iter::traits::iterator::Iterator::filter",
                  "core::iter::traits::iterator::Iterator::enumerate", "core::iter::traits::iterator::Iterator::collect", "core::iter::traits::iterator::Iterator::for_each",
                  "core::iter::traits::iterator::Iterator::any", "core::iter::traits::iterator::Iterator::all", "core::iter::traits::iterator::Iterator::find", "core::iter::traits::iterator::Iterator::zip",
                  "core::iter::traits::iterator::Iterator::sum", "core::iter::traits::iterator::Iterator::count", "core::iter::traits::iterator::Iterator::fold") \
                and d and d[0].k == "adt" and isinstance(d[0].extra, tuple) and str(d[0].extra[0]).startswith("core::ops::range::Range") and args[0].k != "ref":
            rn_ = str(d[0].extra[0])
            iv_ = [x.deref().v if x.deref().k == "int" else None for x in d[0].v]
            if len(iv_) == 2 and None not in iv_ and rn_ in ("core::ops::range::Range", "core::ops::range::RangeInclusive") and 0 <= iv_[1] - iv_[0] < 100000:
                as_iter = Val("iter", [vint(i_) for i_ in range(iv_[0], iv_[1] + (1 if rn_.endswith("Inclusive") else 0))])
                if fn.endswith("into_iter"):
                    return as_iter
                return self.builtin_models(cs, [as_iter] + list(args[1:]))
        if fn == "core::iter::sources::successors::successors" and len(args) == 2:
            items_, cur_ = [], d[0]
            for _ in range(2000):
                if cur_.k == "variant" and cur_.v == "None":
                    return Val("iter", items_)
                if not (cur_.k == "adt" and cur_.extra and cur_.extra[1] == "Some" and cur_.v):
                    return None
                items_.append(cur_.v[0])
                cur_ = self.call_closure(cs, args[1], [Val("ref", cur_.v[0])]).deref()
            return None
        if fn == "core::iter::sources::once::once" and args:
            return Val("iter", [args[0]])
        if fn == "core::iter::sources::empty::empty":
            return Val("iter", [])
        if fn == "core::iter::sources::from_fn::from_fn" and args:
            items_ = []
            for _ in range(200):
                nx_ = self.call_closure(cs, args[0], []).deref()
                if nx_.k == "variant" and nx_.v == "None":
                    return Val("iter", items_)
                if not (nx_.k == "adt" and nx_.extra and nx_.extra[1] == "Some" and nx_.v):
                    return None
                items_.append(nx_.v[0])
            return None
        if fn == "core::iter::traits::collect::IntoIterator::into_iter" and d and (cs.name or "").startswith(("<core::option::Option<", "<&'a core::option::Option<", "<&'a mut core::option::Option<")):
            # `opt.into_iter()`: zero or one item
            if d[0].k == "variant" and d[0].v == "None":
                return Val("iter", [])
            if d[0].k == "adt" and d[0].extra and d[0].extra[1] == "Some" and d[0].v:
                return Val("iter", [d[0].v[0] if args[0].k != "ref" else Val("ref", d[0].v[0])])
        if fn in ("std::collections::hash::map::HashMap::new", "std::collections::hash::map::HashMap::with_capacity", "alloc::collections::btree::map::BTreeMap::new"):
            return Val("list", [], "map")
        if fn.startswith(("std::collections::hash::map::HashMap::", "alloc::collections::btree::map::BTreeMap::")) and d and d[0].k == "list" and d[0].extra == "map":
            ents = [x.deref() for x in d[0].v]
            if all(e_.k == "tuple" and len(e_.v) == 2 for e_ in ents):
                if m == "is_empty":
                    return vbool(not ents)
                if m == "len":
                    return vint(len(ents))
                if m == "iter":
                    return Val("iter", [Val("tuple", [Val("ref", e_.v[0]), Val("ref", e_.v[1])]) for e_ in ents])
                if m == "keys":
                    return Val("iter", [Val("ref", e_.v[0]) for e_ in ents])
                if m == "values":
                    return Val("iter", [Val("ref", e_.v[1]) for e_ in ents])
                if m in ("get", "contains_key") and len(d) > 1 and d[1].k in ("str", "int", "variant") and all(e_.v[0].deref().k == d[1].k for e_ in ents):
                    hit = [e_ for e_ in ents if e_.v[0].deref().v == d[1].v]
                    if m == "contains_key":
                        return vbool(bool(hit))
                    return some(Val("ref", hit[0].v[1])) if hit else NONE_V
        if fn == "core::iter::traits::collect::IntoIterator::into_iter" and d and d[0].k == "list" and d[0].extra == "map" and all(x.deref().k == "tuple" for x in d[0].v):
            by_ref_ = args[0].k == "ref"
            return Val("iter", [Val("tuple", [Val("ref", e_.deref().v[0]), Val("ref", e_.deref().v[1])]) if by_ref_ else e_.deref() for e_ in d[0].v])
        if fn.startswith(("core::ops::bit::", "core::ops::arith::")) and len(d) == 2 and d[0].k == "int" and d[1].k == "int":
            x, y = d[0].v, d[1].v
            ops = {"bitand": lambda: x & y, "bitor": lambda: x | y, "bitxor": lambda: x ^ y, "shr": lambda: x >> y if 0 <= y < 128 and x >= 0 else None,
                   "add": lambda: x + y, "sub": lambda: x - y, "mul": lambda: x * y, "div": lambda: x // y if y > 0 and x >= 0 else None,
                   "rem": lambda: x % y if y > 0 and x >= 0 else None}
            if m in ops:
                r = ops[m]()
                return vint(r) if r is not None else None
        parse_ip_ = None
        if fn == "core::str::<impl str>::parse" and d and d[0].k == "str" and cs.gargs and cs.gargs[0] in ("core::net::ip_addr::IpAddr", "core::net::ip_addr::Ipv4Addr", "core::net::ip_addr::Ipv6Addr"):
            parse_ip_ = cs.gargs[0]
        if ("FromStr for core::net::ip_addr::Ip" in nm and m == "from_str" and d and d[0].k == "str") or parse_ip_:
            import ipaddress
            if parse_ip_:
                nm = "<impl core::str::traits::FromStr for %s>::from_str" % parse_ip_
            try:
                ip = ipaddress.ip_address(d[0].v)
            except ValueError:
                return Val("adt", [Val("unknown", "AddrParseError")], ("core::result::Result", "Err"))
            if (parse_ip_ or "").endswith(("Ipv4Addr", "Ipv6Addr")) and ip.version != (4 if parse_ip_.endswith("Ipv4Addr") else 6):
                return Val("adt", [Val("unknown", "AddrParseError")], ("core::result::Result", "Err"))
            inner = Val("ip", list(ip.packed), ip.version)
            if "IpAddr>" in nm or nm.endswith("IpAddr>::from_str") or "for core::net::ip_addr::IpAddr" in nm:
                inner = Val("adt", [inner], ("core::net::ip_addr::IpAddr", "V4" if ip.version == 4 else "V6"))
            return ok(inner)
        if fn in ("core::net::ip_addr::Ipv4Addr::octets", "core::net::ip_addr::Ipv6Addr::octets") and d and d[0].k == "ip":
            return Val("list", [vint(x) for x in d[0].v])
        if d and d[0].k == "ip" and (fn in ("core::net::ip_addr::Ipv4Addr::to_bits", "core::net::ip_addr::Ipv6Addr::to_bits")
                                     or (fn == "core::convert::From::from" and ("<impl core::convert::From<core::net::ip_addr::Ipv" in nm) and "for u" in nm)):
            return vint(int.from_bytes(bytes(d[0].v), "big"))
        if m == "to_canonical" and fn.startswith("core::net::ip_addr::") and d:
            x_ = d[0]
            wrapped = x_.k == "adt" and x_.extra and x_.extra[0].endswith("IpAddr") and x_.v and x_.v[0].deref().k == "ip"
            ipv = x_.v[0].deref() if wrapped else (x_ if x_.k == "ip" else None)
            if ipv is not None:
                b_ = list(ipv.v)
                if len(b_) == 16 and b_[:10] == [0] * 10 and b_[10:12] == [255, 255]:
                    ipv = Val("ip", b_[12:], 4)
                if wrapped or fn.endswith("IpAddr::to_canonical") or fn.endswith("Ipv6Addr::to_canonical"):
                    return Val("adt", [ipv], ("core::net::ip_addr::IpAddr", "V4" if len(ipv.v) == 4 else "V6"))
                return ipv
        if m in ("to_ipv4_mapped", "to_ipv4") and fn.startswith("core::net::ip_addr::Ipv6Addr::") and d and d[0].k == "ip" and len(d[0].v) == 16:
            b_ = list(d[0].v)
            if b_[:10] == [0] * 10 and b_[10:12] == [255, 255]:
                return some(Val("ip", b_[12:], 4))
            return NONE_V if m == "to_ipv4_mapped" or b_[:12] != [0] * 12 else some(Val("ip", b_[12:], 4))
        if fn == "core::net::ip_addr::Ipv6Addr::segments" and d and d[0].k == "ip" and len(d[0].v) == 16:
            return Val("list", [vint((d[0].v[2 * i] << 8) | d[0].v[2 * i + 1]) for i in range(8)])
        if fn in ("core::str::<impl str>::chars",) and d and d[0].k == "str":
            return Val("iter", [Val("char", ch) for ch in d[0].v])
        if fn in ("core::str::<impl str>::bytes",) and d and d[0].k == "str":
            return Val("iter", [vint(x) for x in d[0].v.encode("utf-8")])
        if fn.startswith("core::num::<impl u8>::is_ascii") and d and d[0].k == "int" and 0 <= d[0].v < 256:
            ch = chr(d[0].v)
            preds = {"is_ascii": d[0].v < 128, "is_ascii_alphanumeric": d[0].v < 128 and ch.isalnum(), "is_ascii_alphabetic": d[0].v < 128 and ch.isalpha(), "is_ascii_digit": ch in "0123456789",
                     "is_ascii_lowercase": "a" <= ch <= "z", "is_ascii_uppercase": "A" <= ch <= "Z", "is_ascii_hexdigit": ch in "0123456789abcdefABCDEF",
                     "is_ascii_punctuation": d[0].v < 128 and not ch.isalnum() and not ch.isspace() and ch.isprintable(), "is_ascii_whitespace": ch in " \t\n\x0c\r"}
            if m in preds:
                return vbool(bool(preds[m]))
        if fn == "core::convert::From::from" and d and d[0].k == "char" and "alloc::string::String" in nm:
            return vstr(d[0].v)
        if m in ("to_ne_bytes", "to_le_bytes", "to_be_bytes") and "<impl u8>" in fn and d and d[0].k == "int":
            return Val("list", [vint(d[0].v & 0xff)])
        if m == "join" and fn.startswith("alloc::slice::") and len(d) > 1 and d[0].k in ("list", "tuple") and d[1].k in ("str", "char"):
            parts = [x.deref() for x in d[0].v]
            if all(x.k in ("str", "char") for x in parts):
                return vstr(d[1].v.join(x.v for x in parts))
        return None

    def follow_call(self, cs, args):
        """interpret a workspace callee selected by self.follow (same call model, nested trace merged into this one)"""
        prog = getattr(self.body, "prog", None)
        if prog is None:
            return None
        if cs.fn == "core::future::future::Future::poll" and args:
            st = args[0].deref()
            if st.k == "adt" and isinstance(st.extra, tuple) and st.extra[0] == "coroutine" and st.extra[1] in prog.bodies and st.extra[1] != "state":
                ab = prog.async_body(st.extra[1])
                if ab is None:
                    return None
                sub = Interp(ab, self.call_model, self.max_steps)
                sub.depth = self.depth + 1
                sub.follow = self.follow
                r = sub.run({1: Val("adt", list(st.v), ("coroutine", "state"))})
                if self._res is not None:
                    self._res.calls.extend(r.calls)
                if r.kind == "diverge":
                    raise Diverged()
                if r.kind != "return" or r.ret is None:
                    return Val("unknown", "ret:%s(%s)" % (st.extra[1], r.kind))
                return Val("adt", [r.ret], ("core::task::poll::Poll", "Ready"))
            return None
        key = None
        if cs.fn == "core::convert::Into::into" and len(cs.gargs or []) == 2:
            # the blanket `impl<T, U: From<T>> Into<U> for T`: `x.into()` IS `U::from(x)` — followed when that impl is workspace code
            cand = "<%s as core::convert::From<%s>>::from" % (cs.gargs[1], cs.gargs[0])
            if cand in prog.bodies:
                class _Shim:
                    name = cand
                    fn = "core::convert::From::from"
                    res = cand
                if self.follow(_Shim):
                    key = cand
        if key is None and not self.follow(cs):
            return None
        for nm in ((cs.term.get("res"), cs.term.get("fn")) if key is None else ()):
            for cand in (nm, strip_generics(nm) if nm else None):
                if cand and cand in prog.bodies:
                    key = cand
                    break
            if key:
                break
        if key is None:
            return None
        cb = prog.body(key)
        if cb is None or cb.kind not in ("Fn", "AssocFn"):
            return None
        if cb.raw.get("is_async"):
            # an `async fn`: the call only builds the future (its captured parameters); the body runs when it is polled
            return Val("adt", list(args), ("coroutine", key))
        sub = Interp(cb, self.call_model, self.max_steps)
        sub.depth = self.depth + 1
        sub.follow = self.follow
        r = sub.run({1 + i: a for i, a in enumerate(args)})
        if self._res is not None:
            self._res.calls.extend(r.calls)
        if r.kind == "diverge":
            raise Diverged()
        if r.kind != "return" or r.ret is None:
            return Val("unknown", "ret:%s(%s)" % (key, r.kind))
        return r.ret

    # ---------------------------------------------------------------- concrete lists and iterator chains
    def stateful_call(self, env, cs, args):
        """models that update the value behind a `&mut` argument: Iterator::next on a concrete iterator, Vec::push/append"""
        if args and args[0].k == "entry" and (cs.fn or "").rsplit("::", 1)[-1] in ("or_insert", "or_insert_with", "or_default") and "Entry" in (cs.fn or ""):
            # `map.entry(k).or_insert(v)`: the value is stored only when the key is absent (the Entry value carries the map's place)
            mref_, key_ = args[0].v
            fr_, l_, path_ = _resolve_place(mref_.extra, env)
            slot_ = _Slot(fr_, l_, path_)
            cur_ = slot_.get("slot", UNKNOWN)
            k0 = key_.deref()
            if cur_.k != "list" or cur_.extra != "map" or k0.k not in ("str", "int", "variant") or (cs.fn or "").rsplit("::", 1)[-1] != "or_insert" or len(args) < 2:
                raise Diverged()
            hit_ = [x for x in cur_.v if x.deref().v[0].deref().k == k0.k and x.deref().v[0].deref().v == k0.v]
            if not hit_:
                slot_["slot"] = Val("list", list(cur_.v) + [Val("tuple", [key_, args[1]])], "map")
            return Val("unknown", "entry-value-ref")
        if not args or args[0].k != "ref" or not (isinstance(args[0].extra, tuple) and args[0].extra and args[0].extra[0] == "place"):
            return None
        fn = cs.fn or ""
        # the place may live in a caller's frame (a `&mut Vec` handed down through followed calls) and may be a field of a value
        # (`self.query_log.retain(..)`): resolved to (frame, local, field path)
        fr_, l_, path_ = _resolve_place(args[0].extra, env)
        env = _Slot(fr_, l_, path_)
        tgt = "slot"
        cur = env.get(tgt, UNKNOWN)
        if fn.startswith("core::option::Option::") and (cur.k == "adt" and cur.extra and cur.extra[0] == "core::option::Option" or (cur.k == "variant" and cur.v == "None")):
            m0 = fn.rsplit("::", 1)[-1]
            is_some = cur.k == "adt" and cur.extra[1] == "Some"
            fid_ = next((k_ for k_, v_ in _FRAMES.items() if v_ is fr_), None)

            def payload_ref():
                now = env.get(tgt, UNKNOWN)
                return Val("ref", now.v[0] if now.k == "adt" and now.v else UNKNOWN, ("place", l_, fid_, tuple(path_) + (0,)))
            if m0 in ("as_mut", "as_deref_mut") and fid_ is not None:
                return some(payload_ref()) if is_some else NONE_V
            if m0 == "take":
                env[tgt] = NONE_V
                return cur
            if m0 == "replace" and len(args) > 1:
                env[tgt] = some(args[1])
                return cur
            if m0 == "insert" and len(args) > 1 and fid_ is not None:
                env[tgt] = some(args[1])
                return payload_ref()
            if m0 in ("get_or_insert", "get_or_insert_with", "get_or_insert_default") and fid_ is not None:
                if not is_some:
                    if m0 == "get_or_insert" and len(args) > 1:
                        env[tgt] = some(args[1])
                    elif m0 == "get_or_insert_with" and len(args) > 1:
                        env[tgt] = some(self.call_closure(cs, args[1], []))
                    else:
                        return None
                return payload_ref()
        if fn == "core::iter::traits::iterator::Iterator::next" and cur.k == "iter":
            if cur.v:
                env[tgt] = Val("iter", list(cur.v[1:]))
                return some(cur.v[0])
            return NONE_V
        if fn == "alloc::vec::Vec::push" and cur.k == "list" and len(args) > 1:
            env[tgt] = Val("list", list(cur.v) + [args[1]])
            return UNIT
        if fn in ("core::iter::traits::collect::Extend::extend", "alloc::vec::Vec::extend_from_slice") and cur.k == "list" and cur.extra != "map" and len(args) > 1 and args[1].deref().k in ("iter", "list"):
            src = args[1].deref()
            items = [x.deref() if (fn.endswith("extend_from_slice")) else x for x in src.v]
            env[tgt] = Val("list", list(cur.v) + items)
            return UNIT
        if fn == "alloc::vec::Vec::append" and cur.k == "list" and len(args) > 1 and args[1].deref().k == "list":
            env[tgt] = Val("list", list(cur.v) + list(args[1].deref().v))
            return UNIT
        if fn == "core::ops::arith::AddAssign::add_assign" and cur.k == "str" and len(args) > 1 and args[1].deref().k == "str":
            env[tgt] = vstr(cur.v + args[1].deref().v)
            return UNIT
        if fn == "alloc::string::String::replace_range" and cur.k == "str" and len(args) > 2 and args[2].deref().k == "str" and all(ord(ch) < 128 for ch in cur.v):
            rg = args[1].deref()
            lo = hi = None
            if rg.k == "adt" and rg.extra:
                rn = str(rg.extra[0])
                iv = [x.deref().v if x.deref().k == "int" else None for x in rg.v]
                if rn.endswith("ops::range::RangeTo") and len(iv) == 1:
                    lo, hi = 0, iv[0]
                elif rn.endswith("ops::range::RangeFrom") and len(iv) == 1:
                    lo, hi = iv[0], len(cur.v)
                elif rn.endswith("ops::range::Range") and len(iv) == 2:
                    lo, hi = iv
                elif rn.endswith("ops::range::RangeFull"):
                    lo, hi = 0, len(cur.v)
            elif rg.k == "variant" and str(rg.extra).endswith("RangeFull"):
                lo, hi = 0, len(cur.v)
            if lo is None or hi is None or not (0 <= lo <= hi <= len(cur.v)):
                return None
            env[tgt] = vstr(cur.v[:lo] + args[2].deref().v + cur.v[hi:])
            return UNIT
        if fn == "alloc::string::String::insert_str" and cur.k == "str" and len(args) > 2 and args[1].deref().k == "int" and args[2].deref().k == "str" and all(ord(ch) < 128 for ch in cur.v):
            i_ = args[1].deref().v
            env[tgt] = vstr(cur.v[:i_] + args[2].deref().v + cur.v[i_:])
            return UNIT
        if fn == "alloc::string::String::truncate" and cur.k == "str" and len(args) > 1 and args[1].deref().k == "int" and all(ord(ch) < 128 for ch in cur.v):
            env[tgt] = vstr(cur.v[:args[1].deref().v])
            return UNIT
        if fn == "alloc::string::String::split_off" and cur.k == "str" and len(args) > 1 and args[1].deref().k == "int" and all(ord(ch) < 128 for ch in cur.v) and 0 <= args[1].deref().v <= len(cur.v):
            env[tgt] = vstr(cur.v[:args[1].deref().v])
            return vstr(cur.v[args[1].deref().v:])
        if fn == "alloc::vec::Vec::split_off" and cur.k == "list" and len(args) > 1 and args[1].deref().k == "int" and 0 <= args[1].deref().v <= len(cur.v):
            env[tgt] = Val("list", list(cur.v[:args[1].deref().v]), cur.extra)
            return Val("list", list(cur.v[args[1].deref().v:]), cur.extra)
        if fn == "alloc::string::String::clear" and cur.k == "str":
            env[tgt] = vstr("")
            return UNIT
        if fn in ("alloc::string::String::push", "alloc::string::String::push_str") and cur.k == "str" and len(args) > 1 and args[1].deref().k in ("str", "char"):
            env[tgt] = vstr(cur.v + args[1].deref().v)
            return UNIT
        if fn in ("std::collections::hash::map::HashMap::entry", "alloc::collections::btree::map::BTreeMap::entry") and cur.k == "list" and cur.extra == "map" and len(args) > 1:
            return Val("entry", [args[0], args[1]])
        if fn in ("std::collections::hash::map::HashMap::insert", "alloc::collections::btree::map::BTreeMap::insert") and cur.k == "list" and cur.extra == "map" and len(args) > 2:
            k0 = args[1].deref()
            old = [x for x in cur.v if x.v[0].deref().k == k0.k and x.v[0].deref().k in ("str", "variant", "int") and x.v[0].deref().v == k0.v]
            env[tgt] = Val("list", [x for x in cur.v if x not in old] + [Val("tuple", [args[1], args[2]])], "map")
            return some(old[0].v[1]) if old else NONE_V
        m_ = fn.rsplit("::", 1)[-1]
        if cur.k == "list" and fn.startswith(("std::collections::hash::set::HashSet::", "alloc::collections::btree::set::BTreeSet::")) and m_ in ("insert", "remove") and len(args) > 1:
            k0 = args[1].deref()
            if k0.k in ("str", "int", "variant", "char") and all(x.deref().k in ("str", "int", "variant", "char") for x in cur.v):
                same = [x for x in cur.v if x.deref().k == k0.k and x.deref().v == k0.v]
                if m_ == "insert":
                    if not same:
                        env[tgt] = Val("list", list(cur.v) + [args[1]], cur.extra)
                    return vbool(not same)
                env[tgt] = Val("list", [x for x in cur.v if x not in same], cur.extra)
                return vbool(bool(same))
        if fn == "core::iter::traits::collect::Extend::extend" and cur.k == "list" and cur.extra == "map" and len(args) > 1 and args[1].deref().k in ("iter", "list"):
            out_ = list(cur.v)
            for x in args[1].deref().v:
                xd = x.deref()
                if xd.k != "tuple" or len(xd.v) != 2 or xd.v[0].deref().k not in ("str", "int", "variant"):
                    return None
                out_ = [y for y in out_ if not (y.deref().v[0].deref().k == xd.v[0].deref().k and y.deref().v[0].deref().v == xd.v[0].deref().v)] + [xd]
            env[tgt] = Val("list", out_, "map")
            return UNIT
        if fn == "std::path::PathBuf::pop" and cur.k == "str":
            if "/" in cur.v.rstrip("/") and cur.v != "/":
                env[tgt] = vstr(cur.v.rstrip("/").rsplit("/", 1)[0] or "/")
                return vbool(True)
            return vbool(False)
        if cur.k == "list" and fn.startswith(("alloc::slice::<impl [T]>::", "core::slice::<impl [T]>::", "alloc::vec::Vec::")):
            if m_ == "reverse":
                env[tgt] = Val("list", list(cur.v)[::-1], cur.extra)
                return UNIT
            if m_ in ("dedup_by_key", "dedup_by", "dedup"):
                out_, keys_ = [], []
                for x in cur.v:
                    if m_ == "dedup":
                        kx = x.deref()
                    elif m_ == "dedup_by_key" and len(args) > 1:
                        kx = self.call_closure(cs, args[1], [Val("ref", x, None)]).deref()
                    elif m_ == "dedup_by" and len(args) > 1:
                        if out_:
                            same = self.call_closure(cs, args[1], [Val("ref", x, None), Val("ref", out_[-1], None)]).deref()
                            if same.k != "bool":
                                return None
                            if same.v:
                                continue
                        out_.append(x)
                        continue
                    else:
                        return None
                    if kx.k not in ("int", "str", "char", "variant", "bool"):
                        return None
                    if keys_ and keys_[-1].k == kx.k and keys_[-1].v == kx.v:
                        continue
                    out_.append(x)
                    keys_.append(kx)
                env[tgt] = Val("list", out_, cur.extra)
                return UNIT
            if m_ in ("clear",):
                env[tgt] = Val("list", [], cur.extra)
                return UNIT
            if m_ == "retain" and len(args) > 1:
                keep = []
                for x in cur.v:
                    r = self.call_closure(cs, args[1], [Val("ref", x)]).deref()
                    if r.k != "bool":
                        return None
                    if r.v:
                        keep.append(x)
                env[tgt] = Val("list", keep, cur.extra)
                return UNIT
            if m_ in ("sort_by_key", "sort_unstable_by_key", "sort_by_cached_key") and len(args) > 1:
                keys = [self.call_closure(cs, args[1], [Val("ref", x)]).deref() for x in cur.v]
                if all(k_.k == "int" for k_ in keys) or all(k_.k == "str" for k_ in keys):
                    order = sorted(range(len(keys)), key=lambda i_: keys[i_].v)
                    env[tgt] = Val("list", [cur.v[i_] for i_ in order], cur.extra)
                    return UNIT
                if all(k_.k == "adt" and k_.extra and k_.extra[0].endswith("cmp::Reverse") and k_.v and k_.v[0].deref().k == "int" for k_ in keys):
                    order = sorted(range(len(keys)), key=lambda i_: -keys[i_].v[0].deref().v)
                    env[tgt] = Val("list", [cur.v[i_] for i_ in order], cur.extra)
                    return UNIT
                return None
            if m_ in ("sort_by", "sort_unstable_by") and len(args) > 1:
                import functools
                bad = []

                def cmp_(x, y):
                    r = self.call_closure(cs, args[1], [Val("ref", x), Val("ref", y)]).deref()
                    nm = r.v if r.k == "variant" else None
                    if nm not in ("Less", "Equal", "Greater"):
                        bad.append(r)
                        return 0
                    return {"Less": -1, "Equal": 0, "Greater": 1}[nm]
                out_ = sorted(list(cur.v), key=functools.cmp_to_key(cmp_))
                if bad:
                    return None
                env[tgt] = Val("list", out_, cur.extra)
                return UNIT
            if m_ in ("sort", "sort_unstable") and all(x.deref().k == "int" for x in cur.v):
                env[tgt] = Val("list", sorted(cur.v, key=lambda x: x.deref().v), cur.extra)
                return UNIT
        if cur.k == "list" and fn in ("alloc::vec::Vec::resize", "alloc::vec::Vec::resize_with") and len(args) > 2 and args[1].deref().k == "int":
            n_ = args[1].deref().v
            if n_ <= len(cur.v):
                env[tgt] = Val("list", list(cur.v[:n_]), cur.extra)
                return UNIT
            fill = args[2] if fn.endswith("resize") else self.call_closure(cs, args[2], [])
            env[tgt] = Val("list", list(cur.v) + [fill] * (n_ - len(cur.v)), cur.extra)
            return UNIT
        if cur.k == "list" and fn == "alloc::vec::Vec::insert" and len(args) > 2 and args[1].deref().k == "int" and 0 <= args[1].deref().v <= len(cur.v):
            i_ = args[1].deref().v
            env[tgt] = Val("list", list(cur.v[:i_]) + [args[2]] + list(cur.v[i_:]), cur.extra)
            return UNIT
        if cur.k == "list" and fn == "alloc::vec::Vec::truncate" and len(args) > 1 and args[1].deref().k == "int":
            env[tgt] = Val("list", list(cur.v[:args[1].deref().v]), cur.extra)
            return UNIT
        if fn == "std::path::PathBuf::push" and len(args) > 1 and cur.k in ("str", "unknown"):
            a1 = args[1].deref()
            part = a1.v if a1.k == "str" else repr(a1)
            env[tgt] = (vstr(part) if part.startswith("/") else vstr("%s/%s" % (cur.v.rstrip("/"), part))) if (cur.k == "str" and a1.k == "str") else Val("unknown", "%s/%s" % (cur.v if cur.k == "str" else (cur.v or ""), part))
            return UNIT
        if fn == "alloc::vec::Vec::pop" and cur.k == "list":
            if cur.v:
                env[tgt] = Val("list", list(cur.v[:-1]))
                return some(cur.v[-1])
            return NONE_V
        return None

    def list_models(self, cs, args, d):
        fn = cs.fn or ""
        m = fn.rsplit("::", 1)[-1]
        if m == "concat" and fn.startswith("alloc::slice::") and d and d[0].k in ("tuple", "list"):
            parts = [x.deref() for x in d[0].v]
            if all(x.k == "list" for x in parts):
                return Val("list", [y for x in parts for y in x.v])
            return None
        if not d:
            if fn in ("alloc::vec::Vec::new", "alloc::vec::Vec::with_capacity"):
                return Val("list", [])
            return None
        a = d[0]
        if a.k == "list":
            by_ref = args[0].k == "ref"
            # `iter_mut()` / `for x in &mut v`: the element references designate the elements' storage (writes through them persist)
            pl_ = args[0].extra if (args[0].k == "ref" and _is_place(args[0].extra)) else None
            mut_elems = None
            if pl_ is not None:
                try:
                    fr_, l_, path_ = _resolve_place(pl_, getattr(self, "_env", {}))
                    fid_ = next((k_ for k_, v_ in _FRAMES.items() if v_ is fr_), None)
                    if fid_ is not None:
                        mut_elems = [Val("ref", x, ("place", l_, fid_, tuple(path_) + (i_,))) for i_, x in enumerate(a.v)]
                except Exception:
                    mut_elems = None
            if fn == "core::slice::<impl [T]>::iter_mut" and mut_elems is not None:
                return Val("iter", mut_elems)
            if fn == "core::iter::traits::collect::IntoIterator::into_iter" and by_ref and mut_elems is not None and (cs.name or "").startswith("<&'a mut "):
                return Val("iter", mut_elems)
            if fn in ("core::slice::<impl [T]>::iter", "core::slice::<impl [T]>::iter_mut"):
                return Val("iter", [Val("ref", x) for x in a.v])
            if fn == "core::iter::traits::collect::IntoIterator::into_iter":
                return Val("iter", [Val("ref", x) for x in a.v] if by_ref else list(a.v))
            if fn == "core::ops::index::Index::index" and len(d) > 1:
                ix = d[1]
                if ix.k == "int" and 0 <= ix.v < len(a.v):
                    return Val("ref", a.v[ix.v])
                if ix.k == "adt" and isinstance(ix.extra, tuple) and str(ix.extra[0]).startswith("core::ops::range::Range"):
                    iv_ = [x.deref().v if x.deref().k == "int" else None for x in ix.v]
                    rn_ = str(ix.extra[0]).rsplit("::", 1)[-1]
                    lo_, hi_ = {"Range": (iv_ + [None, None])[:2], "RangeTo": [0] + iv_[:1], "RangeFrom": iv_[:1] + [len(a.v)], "RangeFull": [0, len(a.v)]}.get(rn_, [None, None])
                    if lo_ is not None and hi_ is not None and 0 <= lo_ <= hi_ <= len(a.v):
                        return Val("ref", Val("list", list(a.v[lo_:hi_]), a.extra))
            if fn == "core::slice::<impl [T]>::first":
                return some(Val("ref", a.v[0])) if a.v else NONE_V
            if fn == "core::slice::<impl [T]>::last":
                return some(Val("ref", a.v[-1])) if a.v else NONE_V
            if m == "len" and fn.startswith(("core::slice::", "alloc::vec::Vec::")):
                return vint(len(a.v))
            if m == "is_empty" and fn.startswith(("core::slice::", "alloc::vec::Vec::")):
                return vbool(not a.v)
            if fn in ("alloc::vec::Vec::as_slice", "alloc::slice::<impl [T]>::to_vec"):
                return a
            if fn == "core::slice::<impl [T]>::contains" and len(d) > 1 and d[1].k in ("str", "int", "variant", "bool", "char"):
                known = [x.deref() for x in a.v]
                if all(x.k == d[1].k for x in known):
                    return vbool(any(x.v == d[1].v for x in known))
            return None
        if a.k == "iter" and fn in ("core::iter::adapters::peekable::Peekable::peek", "core::iter::adapters::peekable::Peekable::peek_mut"):
            return some(Val("ref", a.v[0])) if a.v else NONE_V
        if a.k != "iter" or not fn.startswith("core::iter::traits::"):
            return None
        items = list(a.v)
        f = args[1] if len(args) > 1 else None
        if fn == "core::iter::traits::collect::IntoIterator::into_iter":
            return a
        if m == "map":
            return Val("iter", [self.call_closure(cs, f, [x]) for x in items])
        if m in ("filter", "find", "position", "any", "all", "take_while", "skip_while"):
            flags = []
            for x in items:
                r = self.call_closure(cs, f, [Val("ref", x) if m in ("filter", "find", "take_while", "skip_while") else x]).deref()
                if r.k != "bool":
                    return UNKNOWN
                flags.append(r.v)
            if m == "filter":
                return Val("iter", [x for x, k in zip(items, flags) if k])
            if m == "find":
                hit = [x for x, k in zip(items, flags) if k]
                return some(hit[0]) if hit else NONE_V
            if m == "position":
                hit = [i for i, k in enumerate(flags) if k]
                return some(vint(hit[0])) if hit else NONE_V
            if m == "any":
                return vbool(any(flags))
            if m == "all":
                return vbool(all(flags))
            return None
        if m in ("filter_map", "find_map"):
            out = []
            for x in items:
                r = self.call_closure(cs, f, [x]).deref()
                nm = r.v if r.k == "variant" else (r.extra[1] if r.k == "adt" and r.extra else None)
                if nm == "Some":
                    if m == "find_map":
                        return r
                    out.append(r.v[0])
                elif nm != "None":
                    return UNKNOWN
            return NONE_V if m == "find_map" else Val("iter", out)
        if m in ("cloned", "copied"):
            return Val("iter", [x.deref() for x in items])
        if m in ("for_each", "try_for_each") and f is not None:
            last = None
            for x in items:
                r_ = self.call_closure(cs, f, [x])
                rd_ = r_.deref() if r_ is not None else UNKNOWN
                if m == "try_for_each":
                    nm_ = rd_.v if rd_.k == "variant" else (rd_.extra[1] if rd_.k == "adt" and rd_.extra else None)
                    if nm_ in ("Err", "None", "Break"):
                        return rd_
                    if nm_ not in ("Ok", "Some", "Continue"):
                        return UNKNOWN
                    last = rd_
            if m == "for_each":
                return UNIT
            if last is not None:
                return last
            dty_ = self.body.local_ty(cs.dest["l"]) if cs.dest is not None else ""
            if dty_.startswith("core::result::Result<"):
                return ok(UNIT)
            if dty_.startswith("core::option::Option<"):
                return some(UNIT)
            return UNKNOWN
        if m in ("flatten", "flat_map"):
            out = []
            for x in items:
                y = (self.call_closure(cs, f, [x]) if m == "flat_map" else x)
                yd = y.deref()
                nm = yd.v if yd.k == "variant" else (yd.extra[1] if yd.k == "adt" and yd.extra else None)
                if yd.k in ("iter", "list"):
                    out += [Val("ref", z) if (yd.k == "list" and y.k == "ref") else z for z in yd.v]
                elif nm in ("Some", "Ok"):
                    out.append(yd.v[0])
                elif nm in ("None", "Err"):
                    pass
                else:
                    return UNKNOWN
            return Val("iter", out)
        if m in ("peekable", "fuse", "by_ref", "into_iter"):
            return a if args[0].k != "ref" or m == "by_ref" else Val("iter", items)
        if m == "rev":
            return Val("iter", items[::-1])
        if m == "chain" and len(d) > 1 and d[1].k in ("iter", "list"):
            return Val("iter", items + list(d[1].v))
        if m == "count":
            return vint(len(items))
        if m == "last":
            return some(items[-1]) if items else NONE_V
        if m == "collect":
            dty = self.body.local_ty(cs.dest["l"]) if cs.dest is not None else ""
            if dty.startswith("core::result::Result<"):
                vals = []
                for x in items:
                    y = x.deref()
                    nm = y.extra[1] if y.k == "adt" and y.extra else None
                    if nm == "Ok":
                        vals.append(y.v[0])
                    elif nm == "Err":
                        return y
                    else:
                        return UNKNOWN
                return Val("adt", [Val("list", vals)], ("core::result::Result", "Ok"))
            if dty.startswith(("std::collections::hash::map::HashMap<", "alloc::collections::btree::map::BTreeMap<")) and all(x.deref().k == "tuple" and len(x.deref().v) == 2 for x in items):
                return Val("list", [x.deref() for x in items], "map")
            if dty.startswith(("std::collections::hash::set::HashSet<", "alloc::collections::btree::set::BTreeSet<")):
                uniq = []
                for x in items:
                    xd = x.deref()
                    if xd.k in ("str", "int", "char", "variant", "bool") and any(y.deref().k == xd.k and y.deref().v == xd.v for y in uniq):
                        continue
                    uniq.append(x)
                return Val("list", uniq, "set")
            if "Vec<" in dty or "HashSet<" in dty or "BTreeSet<" in dty:
                return Val("list", items)
            if dty == "alloc::string::String" and all(x.deref().k in ("str", "char") for x in items):
                return vstr("".join(x.deref().v for x in items))
            return None
        if m == "enumerate":
            return Val("iter", [Val("tuple", [vint(i), x]) for i, x in enumerate(items)])
        if m == "zip" and len(d) > 1 and d[1].k in ("iter", "list"):
            return Val("iter", [Val("tuple", [x, y]) for x, y in zip(items, d[1].v)])
        if m in ("skip", "take", "step_by") and len(d) > 1 and d[1].k == "int":
            n = d[1].v
            return Val("iter", items[n:] if m == "skip" else (items[:n] if m == "take" else (items[::n] if n > 0 else items)))
        return None

    def str_models(self, cs, args, d):
        fn = cs.fn or ""
        if not fn.startswith(("core::str::<impl str>::", "alloc::str::<impl str>::", "alloc::string::String::")) or not d or d[0].k != "str":
            return None
        m = fn.rsplit("::", 1)[-1]
        s0 = d[0].v
        p = d[1] if len(d) > 1 else None
        pv = p.v if p is not None and p.k in ("str", "char") else None
        if m == "starts_with" and pv is not None:
            return vbool(s0.startswith(pv))
        if m == "ends_with" and pv is not None:
            return vbool(s0.endswith(pv))
        if m == "trim_start_matches" and pv:
            while s0.startswith(pv):
                s0 = s0[len(pv):]
            return vstr(s0)
        if m == "strip_prefix" and pv is not None:
            return some(vstr(s0[len(pv):])) if s0.startswith(pv) else NONE_V
        if m == "replace" and len(d) > 2 and d[2].k in ("str", "char"):
            pats = None
            if p.k in ("str", "char"):
                pats = [p.v]
            elif p.k in ("tuple", "list") and all(x.deref().k == "char" for x in p.v):
                pats = [x.deref().v for x in p.v]
            if pats:
                out = s0
                for q in pats:
                    out = out.replace(q, d[2].v)
                return vstr(out)
            return None
        if m == "is_empty":
            return vbool(s0 == "")
        if m == "is_ascii":
            return vbool(all(ord(ch) < 128 for ch in s0))
        if m in ("split", "rsplit") and pv is not None and pv != "":
            parts = s0.split(pv)
            return Val("iter", [vstr(x) for x in (parts if m == "split" else parts[::-1])])
        if m == "len":
            return vint(len(s0.encode("utf-8")))
        if m == "to_ascii_lowercase":
            return vstr("".join(ch.lower() if ord(ch) < 128 else ch for ch in s0))
        if m == "eq_ignore_ascii_case" and p is not None and p.k == "str":
            return vbool(s0.lower() == p.v.lower())
        if m in ("as_str", "trim") :
            return vstr(s0.strip() if m == "trim" else s0)
        if m == "contains" and pv is not None:
            return vbool(pv in s0)
        if m in ("split_once", "rsplit_once") and pv:
            i_ = s0.find(pv) if m == "split_once" else s0.rfind(pv)
            return some(Val("tuple", [vstr(s0[:i_]), vstr(s0[i_ + len(pv):])])) if i_ >= 0 else NONE_V
        if m in ("splitn", "rsplitn") and len(d) > 2 and d[1].k == "int" and d[2].k in ("str", "char") and d[2].v and d[1].v >= 1:
            parts = s0.split(d[2].v, d[1].v - 1) if m == "splitn" else s0.rsplit(d[2].v, d[1].v - 1)[::-1]
            return Val("iter", [vstr(x) for x in parts])
        if m in ("find", "rfind") and pv:
            i_ = s0.find(pv) if m == "find" else s0.rfind(pv)
            return some(vint(len(s0[:i_].encode("utf-8")))) if i_ >= 0 else NONE_V
        if m == "matches" and pv:
            return Val("iter", [vstr(pv)] * s0.count(pv))
        if m == "lines":
            ls = s0.split("\n")
            if ls and ls[-1] == "":
                ls = ls[:-1]
            return Val("iter", [vstr(x[:-1] if x.endswith("\r") else x) for x in ls])
        if m in ("trim_end_matches", "trim_matches") and pv:
            while s0.endswith(pv):
                s0 = s0[:-len(pv)]
            while m == "trim_matches" and s0.startswith(pv):
                s0 = s0[len(pv):]
            return vstr(s0)
        if m in ("trim_end", "trim_start"):
            return vstr(s0.rstrip() if m == "trim_end" else s0.lstrip())
        if m == "strip_suffix" and pv is not None:
            return some(vstr(s0[:-len(pv)] if pv else s0)) if s0.endswith(pv) else NONE_V
        if m in ("to_string", "to_owned", "into_string", "as_mut_str"):
            return vstr(s0)
        if m == "split_whitespace":
            return Val("iter", [vstr(x) for x in s0.split()])
        if m == "split_at" and p is not None and p.k == "int" and 0 <= p.v <= len(s0) and all(ord(ch) < 128 for ch in s0):
            return Val("tuple", [vstr(s0[:p.v]), vstr(s0[p.v:])])
        return None

    # ---------------------------------------------------------------- Option/Result combinators and closures
    def call_closure(self, cs, fval, cargs):
        """evaluate a closure (or fn item) value on abstract arguments with this interpreter's call model"""
        f = fval.deref() if fval is not None else None
        key = None
        if f is not None and f.k == "adt" and f.extra and f.extra[0] == "closure":
            key = f.extra[1]
        elif f is not None and f.k == "fn":
            key = f.v
        elif len(cs.gbodies) == 1:
            key = cs.gbodies[0]
        prog = getattr(self.body, "prog", None)
        cb = prog.body(key) if (prog is not None and key) else None
        if cb is not None and key and f is not None and f.k == "fn" and self.call_model is not None:
            fake = _FnValueCall(cs, key)
            r = self.call_model(fake, list(cargs))
            if r is not None and not isinstance(r, Fallback):
                if self._res is not None:
                    self._res.calls.append((fake, list(cargs), r))
                return r
        if cb is None and key and f is not None and f.k == "fn" and prog is not None and "::" in key:
            # a tuple-variant / tuple-struct CONSTRUCTOR passed as a value (`.map(CertificateKey::Generated)`, `.map(Some)`)
            adt_, var_ = key.rsplit("::", 1)
            try:
                if adt_ in prog.adts and var_ in prog.adt_variants(adt_):
                    return Val("adt", list(cargs), (adt_, var_))
                if key in prog.adts and len(prog.adt(key)["variants"]) == 1:
                    return Val("adt", list(cargs), (key, prog.adt(key)["variants"][0]["name"]))
            except Exception:
                pass
            if key in ("core::option::Option::Some", "core::result::Result::Ok", "core::result::Result::Err"):
                return Val("adt", list(cargs), (adt_, var_))
        if cb is None and key and f is not None and f.k == "fn":
            # a function item of another crate passed as a value (`map(Uid::from_raw)`): ask the rule's call model as if it were
            # called directly
            fake = _FnValueCall(cs, key)
            r = self.model_call(fake, list(cargs))
            if r is not None:
                if self._res is not None:
                    self._res.calls.append((fake, list(cargs), r))
                return r
            return Val("unknown", "ret:%s" % key)
        if cb is None or self.depth > MAX_DEPTH:
            return UNKNOWN
        sub = Interp(cb, self.call_model, self.max_steps)
        sub.depth = self.depth + 1
        sub.follow = self.follow
        if cb.kind == "Closure":
            init = {1: f if f is not None else UNKNOWN}
            for i, a in enumerate(cargs):
                init[2 + i] = a
        else:
            init = {1 + i: a for i, a in enumerate(cargs)}
        r = sub.run(init)
        if self._res is not None:
            self._res.calls.extend(r.calls)
        if r.kind == "diverge":
            raise Diverged()
        if r.kind != "return" or r.ret is None:
            return UNKNOWN
        return r.ret

    def option_combinators(self, cs, args, d):
        fn = cs.fn or ""
        if not (fn.startswith("core::option::Option::") or fn.startswith("core::result::Result::")) or not d:
            return None
        m = fn.rsplit("::", 1)[1]
        a = d[0]
        if a.k not in ("variant", "adt"):
            return None
        nm = a.v if a.k == "variant" else (a.extra[1] if a.extra else None)
        payload = (a.v[0] if a.k == "adt" and a.v else UNIT)
        is_opt = fn.startswith("core::option::Option::")
        pos = nm in ("Some", "Ok")
        neg = nm in ("None", "Err")
        if not (pos or neg):
            return None
        if m in ("iter", "into_iter", "iter_mut") and is_opt:
            return Val("iter", [Val("ref", payload) if (m != "into_iter" or args[0].k == "ref") else payload] if pos else [])
        if m in ("as_ref", "as_mut", "as_deref", "as_deref_mut", "cloned", "copied", "take"):
            return a if neg else Val("adt", [payload.deref() if m in ("cloned", "copied", "as_deref") else payload], a.extra)
        if m == "or" and is_opt:
            return a if pos else args[1]
        if m == "and" and is_opt:
            return args[1] if pos else a
        if m in ("unwrap", "expect", "unwrap_unchecked") and pos:
            return payload
        if m == "unwrap_or":
            return payload if pos else args[1]
        if m == "unwrap_or_default":
            if pos:
                return payload
            dty = self.body.local_ty(cs.dest["l"]) if cs.dest is not None else ""
            if dty.startswith("&[") or dty.startswith("alloc::vec::Vec<") or dty.startswith("["):
                return Val("list", [])
            if dty in ("alloc::string::String", "&str"):
                return vstr("")
            if dty == "bool":
                return vbool(False)
            if dty in ("u8", "u16", "u32", "u64", "usize", "i8", "i16", "i32", "i64", "isize"):
                return vint(0)
            return None
        if m == "unwrap_or_else":
            return payload if pos else self.call_closure(cs, args[1], [] if is_opt else [payload])
        if m == "or_else" and is_opt:
            return a if pos else self.call_closure(cs, args[1], [])
        if m == "and_then":
            return self.call_closure(cs, args[1], [payload]) if pos else a
        if m == "map":
            return Val("adt", [self.call_closure(cs, args[1], [payload])], a.extra) if pos else a
        if m == "map_err" and not is_opt:
            return a if pos else Val("adt", [self.call_closure(cs, args[1], [payload])], a.extra)
        if m == "map_or":
            return self.call_closure(cs, args[2], [payload]) if pos else args[1]
        if m == "map_or_else":
            return self.call_closure(cs, args[2], [payload]) if pos else self.call_closure(cs, args[1], [] if is_opt else [payload])
        if m == "ok_or" and is_opt:
            return Val("adt", [payload], ("core::result::Result", "Ok")) if pos else Val("adt", [args[1]], ("core::result::Result", "Err"))
        if m == "ok_or_else" and is_opt:
            return Val("adt", [payload], ("core::result::Result", "Ok")) if pos else Val("adt", [self.call_closure(cs, args[1], [])], ("core::result::Result", "Err"))
        if m == "err" and not is_opt:
            return Val("adt", [payload], ("core::option::Option", "Some")) if neg else NONE_V
        if m == "ok" and not is_opt:
            return Val("adt", [payload], ("core::option::Option", "Some")) if pos else NONE_V
        if m in ("is_some", "is_ok"):
            return vbool(pos)
        if m in ("is_none", "is_err"):
            return vbool(neg)
        if m == "filter" and is_opt and pos:
            r = self.call_closure(cs, args[1], [Val("ref", payload)])
            r = r.deref()
            if r.k == "bool":
                return a if r.v else NONE_V
            return UNKNOWN
        return None

    # ---------------------------------------------------------------- run
    def run(self, init, start_bb=0):
        body = self.body
        env = dict(init)
        _FRAME_SEQ[0] += 1
        self.fid = _FRAME_SEQ[0]
        _FRAMES[self.fid] = env
        self._env = env
        if len(_FRAMES) > 4000:
            for k_ in sorted(_FRAMES)[:2000]:
                _FRAMES.pop(k_, None)
        res = Result()
        self._res = res
        bb = start_bb
        steps = 0
        while True:
            steps += 1
            if steps > self.max_steps:
                res.kind = "limit"
                break
            res.path.append(bb)
            blk = body.blocks[bb]
            for st in blk["stmts"]:
                if st["s"] == "assign":
                    self.write_place(env, st["lhs"], self.rvalue(env, st["rv"]))
                elif st["s"] == "setdiscr":
                    pass
            t = blk["term"]
            k = t["t"]
            if k == "goto":
                bb = t["target"]
            elif k == "return":
                res.kind = "return"
                res.ret = env.get(0, UNKNOWN)
                break
            elif k == "switch":
                cs_t = body.const_switch_target(bb)
                if cs_t is not None:
                    bb = cs_t
                    continue
                v = self.operand(env, t["discr"]).deref()
                if v.k == "bool":
                    n = 1 if v.v else 0
                elif v.k in ("int", "char"):
                    n = v.v if v.k == "int" else ord(v.v)
                else:
                    res.kind = "stuck"
                    res.stuck_at = bb
                    break
                nxt = t["otherwise"]
                for val, tgt in t["arms"]:
                    if val == n:
                        nxt = tgt
                bb = nxt
            elif k == "call":
                cs = CallSite(body, bb, t)
                args = [self.operand(env, a) for a in cs.args]
                try:
                    r = self.stateful_call(env, cs, args)
                    if r is None and self.follow is not None and self.depth < MAX_DEPTH:
                        r = self.follow_call(cs, args)
                    if r is None:
                        r = self.model_call(cs, args)
                except Diverged:
                    res.calls.append((cs, args, Val("unknown", "diverged")))
                    res.kind = "diverge"
                    break
                if r is None:
                    r = Val("unknown", "ret:%s" % cs.name)
                res.calls.append((cs, args, r))
                if cs.fn == "core::iter::traits::iterator::Iterator::next" and r is NONE_V and args and args[0].deref().k != "iter":
                    self.havoc_loop(env, bb)
                if cs.dest is not None:
                    self.write_place(env, cs.dest, r)
                if cs.target is None:
                    res.kind = "diverge"
                    break
                bb = cs.target
            elif k in ("drop", "assert"):
                bb = t["target"]
            elif k == "unreachable":
                res.kind = "diverge"
                break
            else:
                res.kind = "stuck"
                res.stuck_at = bb
                break
        res.env = env
        return res

    def havoc_loop(self, env, bb):
        """a loop over a collection that is not modelled was stepped over (the call model answered `None` to its `next`): whatever
        the loop body writes — directly, as a call's destination, or through a `&mut` it takes — is unknown afterwards"""
        scc = self.body.scc_of(bb)
        if not scc:
            return
        hit = set()
        for i in scc:
            blk = self.body.blocks[i]
            for st in blk["stmts"]:
                if st["s"] != "assign":
                    continue
                if "*" not in st["lhs"]["p"]:
                    hit.add(st["lhs"]["l"])
                rv = st["rv"]
                if rv["k"] == "ref" and rv.get("bk") == "mut" and "*" not in rv["place"]["p"]:
                    hit.add(rv["place"]["l"])
            t = blk["term"]
            if t["t"] == "call" and t.get("dest") is not None and "*" not in t["dest"]["p"]:
                hit.add(t["dest"]["l"])
        for l in hit:
            cur = env.get(l)
            if cur is not None and cur.k in ("str", "list", "int", "bool", "iter") :
                env[l] = UNKNOWN

    def rvalue(self, env, rv):
        k = rv["k"]
        if k == "use":
            return self.operand(env, rv["op"])
        if k == "ref":
            pp = rv["place"]["p"]
            if rv.get("bk") == "mut" and all(e == "*" or (isinstance(e, dict) and ("f" in e or "downcast" in e)) for e in pp):
                fields = tuple(e["f"] for e in pp if isinstance(e, dict) and "f" in e)        # `(x as Some).0`: the downcast selects no storage
                base = env.get(rv["place"]["l"], UNKNOWN)
                if pp and pp[0] == "*" and base.k == "ref":
                    # a reborrow `&mut *p` / `&mut (*p).f`: the new reference designates p's REFERENT (not the local p)
                    if _is_place(base.extra):
                        x = base.extra
                        return Val("ref", self.read_place(env, rv["place"]), ("place", x[1], x[2] if len(x) > 2 else getattr(self, "fid", 0), tuple(x[3] if len(x) > 3 else ()) + fields))
                    return Val("ref", self.read_place(env, rv["place"]))
                return Val("ref", self.read_place(env, rv["place"]), ("place", rv["place"]["l"], getattr(self, "fid", 0), fields))
            if rv.get("bk") == "mut":
                # a mutable borrow of storage this interpreter cannot designate (`&mut v[i]`): a later write through it makes the
                # owner's value unknown instead of being dropped silently
                return Val("ref", self.read_place(env, rv["place"]), ("lostplace", rv["place"]["l"], getattr(self, "fid", 0)))
            return Val("ref", self.read_place(env, rv["place"]))
        if k == "discr":
            v = self.read_place(env, rv["place"]).deref()
            name = None
            if v.k == "variant":
                name = v.v
            elif v.k == "adt" and v.extra:
                name = v.extra[1]
            if name is not None:
                for val, nm in rv.get("variants", []):
                    if nm == name:
                        return vint(int(val))
            return UNKNOWN
        if k == "agg":
            ops = [self.operand(env, o) for o in rv["ops"]]
            if rv.get("agg") == "array":
                return Val("list", ops)
            if rv.get("agg") == "tuple":
                return Val("tuple", ops)
            if rv.get("agg") == "adt":
                if not ops:
                    return variant(strip_generics(rv["adt"]), rv["variant"])
                return Val("adt", ops, (strip_generics(rv["adt"]), rv["variant"]))
            if rv.get("agg") == "closure":
                return Val("adt", ops, ("closure", rv.get("def")))
            return UNKNOWN
        if k == "cast":
            return self.operand(env, rv["op"])
        if k == "binop":
            a = self.operand(env, rv["a"]).deref()
            b = self.operand(env, rv["b"]).deref()
            op = rv["op"]
            if a.k == b.k and a.k in ("int", "bool", "char"):
                x, y = a.v, b.v
                table = {"Eq": x == y, "Ne": x != y, "Lt": x < y, "Le": x <= y, "Gt": x > y, "Ge": x >= y}
                if op in table:
                    return vbool(table[op])
                if a.k == "int":
                    ar = {"Add": x + y, "Sub": x - y, "Mul": x * y, "BitAnd": x & y, "BitOr": x | y, "BitXor": x ^ y}
                    if op in ar:
                        return vint(ar[op])
                    if op in ("Shr", "ShrUnchecked") and 0 <= y < 128 and x >= 0:
                        return vint(x >> y)
                    if op in ("Div", "Rem") and y > 0 and x >= 0:
                        return vint(x // y if op == "Div" else x % y)
                    if op in ("AddWithOverflow", "SubWithOverflow", "MulWithOverflow"):
                        r = {"AddWithOverflow": x + y, "SubWithOverflow": x - y, "MulWithOverflow": x * y}[op]
                        return Val("tuple", [vint(r), vbool(False)])
            return UNKNOWN
        if k == "unop":
            a = self.operand(env, rv["a"]).deref()
            if rv["op"] == "Not" and a.k == "bool":
                return vbool(not a.v)
            return UNKNOWN
        return UNKNOWN


def run(body, init, call_model=None, max_steps=4000, follow=None):
    it = Interp(body, call_model, max_steps)
    it.follow = follow
    return it.run(init)


def some(v):
    return Val("adt", [v], ("core::option::Option", "Some"))


NONE = Val("variant", "None", "core::option::Option")


def ok(v):
    return Val("adt", [v], ("core::result::Result", "Ok"))


def marker(name):
    return Val("unknown", name)


def struct_val(prog, adt_key, fields=None, default=None):
    """a struct value whose named fields are given (others Unknown tagged with their name)"""
    names = prog.adt_fields(adt_key)
    vals = []
    for n in names:
        if fields and n in fields:
            vals.append(fields[n])
        else:
            vals.append(default if default is not None else Val("unknown", "%s.%s" % (adt_key.rsplit("::", 1)[1], n)))
    return Val("adt", vals, (adt_key, prog.adt(adt_key)["variants"][0]["name"]))


def async_state(prog, fn_key, binder):
    """initial coroutine state of `async fn fn_key`: one slot per captured parameter, in order; binder(name, type, index) gives the
    value of a parameter (None -> an opaque marker). Parameters are recognised by TYPE or position, so renaming one changes nothing."""
    shell = prog.bodies.get(fn_key)
    ab = prog.async_body(fn_key)
    caps = ab.raw.get("captures", []) if ab is not None else []
    vals = []
    for i, c in enumerate(caps):
        ty = shell.locals[1 + i]["ty"] if shell is not None and 1 + i < len(shell.locals) else ""
        v = binder(c.get("var"), ty, i)
        vals.append(v if v is not None else marker("P%d" % i))
    return Val("adt", vals, ("coroutine", "state"))


def success_model(body, overrides=None, skip_unknown_loops=False):
    """call model for `success-path traces` of (async) functions: awaited futures complete (Poll::Ready), fallible calls
    succeed (Ok(unknown)); `overrides(cs, args)` is consulted first. Used to extract the ORDER of effects on the success
    path under chosen values of the few flags that select it (e.g. file exists / file type)."""
    def model(cs, args):
        if overrides is not None:
            r = overrides(cs, args)
            if r is not None:
                return r
        if cs.fn == "core::future::future::Future::poll":
            return Val("adt", [Val("adt", [Val("unknown", "ret:%s" % cs.res)], ("core::result::Result", "Ok"))], ("core::task::poll::Poll", "Ready")) \
                if _dest_is(cs.body, cs, "Poll<core::result::Result<") else Val("adt", [Val("unknown", "ret:%s" % cs.res)], ("core::task::poll::Poll", "Ready"))
        if cs.fn == "core::result::Result::map_err" and args:
            return args[0]
        if cs.fn == "core::result::Result::map" and args:
            a0_ = args[0].deref()
            return Fallback(a0_.k, a0_.v, a0_.extra)           # used only when the mapping function cannot be evaluated
        if cs.fn in ("core::future::into_future::IntoFuture::into_future", "core::pin::Pin::new_unchecked") and args:
            return args[0]
        if skip_unknown_loops and cs.fn == "core::iter::traits::iterator::Iterator::next" and args and args[0].deref().k != "iter":
            # a loop over a collection whose content is not modelled (e.g. copying an environment map): stepped over
            return NONE_V
        if cs.fn == "core::ops::try_trait::FromResidual::from_residual":
            return None                                     # an error that IS reached is propagated as the error it is
        if cs.dest is not None and _dest_is(cs.body, cs, "core::result::Result<"):
            return Fallback("adt", [Val("unknown", "ret:%s" % cs.name)], ("core::result::Result", "Ok"))
        return None
    return model


def _dest_is(body, cs, prefix):
    try:
        return body.local_ty(cs.dest["l"]).startswith("core::task::poll::" + prefix) or body.local_ty(cs.dest["l"]).startswith(prefix)
    except Exception:
        return False


def enum_table(prog, body, adt_key, param_local=1, by_ref=True, call_model=None):
    """evaluate `body` for every variant of the fieldless enum `adt_key` given as parameter: {variant: Result}"""
    out = {}
    for v in prog.adt_variants(adt_key):
        val = variant(adt_key, v)
        if by_ref:
            val = Val("ref", val)
        out[v] = run(body, {param_local: val}, call_model)
    return out
