"""Discharging panic sources (T8): automatic arguments first, then the frozen allow-table.

Automatic discharges (each is a static argument over the MIR, printed in the evidence):
  A1 overflow assert whose two operands are compile-time constants (rustc's own const evaluation rejects an overflow);
  A2 division/remainder assert whose divisor is a non-zero constant;
  A3 bounds check with constant index below a constant length;
  A4 overflow assert whose operands have intervals (constants, widening conversions from narrower integer types, earlier
     checked operations) such that the exact result fits the destination type;
  A5 bounds check with constant index k dominated by the arm `len == N` (N > k) of a switch on the same slice's length.
Everything else must match the allow-table: (function, kind, what) -> (max count, reason). Keys never contain line numbers;
more sites than allowed, or a new key, is a violation.
"""
from .flow import origins
from .mir import CallSite, op_const, op_local, op_place, strip_generics
from .panics import sources_in

INT_RANGES = {
    "i8": (-2 ** 7, 2 ** 7 - 1), "i16": (-2 ** 15, 2 ** 15 - 1), "i32": (-2 ** 31, 2 ** 31 - 1), "i64": (-2 ** 63, 2 ** 63 - 1),
    "i128": (-2 ** 127, 2 ** 127 - 1), "isize": (-2 ** 63, 2 ** 63 - 1),
    "u8": (0, 2 ** 8 - 1), "u16": (0, 2 ** 16 - 1), "u32": (0, 2 ** 32 - 1), "u64": (0, 2 ** 64 - 1), "u128": (0, 2 ** 128 - 1),
    "usize": (0, 2 ** 64 - 1),
}


def single_def(body, l):
    ds = body.defs.get(l, [])
    return ds[0] if len(ds) == 1 else None


def interval(body, op, depth=0):
    """(lo, hi) or None"""
    if depth > 12 or op is None:
        return None
    c = op_const(op)
    if c is not None:
        if "int" in c:
            return (c["int"], c["int"])
        return None
    p = op_place(op)
    if p is None:
        return None
    l = p["l"]
    proj = p["p"]
    d = single_def(body, l)
    ty = body.local_ty(l)
    # element of a constant array item (`TABLE[i]` with `const TABLE: [u64; N] = [..]`)
    if proj and d is not None and d[0] == "stmt" and d[3]["s"] == "assign" and d[3]["rv"]["k"] in ("use", "ref"):
        src = d[3]["rv"].get("op") or {"copy": d[3]["rv"].get("place")}
        cc = op_const(src) if isinstance(src, dict) else None
        if cc is not None and any(isinstance(e, dict) and ("idx" in e or "cidx" in e) for e in proj):
            vals = _array_ints(cc.get("pp", ""))
            if vals:
                return (min(vals), max(vals))
    if proj and all(isinstance(e, dict) and ("downcast" in e or "f" in e) for e in proj) and 1 <= len([e for e in proj if "f" in e]) <= 3:
        r_ = _payload_interval(body, l, depth + 1, [e["f"] for e in proj if "f" in e])
        if r_ is not None and r_ != "empty":
            return r_
    if d is None:
        return INT_RANGES.get(ty) if not proj else None
    kind, bb, j, x = d
    if kind == "call":
        cs = CallSite(body, bb, x)
        if cs.fn == "core::convert::From::from" and len(cs.gargs) >= 2 and cs.gargs[1] in INT_RANGES and not proj:
            inner = interval(body, cs.args[0], depth + 1)
            return inner or INT_RANGES[cs.gargs[1]]
        if cs.fn == "core::convert::Into::into" and len(cs.gargs) >= 1 and cs.gargs[0] in INT_RANGES and not proj:
            return INT_RANGES[cs.gargs[0]]
        if cs.fn in ("core::slice::<impl [T]>::len", "core::array::<impl [T; N]>::len") and not proj and cs.args:
            # length of a slice that is an unsized fixed-size array: `[T; N]` -> N
            import re as _re
            seen_l = set()
            al = op_local(cs.args[0])
            while al is not None and al not in seen_l:
                seen_l.add(al)
                m = _re.search(r"\[[^\[\]]*; (\d+)\]", body.local_ty(al))
                if m:
                    return (int(m.group(1)), int(m.group(1)))
                dd = single_def(body, al)
                if dd is None or dd[0] != "stmt" or dd[3]["s"] != "assign":
                    break
                rv_ = dd[3]["rv"]
                nxt = rv_.get("op") if rv_["k"] in ("use", "cast") else ({"copy": rv_["place"]} if rv_["k"] == "ref" else None)
                cc_ = op_const(nxt) if isinstance(nxt, dict) else None
                if cc_ is not None:
                    m = _re.search(r"\[[^\[\]]*; (\d+)\]", cc_.get("ty", ""))
                    if m:
                        return (int(m.group(1)), int(m.group(1)))
                    break
                al = op_local(nxt) if isinstance(nxt, dict) else None
        if cs.fn in ("core::cmp::Ord::min", "core::cmp::min", "core::cmp::Ord::max", "core::cmp::max", "core::cmp::Ord::clamp") and not proj and len(cs.args) >= 2:
            ivs = [interval(body, a_, depth + 1) or INT_RANGES.get(ty) for a_ in cs.args]
            if all(iv_ is not None for iv_ in ivs):
                if cs.fn.endswith("min"):
                    return (min(ivs[0][0], ivs[1][0]), min(ivs[0][1], ivs[1][1]))
                if cs.fn.endswith("max"):
                    return (max(ivs[0][0], ivs[1][0]), max(ivs[0][1], ivs[1][1]))
                if cs.fn.endswith("clamp") and len(ivs) == 3 and ivs[1][1] <= ivs[2][0]:
                    return (ivs[1][0], ivs[2][1])
        if (cs.fn or "").rsplit("::", 1)[-1] == "len" and not proj and cs.args and (cs.fn or "").startswith(("core::slice::<impl [T]>::", "alloc::vec::Vec::", "alloc::string::String::", "core::str::<impl str>::")):
            # A10 (platform assumption, DESIGN section 3): the length of an in-memory byte/str buffer is below 2^57 — no target rustc
            # supports offers more than 57 bits of virtual address space, and std caps an allocation at isize::MAX bytes
            al = op_local(cs.args[0])
            aty = body.local_ty(al) if al is not None else ""
            if any(t_ in aty for t_ in ("[u8]", "Vec<u8>", "str", "String", "[u8;")):
                return (0, 2 ** 57)
        return INT_RANGES.get(ty) if not proj else None
    rv = x["rv"] if x["s"] == "assign" else None
    if rv is None:
        return None
    if proj and len(proj) == 1 and isinstance(proj[0], dict) and ("idx" in proj[0] or "cidx" in proj[0]) and rv["k"] == "agg" \
            and rv.get("agg") == "array":
        # element of a literal array: hull of the elements
        ivs = [interval(body, o, depth + 1) for o in rv["ops"]]
        if ivs and all(iv is not None for iv in ivs):
            return (min(i[0] for i in ivs), max(i[1] for i in ivs))
        return None
    if proj:
        # `_t.0` of a checked operation
        if len(proj) == 1 and isinstance(proj[0], dict) and proj[0].get("f") == 0 and rv["k"] == "binop" and rv["op"].endswith("WithOverflow"):
            r = _arith(body, rv, depth)
            if r is None:
                return None
            # the assert after it guarantees the result fits: clip to the element type
            et = ty.strip("()").split(",")[0].strip()
            rng = INT_RANGES.get(et)
            if rng:
                return (max(r[0], rng[0]), min(r[1], rng[1]))
            return r
        return None
    if rv["k"] == "use":
        return interval(body, rv["op"], depth + 1)
    if rv["k"] == "cast" and rv["ck"] == "IntToInt":
        inner = interval(body, rv["op"], depth + 1)
        rng = INT_RANGES.get(rv["ty"])
        if inner and rng and rng[0] <= inner[0] and inner[1] <= rng[1]:
            return inner
        return rng
    if rv["k"] == "binop":
        r = _arith(body, rv, depth)
        if r is not None:
            return r
    return INT_RANGES.get(ty)


PAYLOAD_WRAPPERS = ("branch", "ok_or", "ok_or_else", "map_err", "ok", "or", "or_else", "into", "from", "into_iter", "clone", "copied", "cloned")


def _payload_interval(body, l, depth=0, path=(0,)):
    """interval of the single payload of an Option/Result/ControlFlow local whose every definition is `Some(<interval>)`-like, an
    empty variant, or a payload-preserving wrapper call of such a value (`opt.ok_or_else(..)?`)"""
    if depth > 12:
        return None
    out = None
    ds = body.defs.get(l, [])
    if not ds:
        return None
    for kind, bb, j, x in ds:
        iv = None
        if kind == "call":
            cs = CallSite(body, bb, x)
            if (cs.fn or cs.name or "").rsplit("::", 1)[-1] in PAYLOAD_WRAPPERS and cs.args and op_local(cs.args[0]) is not None and not (op_place(cs.args[0]) or {}).get("p"):
                iv = _payload_interval(body, op_local(cs.args[0]), depth + 1, path)
                if iv == "empty":
                    continue
            if iv is None:
                return None
        elif x.get("s") == "assign":
            rv = x["rv"]
            if x["lhs"]["p"]:
                return None
            if rv["k"] == "agg" and rv.get("agg") == "adt":
                if not rv.get("ops"):
                    continue                      # None / unit-like variant: no payload on this path
                if not path or path[0] >= len(rv["ops"]):
                    return None
                o_ = rv["ops"][path[0]]
                if len(path) == 1:
                    iv = interval(body, o_, depth + 1)
                elif op_local(o_) is not None and not (op_place(o_) or {}).get("p"):
                    iv = _payload_interval(body, op_local(o_), depth + 1, list(path[1:]))
                    if iv == "empty":
                        continue
                else:
                    return None
            elif rv["k"] == "use" and op_local(rv["op"]) is not None and (op_place(rv["op"]) or {}).get("p") \
                    and all(isinstance(e, dict) and ("downcast" in e or "f" in e) for e in op_place(rv["op"])["p"]):
                iv = _payload_interval(body, op_local(rv["op"]), depth + 1, [e["f"] for e in op_place(rv["op"])["p"] if "f" in e] + list(path))
                if iv == "empty":
                    continue
            elif rv["k"] == "use" and op_const(rv["op"]) is not None and not path:
                iv = interval(body, rv["op"], depth + 1)
            elif rv["k"] == "use" and op_local(rv["op"]) is not None and not (op_place(rv["op"]) or {}).get("p"):
                iv = _payload_interval(body, op_local(rv["op"]), depth + 1, path)
                if iv == "empty":
                    continue
            if iv is None:
                return None
        else:
            return None
        out = iv if out is None else (min(out[0], iv[0]), max(out[1], iv[1]))
    return out if out is not None else "empty"


def _guarded_decrement(body, bb, l):
    """the block computing `l - 1` is reachable only through the positive edge of a test `l > 0` (or != 0, >= 1) and `l` is not
    assigned between that test and the subtraction"""
    from .util import bool_edges, switches_on
    # the operand may be a fresh copy of the variable
    var = l
    ds = body.defs.get(l, [])
    if len(ds) == 1 and ds[0][0] == "stmt" and ds[0][3]["s"] == "assign" and ds[0][3]["rv"]["k"] == "use" and op_place(ds[0][3]["rv"]["op"]) is not None and not op_place(ds[0][3]["rv"]["op"])["p"]:
        var = op_local(ds[0][3]["rv"]["op"])
    def is_var(x):
        if x == var or x == l:
            return True
        d2 = body.defs.get(x, [])
        return len(d2) == 1 and d2[0][0] == "stmt" and d2[0][3]["rv"]["k"] == "use" and op_local(d2[0][3]["rv"]["op"]) == var and not op_place(d2[0][3]["rv"]["op"])["p"]
    for i in body.live_blocks():
        for st in body.blocks[i]["stmts"]:
            if st["s"] != "assign" or st["rv"]["k"] != "binop" or st["rv"]["op"] not in ("Gt", "Ne", "Ge", "Lt", "Le"):
                continue
            a, b = st["rv"]["a"], st["rv"]["b"]
            la, lb = op_local(a), op_local(b)
            ca, cb = op_const(a), op_const(b)
            op = st["rv"]["op"]
            pos = None
            if la is not None and is_var(la) and cb is not None:
                k = cb.get("int")
                pos = (op == "Gt" and k is not None and k >= 0) or (op == "Ne" and k == 0) or (op == "Ge" and k is not None and k >= 1)
            elif lb is not None and is_var(lb) and ca is not None:
                k = ca.get("int")
                pos = (op == "Lt" and k is not None and k >= 0) or (op == "Ne" and k == 0) or (op == "Le" and k is not None and k >= 1)
            if not pos:
                continue
            for sbb, neg in switches_on(body, st["lhs"]["l"]):
                e = bool_edges(body, sbb)
                if e is None:
                    continue
                t, f = e
                if neg:
                    t, f = f, t
                if bb in body.reachable(0, removed_edges=[(sbb, t)]):
                    continue            # reachable without the positive edge
                # no assignment to the variable on the way from the positive edge to the subtraction
                fwd = body.reachable([t], removed_nodes=[sbb])
                back = {x for x in fwd if bb in body.reachable([x], removed_nodes=[sbb])}
                wr = [d for d in body.defs.get(var, []) if d[1] in back and d[1] != bb]
                if not wr:
                    return "A7 `%s - 1` under the dominating positive test of the same unchanged local" % ("_%d" % var)
    return None


def _array_ints(pp):
    import re as _re
    m = _re.findall(r"(-?\d+)_[iu](?:8|16|32|64|128|size)", pp or "")
    return [int(x) for x in m] if m and pp.strip().startswith(("[", "&[", "const [")) else []


def _arith(body, rv, depth):
    a = interval(body, rv["a"], depth + 1)
    b = interval(body, rv["b"], depth + 1)
    if a is None or b is None:
        return None
    op = rv["op"].replace("WithOverflow", "").replace("Unchecked", "")
    if op == "Add":
        return (a[0] + b[0], a[1] + b[1])
    if op == "Sub":
        return (a[0] - b[1], a[1] - b[0])
    if op == "Mul":
        c = [a[0] * b[0], a[0] * b[1], a[1] * b[0], a[1] * b[1]]
        return (min(c), max(c))
    return None


SIZE_CALLS = ("len", "count", "capacity", "size", "bits", "encoded_len", "max_encoded_len", "num_bytes", "digest_size", "block_size", "size_of", "min", "max")


def _size_expr(body, op, depth=0):
    """the operand is built from constants and lengths/sizes of values that already exist (`a.len() * 3 + 1`): walks single
    definitions; a `len()`-like call is a leaf (what it measures is irrelevant)"""
    if depth > 16 or op is None:
        return False
    if op_const(op) is not None:
        return True
    p = op_place(op)
    if p is None:
        return False
    d = single_def(body, p["l"])
    if d is None:
        return False
    kind, bb, j, x = d
    if kind == "call":
        cs = CallSite(body, bb, x)
        m = (cs.fn or cs.name or "").rsplit("::", 1)[-1]
        if m in SIZE_CALLS and m not in ("min", "max"):
            return True
        if m in ("min", "max", "saturating_add", "saturating_mul", "saturating_sub", "wrapping_add", "next_power_of_two", "div_ceil", "from", "into", "unwrap_or") or m.startswith("checked_"):
            return all(_size_expr(body, a, depth + 1) for a in cs.args)
        return False
    if x["s"] != "assign":
        return False
    rv = x["rv"]
    if rv["k"] in ("use", "cast"):
        return _size_expr(body, rv["op"], depth + 1)
    if rv["k"] == "binop":
        return _size_expr(body, rv["a"], depth + 1) and _size_expr(body, rv["b"], depth + 1)
    if rv["k"] == "unop" and rv.get("op") == "PtrMetadata":
        return True
    return False


def _fpath(p):
    return [e["f"] for e in p["p"] if isinstance(e, dict) and "f" in e]


def _overlaps(a, b):
    n = min(len(a), len(b))
    return a[:n] == b[:n]


def _ref_place(body, op):
    """the place behind an operand that is a (copy of a) `&place` / `&mut place` temporary"""
    l = op_local(op)
    for _ in range(6):
        if l is None:
            return None
        d = single_def(body, l)
        if d is None or d[0] != "stmt" or d[3]["s"] != "assign":
            return None
        rv = d[3]["rv"]
        if rv["k"] == "ref":
            if rv["place"]["p"] == ["*"]:
                l = rv["place"]["l"]          # a reborrow `&mut *r`
                continue
            return rv["place"]
        if rv["k"] == "use" and op_place(rv["op"]) is not None and not op_place(rv["op"])["p"]:
            l = op_local(rv["op"])
            continue
        return None
    return None


def _index_in_len_range_loop(body, src):
    """A11: `v[i]` where i is produced by `(0..v.len()).next()` for the SAME place v, and nothing in the loop can change v's
    length: no assignment to / mutable borrow of an overlapping place, directly or through a `&mut` of an enclosing value whose uses
    are all visible here (helpers inlined) and touch other fields only."""
    t = body.term(src.bb)
    if t["t"] != "call":
        return None
    cs = CallSite(body, src.bb, t)
    if len(cs.args) < 2:
        return None
    pv = _ref_place(body, cs.args[0])
    if pv is None or any(e == "*" or (isinstance(e, dict) and "f" not in e) for e in pv["p"]):
        return None
    # the index: payload of Range::next
    l = op_local(cs.args[1])
    nxt = None
    for _ in range(8):
        d = single_def(body, l) if l is not None else None
        if d is None:
            return None
        if d[0] == "call":
            c2 = CallSite(body, d[1], d[3])
            if (c2.fn or "").endswith("Iterator::next") and "ops::range::Range<" in ((c2.res or "") + " ".join(c2.term.get("arg_tys") or [])):
                nxt = c2
            break
        rv = d[3].get("rv") if d[3].get("s") == "assign" else None
        if rv is None or rv["k"] != "use" or op_place(rv["op"]) is None:
            return None
        l = op_local(rv["op"])
    if nxt is None:
        return None
    rplace = _ref_place(body, nxt.args[0])
    if rplace is None or rplace["p"]:
        return None
    # the range value: `IntoIterator::into_iter(Range { start, end })` or the aggregate itself
    end_op = None
    rl = rplace["l"]
    for _ in range(4):
        ds = body.defs.get(rl, [])
        if len(ds) != 1:
            return None
        k, bb, j, x = ds[0]
        if k == "call":
            c3 = CallSite(body, bb, x)
            if (c3.fn or "").endswith("IntoIterator::into_iter") and c3.args and op_local(c3.args[0]) is not None:
                rl = op_local(c3.args[0])
                continue
            return None
        rv = x.get("rv") if x.get("s") == "assign" else None
        if rv is None:
            return None
        if rv["k"] == "agg" and str(rv.get("adt", "")).startswith("core::ops::range::Range") and len(rv.get("ops", [])) == 2 and strip_generics(rv["adt"]) == "core::ops::range::Range":
            end_op = rv["ops"][1]
            break
        if rv["k"] == "use" and op_local(rv["op"]) is not None and not op_place(rv["op"])["p"]:
            rl = op_local(rv["op"])
            continue
        return None
    if end_op is None:
        return None
    el = op_local(end_op)
    de = single_def(body, el) if el is not None else None
    while de is not None and de[0] == "stmt" and de[3].get("s") == "assign" and de[3]["rv"]["k"] == "use" and op_local(de[3]["rv"]["op"]) is not None and not op_place(de[3]["rv"]["op"])["p"]:
        de = single_def(body, op_local(de[3]["rv"]["op"]))
    if de is None or de[0] != "call":
        return None
    clen = CallSite(body, de[1], de[3])
    if (clen.fn or "").rsplit("::", 1)[-1] != "len" or not clen.args:
        return None
    pl = _ref_place(body, clen.args[0])
    if pl is None or pl["l"] != pv["l"] or _fpath(pl) != _fpath(pv) or any(e == "*" for e in pl["p"]):
        return None
    scc = body.scc_of(nxt.bb)
    if scc is None or src.bb not in set(scc):
        return None
    root, vpath = pv["l"], _fpath(pv)
    aliases = {}                    # local -> field path of the enclosing value it mutably points to
    changed = True
    blocks = [b_ for b_ in scc if not body.is_cleanup(b_)]
    while changed:
        changed = False
        for b_ in blocks:
            for st in body.blocks[b_]["stmts"]:
                if st["s"] != "assign" or st["lhs"]["p"]:
                    continue
                rv = st["rv"]
                if rv["k"] == "ref" and rv.get("bk") not in ("shared", "Shared", "fake"):
                    pb = rv["place"]
                    base = None
                    if pb["l"] == root and not any(e == "*" for e in pb["p"]):
                        base = _fpath(pb)
                    elif pb["l"] in aliases and pb["p"] and pb["p"][0] == "*":
                        base = aliases[pb["l"]] + _fpath(pb)
                    if base is not None and aliases.get(st["lhs"]["l"]) != base:
                        aliases[st["lhs"]["l"]] = base
                        changed = True
                elif rv["k"] == "use" and op_local(rv["op"]) in aliases and not op_place(rv["op"])["p"] and aliases.get(st["lhs"]["l"]) != aliases[op_local(rv["op"])]:
                    aliases[st["lhs"]["l"]] = aliases[op_local(rv["op"])]
                    changed = True
    for l_, ap in aliases.items():
        if len(ap) >= len(vpath) and _overlaps(ap, vpath):
            return None             # a mutable reference to v itself (or into it)
    for b_ in blocks:
        for st in body.blocks[b_]["stmts"]:
            if st["s"] != "assign":
                continue
            lp = st["lhs"]
            if lp["l"] == root and lp["p"] and not any(e == "*" for e in lp["p"]) and _overlaps(_fpath(lp), vpath):
                return None
            if lp["l"] == root and not lp["p"]:
                return None
            if lp["l"] in aliases and lp["p"] and lp["p"][0] == "*" and _overlaps(aliases[lp["l"]] + _fpath(lp), vpath):
                return None
        tt = body.term(b_)
        if tt["t"] == "call":
            c4 = CallSite(body, b_, tt)
            if c4.dest is not None and c4.dest["l"] == root and _overlaps(_fpath(c4.dest), vpath):
                return None
            for a in c4.args:
                al = op_local(a)
                if al in aliases and not (op_place(a) or {}).get("p") and _overlaps(aliases[al], vpath):
                    # a `&mut` that covers v handed to a callee whose body is not visible here
                    return None
    return "A11 index produced by `0..v.len()` over the same vector, whose length nothing in the loop can change"


def auto_discharge(body, src):
    """returns a reason string when the assert source is discharged automatically, else None"""
    if src.kind == "index":
        try:
            return _index_in_len_range_loop(body, src)
        except Exception:
            return None
    if src.kind == "unwrap" and src.what == "core::option::Option::unwrap":
        # A6: `a.partial_cmp(&b).unwrap()` where the operands' type is totally ordered (Ord): partial_cmp is Some(cmp)
        t = body.term(src.bb)
        if t["t"] == "call" and t.get("args"):
            sl = origins(body, t["args"][0])
            pc = [c for c in sl.calls if c.fn == "core::cmp::PartialOrd::partial_cmp"]
            TOTAL = ("core::time::Duration", "u8", "u16", "u32", "u64", "u128", "usize", "i8", "i16", "i32", "i64", "i128", "isize", "alloc::string::String", "str", "bool", "char",
                     "std::time::Instant")
            if len(pc) == 1 and pc[0].gargs and all(g.lstrip("&") in TOTAL for g in pc[0].gargs[:2]):
                return "A6 partial_cmp on the totally ordered type %s is always Some" % pc[0].gargs[0]
        return None
    if src.kind == "capacity":
        # A9: the requested size is a constant, has a small interval, or is the length / count / capacity of something that already
        # exists in memory (plus constants): it cannot be an arbitrary configured number
        from .panics import CAPACITY_ARG
        t = body.term(src.bb)
        if t["t"] != "call":
            return None
        cs = CallSite(body, src.bb, t)
        i_ = CAPACITY_ARG.get(src.what, 1)
        if i_ >= len(cs.args):
            return None
        iv = interval(body, cs.args[i_])
        if iv is not None and iv[1] <= 2 ** 32:
            return "A9 requested size within %s..%s" % iv
        if _size_expr(body, cs.args[i_]):
            return "A9 requested size is built from lengths of existing values and constants"
        sl = origins(body, cs.args[i_])
        SIZES = ("len", "count", "capacity", "size_hint", "size", "bits", "encoded_len", "max_encoded_len", "num_bytes", "digest_size", "block_size")
        inputs = [l_ for l_ in sl.leaves if l_.startswith(("param:", "field:", "static:"))] if hasattr(sl, "leaves") else None
        if inputs is not None and not inputs and not sl.fields and all((c_.name or "").rsplit("::", 1)[-1] in SIZES or (c_.fn or "").startswith(("core::cmp::", "core::num::", "core::ops::arith")) for c_ in sl.calls):
            return "A9 requested size derives from lengths of existing values and constants only"
        return None
    if src.kind != "assert":
        return None
    t = body.term(src.bb)
    kind = t["kind"]
    ops = t.get("ops", [])
    blk = body.blocks[src.bb]
    if kind.startswith("Overflow("):
        if len(ops) == 2 and op_const(ops[0]) is not None and op_const(ops[1]) is not None:
            return "A1 both operands are compile-time constants"
        if kind in ("Overflow(Shl)", "Overflow(Shr)") and len(ops) == 2 and op_const(ops[1]) is not None:
            sh = op_const(ops[1]).get("int")
            l0 = op_local(ops[0])
            ty = body.local_ty(l0) if l0 is not None else (op_const(ops[0]) or {}).get("ty", "")
            bits = {"u8": 8, "i8": 8, "u16": 16, "i16": 16, "u32": 32, "i32": 32, "u64": 64, "i64": 64, "usize": 64, "isize": 64, "u128": 128, "i128": 128}.get(ty)
            if sh is not None and bits and 0 <= sh < bits:
                return "A1 constant shift amount %d < %d bits" % (sh, bits)
        # A7: `n - 1` under a dominating `n > 0` / `n != 0` / `n >= 1` test of the same unchanged local
        if kind == "Overflow(Sub)" and len(ops) == 2 and (op_const(ops[1]) or {}).get("int") == 1 and op_local(ops[0]) is not None:
            r7 = _guarded_decrement(body, src.bb, op_local(ops[0]))
            if r7:
                return r7
        # A8: `i + 1` where i is the counter of a counted loop with a constant limit (i stays below the limit, far from the type's max)
        if kind == "Overflow(Add)" and len(ops) == 2 and (op_const(ops[1]) or {}).get("int") == 1 and op_local(ops[0]) is not None:
            from .loops import counted_loop, unexplained_loops
            for scc in unexplained_loops(body):
                if src.bb in scc:
                    cl = counted_loop(body, scc)
                    if cl and cl["direction"] == "up" and cl.get("limit") is not None and cl["limit"] < 2 ** 31 and src.bb in cl["step_blocks"] + [b_ for b_ in scc if body.succ[b_] and any(x in cl["step_blocks"] for x in body.succ[b_])]:
                        return "A8 counter of a counted loop bounded by the constant %s" % cl["limit"]
        # find the checked op statement in the block
        for st in reversed(blk["stmts"]):
            if st["s"] == "assign" and st["rv"]["k"] == "binop" and st["rv"]["op"].endswith("WithOverflow"):
                r = _arith(body, st["rv"], 0)
                ty = body.local_ty(st["lhs"]["l"]).strip("()").split(",")[0].strip()
                rng = INT_RANGES.get(ty)
                if r and rng and rng[0] <= r[0] and r[1] <= rng[1]:
                    return "A4 interval %s..%s fits %s" % (r[0], r[1], ty)
                break
        return None
    if kind in ("DivisionByZero", "RemainderByZero"):
        cl = op_local(t["cond"])
        for st in reversed(blk["stmts"]):
            if st["s"] == "assign" and st["lhs"]["l"] == cl and st["rv"]["k"] == "binop" and st["rv"]["op"] == "Eq":
                a, b = op_const(st["rv"]["a"]), op_const(st["rv"]["b"])
                if a is not None and b is not None and a.get("int") != b.get("int"):
                    return "A2 divisor is the non-zero constant %s" % a.get("int")
        return None
    if kind == "BoundsCheck":
        ln = op_const(ops[0]) if ops else None
        idx = None
        il = op_local(ops[1]) if len(ops) > 1 else None
        ic = op_const(ops[1]) if len(ops) > 1 else None
        if ic is not None:
            idx = ic.get("int")
        elif il is not None:
            d = single_def(body, il)
            if d and d[0] == "stmt" and d[3]["s"] == "assign" and d[3]["rv"]["k"] == "use":
                c = op_const(d[3]["rv"]["op"])
                if c is not None:
                    idx = c.get("int")
        if idx is not None and ln is not None and "int" in ln and idx < ln["int"]:
            return "A3 constant index %d < constant length %d" % (idx, ln["int"])
        if idx is None and ln is not None and "int" in ln and len(ops) > 1:
            iv_ = interval(body, ops[1])
            if iv_ is not None and 0 <= iv_[0] and iv_[1] < ln["int"]:
                return "A3 index within %s..%s < constant length %d" % (iv_[0], iv_[1], ln["int"])
        if idx is not None:
            # A5: dominated by `len == N` arm with N > idx
            for sbb in range(body.n):
                tt = body.term(sbb)
                if tt["t"] != "switch" or body.is_cleanup(sbb):
                    continue
                dl = op_local(tt["discr"])
                if dl is None:
                    continue
                d = body.defs.get(dl, [])
                from_len = False
                for kind2, b2, j2, x2 in d:
                    if kind2 == "call" and CallSite(body, b2, x2).is_("core::slice::<impl [T]>::len", "alloc::vec::Vec::len"):
                        from_len = True
                    if kind2 == "stmt" and x2["s"] == "assign" and x2["rv"]["k"] in ("unop",) and x2["rv"]["op"] in ("PtrMetadata",):
                        from_len = True
                if not from_len:
                    continue
                for val, tgt in tt["arms"]:
                    if val > idx and body.dominates(tgt, src.bb) and tgt != tt["otherwise"]:
                        # the arm target must be entered only through this arm
                        if all(p == sbb for p in body.pred[tgt]):
                            return "A5 constant index %d under `len == %d`" % (idx, val)
        return None
    return None


# (function key, kind, what) -> (max count, reason).  `what` may end with '*' (prefix).
ALLOW = {
    ("acmed::http::get_client", "unwrap", "core::result::Result::unwrap"):
        (2, "HeaderValue parse of compile-time constant strings (language list, user agent built from env! values)"),
    ("acme_common::crypto::openssl_keys::KeyPair::get_rsa_jwk", "unwrap", "core::result::Result::unwrap"):
        (9, "rsa() on a key whose type was dispatched as RSA by the caller's match on key_type; the rest are json! to_value of strings"),
    ("acme_common::crypto::openssl_keys::KeyPair::get_ecdsa_jwk", "unwrap", "core::result::Result::unwrap"):
        (15, "EcGroup::from_curve_name of 3 constant NIDs, BigNum/BigNumContext::new (allocation), ec_key() after key_type dispatch, json! to_value of strings"),
    ("acme_common::crypto::openssl_keys::KeyPair::get_eddsa_jwk", "unwrap", "core::result::Result::unwrap"):
        (8, "json! to_value of strings"),
    ("acme_common::crypto::openssl_keys::KeyPair::get_eddsa_jwk", "range", "alloc::string::String::replace_range"):
        (1, "removes the 16-character base64 prefix of an Ed25519/Ed448 SPKI, which is 44/69 bytes = at least 59 base64 characters"),
    ("acme_common::crypto::openssl_keys::KeyPair::get_eddsa_jwk", "range", "alloc::string::String::split_off"):
        (1, "the same cut written as split_off(16): an Ed25519/Ed448 SPKI is at least 59 base64 characters"),
    ("acme_common::crypto::openssl_keys::KeyPair::get_eddsa_jwk", "range", "alloc::string::String::drain"):
        (1, "the same cut written as drain(..16)"),
    ("acme_common::crypto::openssl_keys::KeyPair::from_pem", "assert", "Overflow(Mul)"):
        (1, "RSA modulus size in bytes (u32, at most 2^13 for OpenSSL) times 8 in an error message"),
    ("acme_common::crypto::openssl_keys::KeyPair::from_der", "assert", "Overflow(Mul)"):
        (1, "same as from_pem"),
    ("acme_common::crypto::openssl_keys::KeyPair::sign_ecdsa", "assert", "Overflow(Sub)"):
        (2, "size - len(r|s): r and s are smaller than the group order, whose byte length is `size` (table checked by C15)"),
    ("acmed::acme_proto::request_certificate::{closure#0}", "unwrap", "core::result::Result::unwrap"):
        (1, "json!({\"csr\": String}) expands to to_value(&String).unwrap(), infallible for a string"),
    ("acmed::main_event_loop::renew_certificate::{closure#0}", "assert", "BoundsCheck"):
        (1, "backoff[min(n, len-1)]: index bounded by Ord::min with len-1 (checked: index derives from Ord::min)"),
    ("acmed::main_event_loop::renew_certificate::{closure#0}", "assert", "Overflow(Add)"):
        (1, "scheduling_retries += 1: usize counter incremented at most once per >= 60 s sleep"),
    ("acmed::main_event_loop::renew_certificate::{closure#0}", "assert", "Overflow(Sub)"):
        (1, "backoff.len() - 1 on a non-empty constant array"),
    ("acmed::certificate::Certificate::renew_in", "gen_range", "rand::rng::Rng::gen_range"):
        (1, "CONDITIONAL: only when dominated by the false edge of random_early_renew.is_zero() (checked by C06.R2 guard rule)"),
    ("acmed::endpoint::RateLimit::get_sleep_duration", "assert", "DivisionByZero"):
        (1, "CONDITIONAL: divisor is a limit's number, rejected when 0 by RateLimit::new (checked by the non-zero guard rule, C19.R4)"),
    ("acmed::identifier::u8_to_nibbles_string", "assert", "BoundsCheck"):
        (2, "u8::to_ne_bytes() is [u8; 1], index 0"),
    ("acmed::config::read_cnf", "unwrap", "core::option::Option::unwrap"):
        (1, "CONDITIONAL: config.global.clone().unwrap() on the false edge of config.global.is_none() (checked by guard rule)"),
    ("acmed::main", "unwrap", "core::result::Result::unwrap"):
        (1, "tokio runtime construction at process start, before any configuration is read"),
    ("acme_common::crypto::openssl_version::get_lib_version", "*", "*"):
        (99, "--version text only"),
}


def classify(body, src):
    """('auto', reason) | ('allow', reason, max) | ('new', None)"""
    r = auto_discharge(body, src)
    if r:
        return ("auto", r)
    ow = allow_owner(body.key, src.kind, src.what)
    k = (ow, src.kind, src.what)
    if k in ALLOW:
        return ("allow", ALLOW[k][1], ALLOW[k][0])
    kk = (ow, "*", "*")
    if kk in ALLOW:
        return ("allow", ALLOW[kk][1], ALLOW[kk][0])
    return ("new", None)


def allow_owner(key, kind, what):
    """the allow-table is keyed by FUNCTION: a site that moved into a closure of that function (`x.map_or(0, |n| a / n)`) is still
    that function's site — the nearest enclosing body that has an entry for this (kind, what) owns it"""
    import re
    k = key
    for _ in range(4):
        if (k, kind, what) in ALLOW or (k, "*", "*") in ALLOW:
            return k
        m = re.match(r"^(.*)::\{closure#\d+\}$", k)
        if not m:
            break
        k = m.group(1)
    return key


def enumerate_reach(ctx, rid, entries, crates=("acmed", "acme_common", "tacd"), exclude=()):
    """Enumerate and discharge every panic source of every workspace body reachable from entries.
    Returns dict key->count of allow-listed sources (for conditional guards to be checked by the caller)."""
    prog = ctx.prog
    reach = prog.reach(entries)
    counts = {}
    auto_n = 0
    bodies = 0
    for k in sorted(reach):
        b = prog.body(k)
        if b.crate not in crates or any(k.startswith(e) for e in exclude):
            continue
        if prog.absorbed(k):
            # a new helper, inlined everywhere it is used: its code is examined inside its callers, under their names
            continue
        bodies += 1
        for s in sources_in(b):
            c = classify(b, s)
            if c[0] == "auto":
                auto_n += 1
                ctx.ok(rid, "%s %s in %s: %s" % (s.kind, s.what, short(k), c[1]))
            elif c[0] == "allow":
                ko = allow_owner(k, s.kind, s.what)
                counts[(ko, s.kind, s.what)] = counts.get((ko, s.kind, s.what), 0) + 1
                counts.setdefault(("__where__", ko, s.kind, s.what), s.where())
            else:
                ctx.fail(rid, s.where(), "new panic source on this path: %s `%s` in %s (not discharged by A1-A5 and not in the allow-table)"
                         % (s.kind, s.what, k), [k, s.kind, s.what])
    for key, n in list(counts.items()):
        if key[0] == "__where__":
            continue
        k, kind, what = key
        ent = ALLOW.get(key) or ALLOW.get((k, "*", "*"))
        if n > ent[0]:
            ctx.fail(rid, counts[("__where__", k, kind, what)], "%d `%s` sites in %s, the allow-table covers %d (%s): a new unchecked site appeared"
                     % (n, what, k, ent[0], ent[1]), [k, kind, what, "count"])
        else:
            ctx.ok(rid, "allowed x%d: %s %s in %s — %s" % (n, kind, what, short(k), ent[1]))
    ctx.notes.append("%s: %d workspace bodies reachable from %s; %d sources discharged automatically (A1-A5)" % (rid, bodies, entries, auto_n))
    return {k: v for k, v in counts.items() if k[0] != "__where__"}


def short(k):
    return "::".join(k.split("::")[-3:])
