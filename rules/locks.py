"""T4 — lock-state dataflow: which RwLock guard classes a coroutine/function may hold at each program point.

Forward may-analysis over the normal-flow CFG of one body on the set of *guard-owning locals* that are maybe-initialised
(the extractor marks a local as guard-owning when its type owns an async_lock/std/tokio guard: the guard itself,
Poll<guard>, Option/Result/tuple of it, or a closure/coroutine whose captured variables own one).
  gen : assignment to the local (statement, call destination)
  kill: move out of the local (any operand `move _l…`), Drop terminator, StorageDead / StorageLive,
        and — edge refinement — the Pending/None arm of a switch on the local's own discriminant.
Pre-drop-elaboration MIR keeps `drop(_l)` on every scope exit, so RAII release is visible on all paths.
"""
from collections import deque

from .mir import CallSite, op_local, op_place, strip_generics

ACQ_METHODS = {"read": "R", "write": "W", "upgradable_read": "U", "read_arc": "R", "write_arc": "W",
               "upgradable_read_arc": "U", "read_blocking": "R", "write_blocking": "W", "upgradable_read_blocking": "U",
               "lock": "W", "lock_arc": "W", "lock_blocking": "W"}
LOCK_TYPES = ("async_lock::rwlock::RwLock", "async_lock::mutex::Mutex", "tokio::sync::rwlock::RwLock",
              "tokio::sync::mutex::Mutex", "std::sync::rwlock::RwLock", "std::sync::mutex::Mutex",
              "std::sync::poison::rwlock::RwLock", "std::sync::poison::mutex::Mutex")


def acquisition_of(cs):
    """(class, mode) when the call site acquires (or starts acquiring) a lock, else None"""
    fn = cs.fn or ""
    for lt in LOCK_TYPES:
        if fn.startswith(lt + "::"):
            m = fn[len(lt) + 2:]
            if m in ACQ_METHODS and cs.gargs:
                return (cs.gargs[0], ACQ_METHODS[m])
    return None


def guard_locals(body):
    return {i: l["guards"] for i, l in enumerate(body.locals) if l.get("guards")}


def classes_of(body, held):
    out = set()
    for l in held:
        for g in body.locals[l].get("guards", []):
            mode, cls = g.split(":", 1)
            out.add((cls, mode))
    return out


def _moves_in_operand(o, gl, out):
    if o is None:
        return
    p = o.get("move")
    if p is not None and p["l"] in gl:
        out.add(p["l"])


def _rv_operands(rv):
    k = rv["k"]
    if k in ("use", "cast", "repeat"):
        return [rv["op"]]
    if k == "binop":
        return [rv["a"], rv["b"]]
    if k == "unop":
        return [rv["a"]]
    if k == "agg":
        return rv["ops"]
    return []


def analyse(body):
    """returns (state_before_terminator: {bb: frozenset(locals)}, entry_state: {bb: frozenset})"""
    gl = guard_locals(body)
    live = body.live_blocks()
    n = body.n
    inn = {0: frozenset()}
    before_term = {}
    wl = deque([0])
    inq = {0}
    while wl:
        bb = wl.popleft()
        inq.discard(bb)
        st = set(inn.get(bb, frozenset()))
        blk = body.blocks[bb]
        discr_of = {}
        for s in blk["stmts"]:
            if s["s"] == "assign":
                killed = set()
                for o in _rv_operands(s["rv"]):
                    _moves_in_operand(o, gl, killed)
                st -= killed
                if s["lhs"]["l"] in gl:
                    st.add(s["lhs"]["l"])
                if s["rv"]["k"] == "discr" and not s["lhs"]["p"]:
                    discr_of[s["lhs"]["l"]] = s["rv"]
            elif s["s"] in ("dead", "live"):
                st.discard(s["l"])
        before_term[bb] = frozenset(st)
        t = blk["term"]
        k = t["t"]
        outs = {}
        if k == "call":
            killed = set()
            for a in t.get("args", []):
                _moves_in_operand(a, gl, killed)
            st2 = set(st) - killed
            if t.get("dest") is not None and t["dest"]["l"] in gl:
                st2.add(t["dest"]["l"])
            for s in body.succ[bb]:
                outs[s] = st2
        elif k == "drop":
            st2 = set(st)
            if not t["place"]["p"]:
                st2.discard(t["place"]["l"])
            for s in body.succ[bb]:
                outs[s] = st2
        elif k == "switch":
            dl = op_local(t["discr"])
            rv = discr_of.get(dl)
            names = {int(v[0]): v[1] for v in rv.get("variants", [])} if rv else {}
            pl = rv["place"]["l"] if rv else None
            for val, tgt in t["arms"]:
                st2 = set(st)
                if pl in gl and names.get(val) in ("Pending", "None"):
                    st2.discard(pl)
                outs[tgt] = outs.get(tgt, set()) | st2 if tgt in outs else st2
            o = t["otherwise"]
            if o not in outs:
                outs[o] = set(st)
            else:
                outs[o] = outs[o] | set(st)
            # constant switches: only the live arm is a successor
            outs = {s: v for s, v in outs.items() if s in body.succ[bb]}
        else:
            for s in body.succ[bb]:
                outs[s] = set(st)
        for s, v in outs.items():
            old = inn.get(s)
            new = frozenset(v) if old is None else (old | frozenset(v))
            if old is None or new != old:
                inn[s] = new
                if s not in inq:
                    inq.add(s)
                    wl.append(s)
    return before_term, inn


def direct_acquisitions(body):
    live = body.live_blocks()
    out = []
    for c in body.calls:
        if c.bb in live:
            a = acquisition_of(c)
            if a:
                out.append((c, a))
    return out


def may_acquire(prog):
    """body key -> set of (class, mode) the body or anything it reaches may acquire (fixpoint over the call graph)"""
    direct = {}
    for k, b in prog.bodies.items():
        d = {a for _, a in direct_acquisitions(b)}
        if d:
            direct[k] = d
    cg = prog.call_graph()
    acq = {k: set(v) for k, v in direct.items()}
    changed = True
    while changed:
        changed = False
        for k, cs in cg.items():
            cur = acq.get(k, set())
            add = set()
            for c in cs:
                add |= acq.get(c, set())
            if not add <= cur:
                acq[k] = cur | add
                changed = True
    return acq, direct
