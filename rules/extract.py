"""E1 front-end: (re)run the rustc_private fact extractor over a checkout of breard-r/acmed and load the facts.

Facts are cached under /verif/.cache/facts/<profile>-<repo-hash>/ and keyed by a hash of every source
file of the checkout plus the driver binary: a changed tree is always re-extracted, and the three
workspace crates must all be present (cargo's freshness cache silently skips the wrapper otherwise).
"""
import fcntl
import glob
import hashlib
import json
import os
import shutil
import subprocess
import sys
import time

VERIF = os.path.dirname(os.path.dirname(os.path.abspath(__file__)))
CACHE = os.path.join(VERIF, ".cache")
DRIVER_DIR = os.path.join(VERIF, "driver")
DRIVER = os.path.join(DRIVER_DIR, "target", "release", "acmed-facts")
CRATES = {"acmed": "Executable", "tacd": "Executable", "acme_common": "Rlib"}


def repo_path():
    return os.environ.get("ACMED_REPO", "/repo")


def _env():
    env = dict(os.environ)
    env["CARGO_NET_OFFLINE"] = "true"
    env.pop("RUSTC_WRAPPER", None)
    return env


def nightly_sysroot():
    return subprocess.check_output(["rustc", "+nightly", "--print", "sysroot"], env=_env(), text=True).strip()


def build_driver():
    """Build the driver if its binary is missing or older than its source."""
    src = [os.path.join(DRIVER_DIR, "src", "main.rs"), os.path.join(DRIVER_DIR, "Cargo.toml")]
    if os.path.exists(DRIVER) and all(os.path.getmtime(DRIVER) >= os.path.getmtime(s) for s in src):
        return
    r = subprocess.run(["cargo", "+nightly", "build", "--release", "--offline"], cwd=DRIVER_DIR, env=_env(),
                       stdout=subprocess.PIPE, stderr=subprocess.STDOUT, text=True)
    if r.returncode != 0 or not os.path.exists(DRIVER):
        sys.stderr.write(r.stdout)
        raise SystemExit("FATAL: cannot build the fact extractor (driver/)")


def tree_hash(repo):
    h = hashlib.sha256()
    files = []
    for root, dirs, fs in os.walk(repo):
        dirs[:] = sorted(d for d in dirs if d not in (".git", "target"))
        for f in sorted(fs):
            files.append(os.path.join(root, f))
    for p in files:
        try:
            with open(p, "rb") as fh:
                data = fh.read()
        except OSError:
            continue
        h.update(os.path.relpath(p, repo).encode())
        h.update(b"\0")
        h.update(hashlib.sha256(data).digest())
    with open(DRIVER, "rb") as fh:
        h.update(hashlib.sha256(fh.read()).digest())
    return h.hexdigest()


def _run_extraction(repo, profile, out_dir, target_dir):
    sysroot = nightly_sysroot()
    env = _env()
    env["ACMED_FACTS_DIR"] = out_dir
    env["LD_LIBRARY_PATH"] = os.path.join(sysroot, "lib") + ":" + env.get("LD_LIBRARY_PATH", "")
    env["RUSTFLAGS"] = "-Zmir-opt-level=0 -Awarnings"
    env["RUSTC_WORKSPACE_WRAPPER"] = DRIVER
    env["CARGO_TARGET_DIR"] = target_dir
    prof = ["--release"] if profile == "release" else []
    # defeat cargo's freshness cache for the workspace members only (dependencies stay warm)
    subprocess.run(["cargo", "+nightly", "clean", "--offline", "-p", "acmed", "-p", "tacd", "-p", "acme_common"] + prof,
                   cwd=repo, env=env, stdout=subprocess.PIPE, stderr=subprocess.STDOUT)
    r = subprocess.run(["cargo", "+nightly", "check", "--offline", "--workspace"] + prof, cwd=repo, env=env,
                       stdout=subprocess.PIPE, stderr=subprocess.STDOUT, text=True)
    return r


def ensure_facts(profile="dev", repo=None, quiet=False):
    """Return (facts_dir, info). Re-extracts when the tree or the driver changed."""
    repo = repo or repo_path()
    os.makedirs(CACHE, exist_ok=True)
    lock = open(os.path.join(CACHE, "lock"), "w")
    fcntl.flock(lock, fcntl.LOCK_EX)
    try:
        build_driver()
        th = tree_hash(repo)
        tag = hashlib.sha256(os.path.abspath(repo).encode()).hexdigest()[:10]
        out_dir = os.path.join(CACHE, "facts", "%s-%s" % (profile, tag))
        stamp = os.path.join(out_dir, "STAMP")
        fresh = False
        if os.path.exists(stamp) and open(stamp).read().strip() == th:
            if all(glob.glob(os.path.join(out_dir, "%s-%s-*.json" % (c, k))) for c, k in CRATES.items()):
                fresh = True
        info = {"repo": repo, "profile": profile, "tree_hash": th, "reextracted": not fresh}
        if not fresh:
            t0 = time.time()
            shutil.rmtree(out_dir, ignore_errors=True)
            os.makedirs(out_dir)
            target_dir = os.path.join(CACHE, "target")
            r = _run_extraction(repo, profile, out_dir, target_dir)
            missing = [c for c, k in CRATES.items() if not glob.glob(os.path.join(out_dir, "%s-%s-*.json" % (c, k)))]
            if r.returncode != 0 or missing:
                sys.stderr.write(r.stdout[-6000:])
                raise SystemExit("FATAL: fact extraction failed (rc=%s, missing crates: %s): the tree does not compile "
                                 "or the extractor was skipped" % (r.returncode, missing))
            with open(stamp, "w") as fh:
                fh.write(th)
            info["extract_s"] = round(time.time() - t0, 1)
            if not quiet:
                sys.stderr.write("[extract] %s facts for %s re-extracted in %.1fs\n" % (profile, repo, info["extract_s"]))
        return out_dir, info
    finally:
        fcntl.flock(lock, fcntl.LOCK_UN)
        lock.close()


RENAMES = {}     # filled by load_facts: new name -> the anchored name it is treated as (reported in the evidence notes)


def _rename_aliases(crates):
    """A function the rules name (oracles/known_signatures.json) that no longer exists, while exactly one NEW function with the
    same signature exists in the same container (renamed) or with the same name elsewhere (moved): the new one is treated as the
    anchored one. Anything ambiguous is left alone (the rule then reports ANCHOR-MISSING)."""
    here = os.path.dirname(os.path.dirname(os.path.abspath(__file__)))
    try:
        sigs = json.load(open(os.path.join(here, "oracles", "known_signatures.json")))
        known = set(json.load(open(os.path.join(here, "oracles", "known_functions.json"))))
    except Exception:
        return {}
    present = {}
    callers = {}
    for c, data in crates.items():
        for b in data["bodies"]:
            if b["kind"] in ("Fn", "AssocFn") and not b.get("exp"):
                present[b["key"]] = {"inputs": b.get("inputs"), "output": b.get("output"), "is_async": b.get("is_async"), "kind": b["kind"]}
            root = b["key"].split("::{closure")[0]
            for blk in (b.get("body") or {}).get("blocks", []):
                t = blk["term"]
                if t["t"] == "call":
                    for nm in (t.get("res"), t.get("fn")):
                        if nm:
                            callers.setdefault(_strip_generics(nm), set()).add(root)
    missing = [k for k in sigs if k not in present and k.split("::")[0] in crates]
    new = [k for k in present if k not in known]
    out = {}

    def sig(d):
        return {x: d.get(x) for x in ("inputs", "output", "is_async", "kind")}

    def container(k):
        return k.rsplit("::", 1)[0]

    def same_role(n, k):
        """the candidate is used where the vanished function was: they share a direct caller (callers that vanished themselves
        do not count against it). A same-signature function called from elsewhere is a different function, not a rename."""
        old = set(sigs[k].get("callers") or [])
        if not old:
            return True
        now = callers.get(n, set())
        alive = {c for c in old if c in present}
        return bool(now & old) or not alive
    for k in missing:
        cands = [n for n in new if sig(present[n]) == sig(sigs[k]) and container(n) == container(k) and same_role(n, k)]
        rivals = [m for m in missing if sig(sigs[m]) == sig(sigs[k]) and container(m) == container(k)]
        if len(cands) == 1 and len(rivals) == 1:
            out[cands[0]] = k
            continue
        cands = [n for n in new if sig(present[n]) == sig(sigs[k]) and n.rsplit("::", 1)[1] == k.rsplit("::", 1)[1]]
        if len(cands) == 1 and cands[0] not in out:
            out[cands[0]] = k
    return out


def _strip_generics(s):
    from .mir import strip_generics
    return strip_generics(s)


def load_facts(facts_dir):
    import re as _re
    crates = {}
    texts = {}
    for c, k in CRATES.items():
        fs = sorted(glob.glob(os.path.join(facts_dir, "%s-%s-*.json" % (c, k))))
        if not fs:
            raise SystemExit("FATAL: facts of crate %s missing in %s" % (c, facts_dir))
        with open(fs[-1]) as fh:
            texts[c] = fh.read()
        crates[c] = json.loads(texts[c])
    RENAMES.clear()
    al = _rename_aliases(crates)
    if al:
        RENAMES.update(al)
        for c in crates:
            t = texts[c]
            for n, k in al.items():
                t = _re.sub(r"(?<![A-Za-z0-9_])" + _re.escape(n) + r"(?![A-Za-z0-9_])", lambda m, k=k: k, t)
            crates[c] = json.loads(t)
    return crates


if __name__ == "__main__":
    d, info = ensure_facts(sys.argv[1] if len(sys.argv) > 1 else "dev")
    print(d, info)
