"""Check driver: runs the rule set of one property over freshly extracted facts, prints VIOLATION / KNOWN-FINDING lines,
writes evidence/<id>.json and reports/<key>.json, returns the exit code."""
import json
import os
import re
import sys
import time
import traceback

from . import extract
from .mir import AnchorMissing, Program

VERIF = extract.VERIF


class Finding:
    def __init__(self, prop, rule, where, what, key_parts, detail=None):
        self.prop = prop
        self.rule = rule
        self.where = where          # human: file:line (function)
        self.what = what            # one sentence
        # stable key: property/rule/function/role — never a line number
        self.key = "/".join([prop, rule] + [re.sub(r"[^A-Za-z0-9_.:{}#<>\-]", "_", str(k)) for k in key_parts])
        self.detail = detail or {}

    def to_json(self):
        return {"key": self.key, "property": self.prop, "rule": self.rule, "where": self.where, "what": self.what,
                "detail": self.detail}


class Ctx:
    """what a property module gets: the program, helpers to record obligations, findings and samples"""

    def __init__(self, prop, prog, tier, artifacts_root):
        self.prop = prop
        self.prog = prog
        self.tier = tier
        self.repo = artifacts_root
        self.findings = []
        self.rules = {}          # rule id -> {"text":..., "obligations": n, "discharged": n, "instances": [...]}
        self.samples = []
        self.assumptions = []
        self.notes = []

    def rule(self, rid, text):
        pre = getattr(self, "rule_prefix", "")
        if pre:
            rid = pre + rid
            text = "[shared] " + text
        self.rules.setdefault(rid, {"text": text, "obligations": 0, "discharged": 0, "instances": []})
        return rid

    def shared(self, prefix, fn, *args, **kw):
        """run a rule group of ANOTHER property's module inside this check (a mechanism this property depends on): its rule ids are
        prefixed (`C11.R5`) so they do not collide with this property's own"""
        old = getattr(self, "rule_prefix", "")
        self.rule_prefix = prefix + "."
        try:
            return fn(self, *args, **kw)
        finally:
            self.rule_prefix = old

    def _rid(self, rid):
        pre = getattr(self, "rule_prefix", "")
        if rid not in self.rules and pre and (pre + rid) in self.rules:
            return pre + rid
        return rid

    def ok(self, rid, instance):
        rid = self._rid(rid)
        r = self.rules[rid]
        r["obligations"] += 1
        r["discharged"] += 1
        if len(r["instances"]) < 40:
            r["instances"].append(instance)

    def fail(self, rid, where, what, key_parts, detail=None, instance=None):
        rid = self._rid(rid)
        r = self.rules[rid]
        r["obligations"] += 1
        f = Finding(self.prop, rid, where, what, key_parts, detail)
        self.findings.append(f)
        if len(r["instances"]) < 40:
            r["instances"].append("FAILED: " + (instance or what))
        return f

    def floor(self, rid, what, count, minimum):
        """fail closed when a rule sees fewer instances than counted by hand on the pinned tree"""
        if count < minimum:
            self.fail(rid, "-", "instance floor: %s — found %d, expected at least %d (rule would pass vacuously)" %
                      (what, count, minimum), ["floor", what])
            return False
        return True

    def require(self, rid, cond, where, what, key_parts, ok_instance=None, detail=None):
        if cond:
            self.ok(rid, ok_instance or what)
        else:
            self.fail(rid, where, what, key_parts, detail)
        return cond


def run_thorough(prop, module, ctx, repo):
    """thorough tier = quick rules + (a) the same rules over a second extraction with the shipped profile's codegen flags
    (--release: overflow checks and debug assertions off) + (b) checker self-test: every registered single-edit mutant
    and every stored seeded change of this property is applied to a scratch copy of the CURRENT tree and must be
    reported; a miss is printed as SELFTEST-MISS (it says the checker is weak, not that acmed is wrong)."""
    out = {}
    # (a) release profile
    if os.environ.get("VERIF_NESTED") != "1":
        t0 = time.time()
        facts_dir, info = extract.ensure_facts("release", repo)
        prog2 = Program(extract.load_facts(facts_dir))
        ctx2 = Ctx(prop, prog2, "thorough", repo)
        ctx2.extract_info = info
        try:
            module.check(ctx2)
        except AnchorMissing as e:
            ctx2.rule("ANCHOR", "anchors resolve in the release-profile program")
            ctx2.fail("ANCHOR", "-", "ANCHOR-MISSING (release profile): %s" % e, ["anchor-release", str(e)[:80]])
        base = {f.key for f in ctx.findings}
        extra = [f for f in ctx2.findings if f.key not in base]
        for f in extra:
            f.what = "[release profile] " + f.what
            f.key = f.key + "/release"
            ctx.findings.append(f)
        out["release_profile"] = {"overflow_checks": prog2.crates["acmed"].get("overflow_checks"), "bodies": len(prog2.bodies),
                                  "obligations": sum(r["obligations"] for r in ctx2.rules.values()),
                                  "discharged": sum(r["discharged"] for r in ctx2.rules.values()),
                                  "findings_only_in_release": [f.key for f in extra], "wall_s": round(time.time() - t0, 1)}
        # (b) self-test
        from . import selftest
        t0 = time.time()
        os.environ["VERIF_NESTED"] = "1"
        try:
            res = selftest.run_mutants(prop)
            seeds = []
            sd = os.path.join(VERIF, "seeded")
            for d in sorted(os.listdir(sd)) if os.path.isdir(sd) else []:
                mp = os.path.join(sd, d, "meta.json")
                if os.path.exists(mp) and json.load(open(mp)).get("property") == prop:
                    r = selftest.run_patch(prop, os.path.join(sd, d, "patch.diff"))
                    seeds.append({"seed": d, "status": r["status"], "rules": sorted({l.strip().split()[1] for l in r["output"] if l.strip().startswith("rule ")})})
            # (c) negative self-test: the behaviour-preserving refactorings written for this property must NOT be reported
            refs = []
            try:
                limits = json.load(open(os.path.join(VERIF, "refactors", "known_limits.json")))
            except Exception:
                limits = {}
            for sub in (prop, prop + "-r2", prop + "-r3"):
                rd = os.path.join(VERIF, "refactors", sub)
                for f in sorted(os.listdir(rd)) if os.path.isdir(rd) else []:
                    if f.endswith(".diff"):
                        r = selftest.run_patch(prop, os.path.join(rd, f))
                        rid_ = "%s/%s" % (sub, f)
                        st_ = "SILENT" if r["status"] == "MISSED" else ("FALSE-ALARM" if r["status"] == "CAUGHT" else r["status"])
                        if st_ == "FALSE-ALARM" and rid_ in limits:
                            st_ = "KNOWN-LIMIT"
                        refs.append({"refactor": rid_, "status": st_, "rules": sorted({l.strip().split()[1] for l in r["output"] if l.strip().startswith("rule ")}),
                                     "note": limits.get(rid_, "")})
        finally:
            os.environ.pop("VERIF_NESTED", None)
        for r in refs:
            if r["status"] == "KNOWN-LIMIT":
                print("SELFTEST-KNOWN-LIMIT property=%s refactor=%s (%s): %s" % (prop, r["refactor"], r["rules"], r["note"]))
            elif r["status"] != "SILENT":
                print("SELFTEST-FALSE-ALARM property=%s refactor=%s (%s %s)" % (prop, r["refactor"], r["status"], r["rules"]))
        for r in res:
            if r["status"] not in ("CAUGHT", "CAUGHT-OTHER-RULE"):
                print("%s property=%s mutant=%s %s" % (r["status"], prop, r["mutant"], r.get("why", "")))
        for r in seeds:
            if r["status"] != "CAUGHT":
                print("SELFTEST-MISS property=%s seed=%s (%s)" % (prop, r["seed"], r["status"]))
        out["selftest"] = {"mutants": [{"mutant": r["mutant"], "status": r["status"], "rules": r.get("rules", []), "what": r.get("what", "")} for r in res],
                           "seeded": seeds, "refactors_silent": refs, "caught": sum(1 for r in res if r["status"].startswith("CAUGHT")) + sum(1 for r in seeds if r["status"] == "CAUGHT"),
                           "total": len(res) + len(seeds), "wall_s": round(time.time() - t0, 1)}
    return out


def load_known():
    p = os.path.join(VERIF, "known_findings.json")
    if not os.path.exists(p):
        return {}, []
    d = json.load(open(p))
    known = {e["key"]: e for e in d.get("known", [])}
    return known, d.get("fixed", [])


def run_property(prop, module, tier="quick", level="other", extra_cover=None):
    t0 = time.time()
    seed = int(os.environ.get("VERIF_SEED", "0") or 0)
    repo = extract.repo_path()
    out_root = os.environ.get("VERIF_OUT", VERIF)
    out_json = os.path.join(out_root, "evidence", "%s.json" % prop)
    os.makedirs(os.path.dirname(out_json), exist_ok=True)
    os.makedirs(os.path.join(out_root, "reports"), exist_ok=True)
    try:
        os.remove(out_json)
    except OSError:
        pass
    facts_dir, info = extract.ensure_facts("dev", repo)
    prog = Program(extract.load_facts(facts_dir))
    ctx = Ctx(prop, prog, tier, repo)
    ctx.extract_info = info
    for n_, k_ in sorted(extract.RENAMES.items()):
        ctx.notes.append("renamed/moved function: `%s` has the signature of the anchored `%s`, which no longer exists, and is analysed in its place" % (n_, k_))
    crashed = None
    thorough = {}
    try:
        module.check(ctx)
        if tier == "thorough" and hasattr(module, "check_thorough"):
            module.check_thorough(ctx)
        if tier == "thorough":
            thorough = run_thorough(prop, module, ctx, repo)
    except AnchorMissing as e:
        ctx.rule("ANCHOR", "every anchor named by a rule must resolve in the analysed program (fail closed)")
        ctx.fail("ANCHOR", "-", "ANCHOR-MISSING: %s" % e, ["anchor", str(e)[:80]])
    except Exception as e:  # a crashing rule is a broken check, never a pass
        crashed = traceback.format_exc()
        ctx.rule("INTERNAL", "the rule engine must run to completion")
        ctx.fail("INTERNAL", "-", "rule engine error: %r" % e, ["internal", type(e).__name__], {"traceback": crashed})
    known, fixed = load_known()
    violations = []
    known_hits = []
    for f in ctx.findings:
        path = os.path.join(out_root, "reports", re.sub(r"[^A-Za-z0-9_.\-]", "_", f.key)[:180] + ".json")
        with open(path, "w") as fh:
            json.dump(f.to_json(), fh, indent=1)
        if f.key in known:
            known_hits.append(f)
            print("KNOWN-FINDING: property=%s %s [%s]" % (prop, known[f.key].get("what", f.what), f.key))
        else:
            violations.append((f, path))
    for f, path in violations:
        print("VIOLATION property=%s replay=%s" % (prop, os.path.relpath(path, out_root)))
        print("  rule %s @ %s: %s" % (f.rule, f.where, f.what))
    obligations = sum(r["obligations"] for r in ctx.rules.values())
    discharged = sum(r["discharged"] for r in ctx.rules.values())
    nbodies = len(prog.bodies)
    cover = {
        "explanation": "static analysis of the type-checked program (pre-borrowck MIR of every body of the 3 workspace "
                       "crates, extracted by a rustc_private driver under the real cargo build) and of shipped artifacts; "
                       "each rule below is decided over all CFG paths / all call sites at once; no code of acmed was run",
        "obligations": obligations,
        "discharged": discharged,
        "checker_cmd": "bin/check %s --tier %s" % (prop, tier),
        "trusted_base": ["rustc nightly MIR construction and name resolution", "driver/src/main.rs (fact extractor)",
                         "rules/mir.py (CFG, dominators, flow)", "third-party crates behave as documented"],
        "analysed": {"crates": sorted(prog.crates.keys()), "bodies": nbodies, "adts": len(prog.adts),
                     "tree_hash": info["tree_hash"], "reextracted": info["reextracted"], "repo": repo},
        "rules": {rid: {"rule": r["text"], "obligations": r["obligations"], "discharged": r["discharged"],
                        "instances": r["instances"]} for rid, r in ctx.rules.items()},
        "samples": ctx.samples[:60] or [i for r in ctx.rules.values() for i in r["instances"][:3]][:60],
        "evaluations": max(obligations, 1),
        "distinct_nontrivial": max(len({i for r in ctx.rules.values() for i in map(str, r["instances"])}), 2),
        "rule": "one evaluation per rule instance (call site / path obligation / table row); distinct = distinct instance texts",
        "known_findings_matched": [f.key for f in known_hits],
        "notes": ctx.notes,
    }
    if extra_cover:
        cover.update(extra_cover)
    if thorough:
        cover["thorough"] = thorough
    ev = {
        "property_id": prop,
        "tier": tier,
        "seed": seed,
        "level": level,
        "coverage": cover,
        "assumptions": ctx.assumptions or ["see DESIGN.md section 3"],
        "wall_s": round(time.time() - t0, 2),
        "violations": len(violations),
    }
    with open(out_json, "w") as fh:
        json.dump(ev, fh, indent=1)
    print("%s: %d rule(s), %d obligation(s), %d discharged, %d known finding(s), %d violation(s) [%s tier, %.1fs]" %
          (prop, len(ctx.rules), obligations, discharged, len(known_hits), len(violations), tier, time.time() - t0))
    return 1 if violations else 0
