"""Shared rule helpers built on mir.py / flow.py."""
from .mir import CallSite, op_const, op_local, op_place, strip_generics, AnchorMissing
from .flow import origins

POLL = "core::future::future::Future::poll"


def bool_edges(body, bb):
    """for a switch on a bool at bb: (true_target, false_target); None when bb is not such a switch"""
    t = body.term(bb)
    if t["t"] != "switch":
        return None
    f = None
    tr = None
    for v, tgt in t["arms"]:
        if v == 0:
            f = tgt
        elif v == 1:
            tr = tgt
    if tr is None:
        tr = t["otherwise"]
    if f is None:
        f = t["otherwise"]
    return tr, f


def switches_on(body, local, transparent_calls=()):
    """switch blocks whose discriminant is `local` or a move/copy/not-free copy of it; returns [(bb, negated)]"""
    out = []
    # forward through plain moves and `Not`
    carried = {local: False}
    changed = True
    while changed:
        changed = False
        for i, b in enumerate(body.blocks):
            if b.get("cleanup"):
                continue
            for st in b["stmts"]:
                if st["s"] != "assign" or st["lhs"]["p"]:
                    continue
                rv = st["rv"]
                tgt = st["lhs"]["l"]
                if tgt in carried:
                    continue
                if rv["k"] == "use":
                    l = op_local(rv["op"])
                    if l in carried and not op_place(rv["op"])["p"]:
                        carried[tgt] = carried[l]
                        changed = True
                elif rv["k"] == "unop" and rv["op"] == "Not":
                    l = op_local(rv["a"])
                    if l in carried:
                        carried[tgt] = not carried[l]
                        changed = True
    for i, b in enumerate(body.blocks):
        if b.get("cleanup"):
            continue
        t = b["term"]
        if t["t"] == "switch":
            l = op_local(t["discr"])
            if l in carried:
                out.append((i, carried[l]))
    return out


def call_true_false_edges(body, cs):
    """edges taken when the bool returned by call `cs` is true / false: ([(bb,target)], [(bb,target)])"""
    if cs.dest is None:
        return [], []
    tr, fl = [], []
    for bb, neg in switches_on(body, cs.dest["l"]):
        e = bool_edges(body, bb)
        if e is None:
            continue
        t, f = e
        if neg:
            t, f = f, t
        tr.append((bb, t))
        fl.append((bb, f))
    return tr, fl


def unreachable_without(body, targets, removed_nodes=(), removed_edges=(), start=0):
    """True when none of `targets` is reachable from start once the nodes/edges are removed (must-pass-through)."""
    r = body.reachable(start, removed_nodes, removed_edges)
    return not (set(targets) & r), sorted(set(targets) & r)


def polls(body, coroutine_suffix_or_key):
    """live poll sites in `body` that resolve to the given coroutine (exact key, or `fn_key` + ::{closure#0})"""
    live = body.live_blocks()
    out = []
    for c in body.calls:
        if c.fn != POLL or c.bb not in live or c.res is None:
            continue
        if c.res == coroutine_suffix_or_key or c.res == coroutine_suffix_or_key + "::{closure#0}":
            out.append(c)
    return out


def awaited_calls(body):
    """all live (poll site, resolved coroutine key) pairs"""
    live = body.live_blocks()
    return [(c, c.res) for c in body.calls if c.fn == POLL and c.bb in live]


def assigns_const_to(body, local, pred):
    """blocks containing `local = const c` with pred(c) true"""
    out = []
    for i, b in enumerate(body.blocks):
        if b.get("cleanup"):
            continue
        for st in b["stmts"]:
            if st["s"] == "assign" and st["lhs"]["l"] == local and not st["lhs"]["p"] and st["rv"]["k"] == "use":
                c = op_const(st["rv"]["op"])
                if c is not None and pred(c):
                    out.append(i)
    return out


def agg_assigns(body, adt=None, variant=None, kind="adt"):
    """(bb, stmt) of aggregate constructions of the given ADT/variant"""
    out = []
    for i, b in enumerate(body.blocks):
        if b.get("cleanup"):
            continue
        for st in b["stmts"]:
            if st["s"] == "assign" and st["rv"]["k"] == "agg" and st["rv"].get("agg") == kind:
                if adt is not None and strip_generics(st["rv"].get("adt")) != adt:
                    continue
                if variant is not None and st["rv"].get("variant") != variant:
                    continue
                out.append((i, st))
    return out


def result_return_kinds(body):
    """Classify return paths of a function returning Result: blocks where `_0 = Ok(..)` / `_0 = Err(..)` are built,
    plus calls that write _0 directly (from_residual = error propagation; others = forwarded result)."""
    ok_blocks, err_blocks, fwd = [], [], []
    for i, b in enumerate(body.blocks):
        if b.get("cleanup"):
            continue
        for st in b["stmts"]:
            if st["s"] == "assign" and st["lhs"]["l"] == 0 and st["rv"]["k"] == "agg" and st["rv"].get("agg") == "adt":
                a = strip_generics(st["rv"]["adt"])
                v = st["rv"]["variant"]
                if v in ("Ok",):
                    ok_blocks.append(i)
                elif v in ("Err",):
                    err_blocks.append(i)
                elif v == "Ready":
                    fwd.append(i)
        t = b["term"]
        if t["t"] == "call" and t.get("dest") and t["dest"]["l"] == 0 and not t["dest"]["p"]:
            cs = CallSite(body, i, t)
            if cs.fn == "core::ops::try_trait::FromResidual::from_residual":
                err_blocks.append(i)
            else:
                fwd.append(i)
    return ok_blocks, err_blocks, fwd


def where(body, bb):
    t = body.term(bb)
    return "%s:%s (%s bb%d)" % (body.file_of(bb), t.get("line"), body.key, bb)


def fmt_call(cs):
    return "%s @%s:%s" % (cs.name, cs.body.file_of(cs.bb), cs.line)
