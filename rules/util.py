"""Shared rule helpers built on mir.py / flow.py."""
from .mir import CallSite, op_const, op_local, op_place, strip_generics, AnchorMissing
from .flow import origins

POLL = "core::future::future::Future::poll"


def bool_edges(body, bb):
    """for a switch on a bool at bb: (true_target, false_target); None when bb is not such a switch"""
    t = body.term(bb)
    if t["t"] != "switch":
        return None
    f = None
    tr = None
    for v, tgt in t["arms"]:
        if v == 0:
            f = tgt
        elif v == 1:
            tr = tgt
    if tr is None:
        tr = t["otherwise"]
    if f is None:
        f = t["otherwise"]
    return tr, f


def switches_on(body, local, transparent_calls=()):
    """switch blocks whose discriminant is `local` or a move/copy/negation of it — also through a field of a state
    struct (`S.k = x; .. y = S.k`, the way an inlined async helper receives its arguments); returns [(bb, negated)]"""
    out = []
    carried = {("l", local): False}
    changed = True
    while changed:
        changed = False
        for i, b in enumerate(body.blocks):
            if b.get("cleanup"):
                continue
            for st in b["stmts"]:
                if st["s"] != "assign":
                    continue
                rv = st["rv"]
                lp = st["lhs"]["p"]
                if not lp:
                    tgt = ("l", st["lhs"]["l"])
                elif len(lp) == 1 and isinstance(lp[0], dict) and "f" in lp[0]:
                    tgt = ("f", st["lhs"]["l"], lp[0]["f"])
                else:
                    continue
                if tgt in carried:
                    continue
                if rv["k"] == "use":
                    pl = op_place(rv["op"])
                    if pl is None:
                        continue
                    pp = [e for e in pl["p"] if e != "*"]
                    if not pp:
                        src = ("l", pl["l"])
                    elif len(pp) == 1 and isinstance(pp[0], dict) and "f" in pp[0]:
                        src = ("f", pl["l"], pp[0]["f"])
                    else:
                        continue
                    if src in carried:
                        carried[tgt] = carried[src]
                        changed = True
                elif rv["k"] == "unop" and rv["op"] == "Not":
                    l = op_local(rv["a"])
                    if ("l", l) in carried and tgt[0] == "l":
                        carried[tgt] = not carried[("l", l)]
                        changed = True
    for i, b in enumerate(body.blocks):
        if b.get("cleanup"):
            continue
        t = b["term"]
        if t["t"] == "switch":
            l = op_local(t["discr"])
            if ("l", l) in carried:
                out.append((i, carried[("l", l)]))
    return out


def call_true_false_edges(body, cs):
    """edges taken when the bool returned by call `cs` is true / false: ([(bb,target)], [(bb,target)])"""
    if cs.dest is None:
        return [], []
    tr, fl = [], []
    for bb, neg in switches_on(body, cs.dest["l"]):
        e = bool_edges(body, bb)
        if e is None:
            continue
        t, f = e
        if neg:
            t, f = f, t
        tr.append((bb, t))
        fl.append((bb, f))
    return tr, fl


def unreachable_without(body, targets, removed_nodes=(), removed_edges=(), start=0, flags=False):
    """True when none of `targets` is reachable from start once the nodes/edges are removed (must-pass-through).
    flags=True uses the flag/variant-tag sensitive reachability (fewer infeasible paths, same soundness)."""
    r = body.reachable_flags(start, removed_nodes, removed_edges) if flags else body.reachable(start, removed_nodes, removed_edges)
    return not (set(targets) & r), sorted(set(targets) & r)


def polls(body, coroutine_suffix_or_key):
    """live poll sites in `body` that resolve to the given coroutine (exact key, or `fn_key` + ::{closure#0})"""
    live = body.live_blocks()
    out = []
    for c in body.calls:
        if c.fn != POLL or c.bb not in live or c.res is None:
            continue
        if c.res == coroutine_suffix_or_key or c.res == coroutine_suffix_or_key + "::{closure#0}":
            out.append(c)
    return out


def awaited_calls(body):
    """all live (poll site, resolved coroutine key) pairs"""
    live = body.live_blocks()
    return [(c, c.res) for c in body.calls if c.fn == POLL and c.bb in live]


def assigns_const_to(body, local, pred):
    """blocks containing `local = const c` with pred(c) true"""
    out = []
    for i, b in enumerate(body.blocks):
        if b.get("cleanup"):
            continue
        for st in b["stmts"]:
            if st["s"] == "assign" and st["lhs"]["l"] == local and not st["lhs"]["p"] and st["rv"]["k"] == "use":
                c = op_const(st["rv"]["op"])
                if c is not None and pred(c):
                    out.append(i)
    return out


def agg_assigns(body, adt=None, variant=None, kind="adt"):
    """(bb, stmt) of aggregate constructions of the given ADT/variant"""
    out = []
    for i, b in enumerate(body.blocks):
        if b.get("cleanup"):
            continue
        for st in b["stmts"]:
            if st["s"] == "assign" and st["rv"]["k"] == "agg" and st["rv"].get("agg") == kind:
                if adt is not None and strip_generics(st["rv"].get("adt")) != adt:
                    continue
                if variant is not None and st["rv"].get("variant") != variant:
                    continue
                out.append((i, st))
    return out


def result_return_kinds(body):
    """Classify return paths of a function returning Result: blocks where `_0 = Ok(..)` / `_0 = Err(..)` are built,
    plus calls that write _0 directly (from_residual = error propagation; others = forwarded result)."""
    ok_blocks, err_blocks, fwd = [], [], []
    for i, b in enumerate(body.blocks):
        if b.get("cleanup"):
            continue
        for st in b["stmts"]:
            if st["s"] == "assign" and st["lhs"]["l"] == 0 and st["rv"]["k"] == "agg" and st["rv"].get("agg") == "adt":
                a = strip_generics(st["rv"]["adt"])
                v = st["rv"]["variant"]
                if v in ("Ok",):
                    ok_blocks.append(i)
                elif v in ("Err",):
                    err_blocks.append(i)
                elif v == "Ready":
                    fwd.append(i)
            elif st["s"] == "assign" and st["lhs"]["l"] == 0 and not st["lhs"]["p"] and st["rv"]["k"] == "use" and op_place(st["rv"]["op"]) is not None:
                # `_0 = move x`: a result computed elsewhere (e.g. by an inlined helper) is forwarded
                fwd.append(i)
        t = b["term"]
        if t["t"] == "call" and t.get("dest") and t["dest"]["l"] == 0 and not t["dest"]["p"]:
            cs = CallSite(body, i, t)
            if cs.fn == "core::ops::try_trait::FromResidual::from_residual":
                err_blocks.append(i)
            else:
                fwd.append(i)
    return ok_blocks, err_blocks, fwd


def ok_producers(body, local=0):
    """blocks where a non-error value that may become the function's result is produced: `x = Ok(..)`/`Some(..)` aggregates and
    non-propagating calls, followed backwards through plain moves (`_0 = move r` after an inlined helper) from `local`"""
    out, seen, work = [], set(), [local]
    while work:
        l = work.pop()
        if l in seen:
            continue
        seen.add(l)
        for kind, bb, j, x in body.defs.get(l, []):
            if bb not in body.live_blocks():
                continue
            if kind == "stmt" and x["s"] == "assign" and not x["lhs"]["p"]:
                rv = x["rv"]
                if rv["k"] == "agg":
                    if rv.get("variant") in ("Err", "None"):
                        continue
                    out.append(bb)
                elif rv["k"] == "use" and op_place(rv["op"]) is not None and not op_place(rv["op"])["p"]:
                    work.append(op_place(rv["op"])["l"])
                else:
                    out.append(bb)
            elif kind == "call":
                if (x.get("fn") or "").endswith("FromResidual::from_residual"):
                    continue
                out.append(bb)
    return sorted(set(out))


def where(body, bb):
    t = body.term(bb)
    return "%s:%s (%s bb%d)" % (body.file_of(bb), t.get("line"), body.key, bb)


def fmt_call(cs):
    return "%s @%s:%s" % (cs.name, cs.body.file_of(cs.bb), cs.line)


def bool_locals_from(body, pred):
    """user-visible or temporary bool locals whose provenance satisfies pred(Slice) — used to DISCOVER flags by what
    they mean instead of by their name"""
    out = []
    for l, d in enumerate(body.locals):
        if d["ty"] != "bool" or l == 0:
            continue
        if not body.defs.get(l):
            continue
        sl = origins(body, l)
        try:
            if pred(sl):
                out.append(l)
        except Exception:
            pass
    return out


def effective_callers(prog, key, _seen=None):
    """callers of `key` as ORIGINAL functions: a caller that is a new helper (not in oracles/known_functions.json) is
    replaced by its own callers, transitively"""
    from .inline import is_anchored
    _seen = _seen or set()
    out = set()
    for c in prog.callers_of(key):
        base = c.split("::{closure")[0]
        if base in _seen:
            continue
        if is_anchored(base):
            out.add(base)
        else:
            out |= effective_callers(prog, base, _seen | {base})
    return out


def effective_owner(prog, body_key):
    """the original function(s) a body belongs to: itself when original, else the original functions reaching it"""
    from .inline import is_anchored
    base = body_key.split("::{closure")[0]
    if is_anchored(base):
        return {base}
    return effective_callers(prog, base)


def enum_edges(body, field, variant_name):
    """edges to REMOVE so that only paths consistent with `<x>.<field> == variant_name` remain. Tests recognised:
    a switch on `discriminant(p)` where p reads the field (match / if let), and `PartialEq::eq/ne(p, const Variant)`.
    field = (adt, field name). Returns (removed_edges, n_tests)."""
    removed = []
    tests = 0
    for i in body.live_blocks():
        t = body.term(i)
        if t["t"] != "switch":
            continue
        dl = op_local(t["discr"])
        src = None
        for kind, bb, j, st in body.defs.get(dl, []):
            if kind == "stmt" and st["s"] == "assign" and st["rv"]["k"] == "discr":
                src = st["rv"]
        if src is None:
            continue
        pl = src["place"]
        direct = [e for e in pl["p"] if isinstance(e, dict) and "f" in e and "n" in e]
        if direct:
            hit = strip_generics(direct[-1].get("adt") or "") == field[0] and direct[-1].get("n") == field[1]
        else:
            hit = field in origins(body, pl).fields
        if not hit:
            continue
        names = {int(v[0]): v[1] for v in src.get("variants", [])}
        if variant_name not in names.values():
            continue
        tests += 1
        listed = False
        for v, tgt in t["arms"]:
            if names.get(v) == variant_name:
                listed = True
            else:
                removed.append((i, tgt))
        if listed:
            removed.append((i, t["otherwise"]))
        # an arm target shared with the kept one must stay reachable
        keep = [tgt for v, tgt in t["arms"] if names.get(v) == variant_name] or [t["otherwise"]]
        removed = [e for e in removed if not (e[0] == i and e[1] in keep)]
    for cs in body.calls:
        if cs.fn not in ("core::cmp::PartialEq::eq", "core::cmp::PartialEq::ne") or len(cs.args) != 2 or cs.bb not in body.live_blocks():
            continue
        from .flow import arg_origins
        sides = [arg_origins(cs, 0), arg_origins(cs, 1)]
        fld = [k for k in (0, 1) if field in sides[k].fields]
        if len(fld) != 1:
            continue
        other = sides[1 - fld[0]]
        cv = {x.get("variant") or str(x.get("pp", "")).rsplit("::", 1)[-1] for x in other.consts}
        cv.discard(None)
        if len(cv) != 1:
            continue
        tests += 1
        truth = (variant_name in cv) == cs.fn.endswith("::eq")
        tr, fl = call_true_false_edges(body, cs)
        removed += fl if truth else tr
    # `x.field.is_some()` / `is_none()` / `is_ok()` / `is_err()` for the Option/Result variants
    if variant_name in ("Some", "None", "Ok", "Err"):
        from .flow import arg_origins as _ao
        for cs in body.calls:
            m = (cs.fn or "").rsplit("::", 1)[-1]
            if m not in ("is_some", "is_none", "is_ok", "is_err") or not cs.args or cs.bb not in body.live_blocks():
                continue
            if field not in _ao(cs, 0).fields:
                continue
            tests += 1
            truth = {"is_some": variant_name == "Some", "is_none": variant_name == "None", "is_ok": variant_name == "Ok", "is_err": variant_name == "Err"}[m]
            tr, fl = call_true_false_edges(body, cs)
            removed += fl if truth else tr
    return removed, tests


def flag_switches(body, pred):
    """bool switches whose tested value's provenance satisfies pred(Slice): ([true edges], [false edges]). A flag is found by
    what it MEANS (where its value comes from), not by the name of the local that holds it. A `!` on the way swaps the edges."""
    tr, fl = [], []
    for i in sorted(body.live_blocks()):
        t = body.term(i)
        if t["t"] != "switch" or t.get("dty") != "bool":
            continue
        sl = origins(body, t["discr"])
        try:
            if not pred(sl):
                continue
        except Exception:
            continue
        te, fe = bool_edges(body, i)
        nots = 0
        # count negations on the direct move chain only
        l = op_local(t["discr"])
        seen = set()
        while l is not None and l not in seen:
            seen.add(l)
            ds = [d for d in body.defs.get(l, []) if d[0] == "stmt" and d[3]["s"] == "assign"]
            if len(ds) != 1:
                break
            rv = ds[0][3]["rv"]
            if rv["k"] == "unop" and rv["op"] == "Not":
                nots += 1
                l = op_local(rv["a"])
            elif rv["k"] == "use" and op_place(rv["op"]) is not None and not op_place(rv["op"])["p"]:
                l = op_local(rv["op"])
            else:
                break
        if nots % 2:
            te, fe = fe, te
        tr.append((i, te))
        fl.append((i, fe))
    return tr, fl


def latch_flags(body, after_blocks):
    """bool locals used as a one-shot latch: initialised to one value, set to the other (`fired`) in a block reachable from
    `after_blocks`, and tested by a switch. Both polarities (`done = false .. done = true`, `allowed = true .. allowed = false`).
    Returns {local: (set_blocks, fired_edges, unfired_edges)} — discovered by role, not by name."""
    out = {}
    after = body.reachable(list(after_blocks)) if after_blocks else set()
    for l, d in enumerate(body.locals):
        if d["ty"] != "bool" or l == 0:
            continue
        for fired in (True, False):
            sets = [x for x in assigns_const_to(body, l, lambda c: c.get("bool") is fired) if x in after]
            inits = [x for x in assigns_const_to(body, l, lambda c: c.get("bool") is (not fired)) if x not in after or x not in sets]
            if not sets or not inits or l in out:
                continue
            # an assignment of the initial value reachable from the firing point would re-arm the latch
            if any(x in after for x in inits):
                continue
            tr, fl = [], []
            for sbb, neg in switches_on(body, l):
                e = bool_edges(body, sbb)
                if e is None:
                    continue
                t, f = e
                if neg:
                    t, f = f, t
                if not fired:
                    t, f = f, t
                tr.append((sbb, t))
                fl.append((sbb, f))
            if tr:
                out[l] = (sets, tr, fl)
    return out


def deep_fields(prog, sl, depth=2):
    """ADT fields on a slice, including those read inside the closures the slice passes through (`opt.and_then(|g| g.field)`)"""
    out = set(sl.fields)
    if depth <= 0:
        return out
    for l in sl.leaves_like("closure:"):
        cb = prog.body(l[8:])
        if cb is None:
            continue
        out |= deep_fields(prog, origins(cb, {"l": 0, "p": []}), depth - 1)
    return out
