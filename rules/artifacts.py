"""E3 — analysers of shipped artifacts: default_hooks.toml (MiniJinja templates), mdoc man pages, tacd's CLI definition.

Templates are tokenised into literal and `{{ expression }}` parts; an expression is `path [| filter(args)]*` where
path = ident(.ident)*; anything outside that subset (statements `{% %}`, nested calls, arithmetic) fails closed."""
import os
import re
import tomllib

EXPR = re.compile(r"^\s*([A-Za-z_][A-Za-z0-9_]*(?:\.[A-Za-z_][A-Za-z0-9_]*)*)\s*((?:\|\s*[a-z_]+\s*(?:\([^()]*\))?\s*)*)$")
FILTER = re.compile(r"\|\s*([a-z_]+)\s*(?:\(([^()]*)\))?")


class TemplateError(Exception):
    pass


def tokenize(tpl):
    """-> list of ('lit', text) | ('var', path, [(filter, arg)])"""
    out = []
    i = 0
    while i < len(tpl):
        j = tpl.find("{{", i)
        if "{%" in tpl[i:] or "{#" in tpl[i:]:
            raise TemplateError("statement/comment block in template %r" % tpl)
        if j < 0:
            out.append(("lit", tpl[i:]))
            break
        if j > i:
            out.append(("lit", tpl[i:j]))
        k = tpl.find("}}", j)
        if k < 0:
            raise TemplateError("unterminated expression in %r" % tpl)
        m = EXPR.match(tpl[j + 2:k])
        if not m:
            raise TemplateError("expression outside the supported subset: %r" % tpl[j:k + 2])
        filters = [(f, (a or "").strip()) for f, a in FILTER.findall(m.group(2) or "")]
        out.append(("var", m.group(1), filters))
        i = k + 2
    return out


def render_symbolic(tpl, env_defined=()):
    """canonical form of a template where variables are kept symbolic; env.X with a default literal is rendered as
    ${X:-default}; used to compare two templates for identity of the path they denote"""
    parts = []
    for t in tokenize(tpl):
        if t[0] == "lit":
            parts.append(t[1])
        else:
            path, filters = t[1], t[2]
            d = [a for f, a in filters if f == "default"]
            parts.append("${%s%s}" % (path, (":-" + d[0]) if d else ""))
    return "".join(parts)


def variables(tpl):
    return [(t[1], t[2]) for t in tokenize(tpl) if t[0] == "var"]


def load_default_hooks(repo):
    p = os.path.join(repo, "acmed", "config", "default_hooks.toml")
    return tomllib.load(open(p, "rb")), p


def hook_templates(h):
    """all template-bearing strings of a hook table: (role, template)"""
    out = []
    for i, a in enumerate(h.get("args", []) or []):
        out.append(("args[%d]" % i, a))
    for k in ("stdin", "stdin_str", "stdout", "stderr"):
        if k in h:
            out.append((k, h[k]))
    return out


def man_sections(path):
    """mdoc: {section title: [lines]}"""
    secs = {}
    cur = None
    for line in open(path, encoding="utf-8", errors="replace"):
        line = line.rstrip("\n")
        if line.startswith(".Sh "):
            cur = line[4:].strip()
            secs[cur] = []
        elif cur is not None:
            secs[cur].append(line)
    return secs


def man_hook_variables(repo):
    """{hook type: [template variables documented]} from acmed.toml.5 'WRITING A HOOK' (types that refer to another type
    for their variables have an empty list)"""
    path = os.path.join(repo, "man", "en", "acmed.toml.5")
    lines = man_sections(path).get("WRITING A HOOK", [])
    out = {}
    cur = None
    depth = 0
    in_types = False
    for ln in lines:
        if ln.startswith(".Bl"):
            depth += 1
            if depth == 1:
                in_types = True
            continue
        if ln.startswith(".El"):
            depth -= 1
            continue
        if in_types and depth == 1 and ln.startswith(".It Ic "):
            cur = ln.split()[2]
            out[cur] = []
        elif in_types and depth == 2 and ln.startswith(".It Cm ") and cur:
            out[cur].append(ln.split()[2])
    return out, path


def man_default_hooks(repo):
    """DEFAULT HOOKS section: {group name: {'env': [vars], 'paths': [.Pa strings], 'text': str}}"""
    path = os.path.join(repo, "man", "en", "acmed.toml.5")
    lines = man_sections(path).get("DEFAULT HOOKS", [])
    out = {}
    cur = None
    for ln in lines:
        if ln.startswith(".It Pa "):
            cur = ln[7:].strip()
            out[cur] = {"env": [], "paths": [], "text": []}
        elif cur:
            if ln.startswith(".Ev "):
                out[cur]["env"].append(ln.split()[1])
            elif ln.startswith(".Pa "):
                out[cur]["paths"].append(ln[4:].strip().rstrip(" .").strip())
            out[cur]["text"].append(ln)
    return out, path


def tacd_cli(prog):
    """long option names and value names declared with clap in tacd::main (from MIR constants)"""
    b = prog.body("tacd::main")
    longs = {}
    if b is None:
        return longs
    cur = None
    from .mir import op_const
    for c in sorted(b.calls, key=lambda c: c.bb):
        nm = c.name or ""
        strs = [b.const_of(a).get("str") for a in c.args if op_const(a) and b.const_of(a) and "str" in b.const_of(a)]
        if nm.endswith("::Arg::new") and strs:
            cur = {"id": strs[0]}
        elif nm.endswith("::Arg::long") and strs and cur is not None:
            cur["long"] = strs[0]
            longs[strs[0]] = cur
        elif nm.endswith("::Arg::value_name") and strs and cur is not None:
            cur["value_name"] = strs[0]
        elif nm.endswith("::Arg::num_args") and cur is not None:
            cur["takes_value"] = True
    return longs
