"""C18 — ACME requests go only to endpoints whose TLS certificate is trusted.

Decided:
  R1 who-may-build: reqwest clients are built only in http::get_client; nowhere in the workspace is certificate or
     host-name verification disabled or the built-in trust store removed (expected-zero rule with a positive control);
  R2 get and post send with a client obtained, in the same call, from get_client(&endpoint.root_certificates) of their
     own endpoint parameter; get_client returns a client freshly built from ITS argument (no cached/static client);
  R3 get_client adds every listed file: each is opened, read, parsed as PEM and added; any failure leaves the function
     through the error edge (a bad file is never skipped);
  R4 the endpoint's root list is command line ++ endpoint ++ global, the command-line list comes from --root-cert.
"""
from ..flow import arg_origins, origins
from ..mir import try_edges
from ..util import agg_assigns, deep_fields, polls, result_return_kinds, unreachable_without, where
from .http_common import GET, POST, SEND

LEVEL = "other"
TECHNIQUE = ("who-may-call over resolved callees (client construction, danger_* switches) + provenance of the client used by "
             "each send + must-pass-through / error-edge rules on get_client's loop + provenance of the root-certificate list")
LEVEL_TEXT = ("Decides, for every endpoint and configuration, that the only HTTP clients are built by get_client with default "
              "verification plus exactly the configured roots of the endpoint being contacted, that a bad root file fails the "
              "attempt, and how the root list is assembled. Chain and host-name validation itself is reqwest/native-tls "
              "(trusted).")
LEVEL_NOTE = ("Not decided: the TLS library's validation, expiry handling. Trusted: rustc MIR, extractor, reqwest defaults "
              "(verification on, system roots kept).")

GC = "acmed::http::get_client"
DANGER = ("*danger_accept_invalid_certs", "*danger_accept_invalid_hostnames", "*tls_built_in_root_certs", "*use_preconfigured_tls",
          "*native_tls::TlsConnector::builder", "*TlsConnectorBuilder", "*use_rustls_tls", "*min_tls_version", "*http1_only_insecure",
          "*set_verify", "*danger_")
BUILD = ("reqwest::async_impl::client::ClientBuilder::new", "reqwest::async_impl::client::ClientBuilder::build",
         "reqwest::async_impl::client::Client::new", "reqwest::async_impl::client::Client::builder", "reqwest::get",
         "reqwest::blocking::client::ClientBuilder::new", "reqwest::blocking::client::Client::new", "reqwest::blocking::get")
CACHES = ("OnceLock", "OnceCell", "LazyLock", "Lazy", "lazy_static", "thread_local", "Mutex", "RwLock")


def check(ctx):
    prog = ctx.prog
    R1 = ctx.rule("R1", "reqwest clients are built only in http::get_client; no verification-weakening switch is used anywhere in acmed")
    builds = prog.all_calls_to(*BUILD, crates=("acmed", "acme_common"), include_derive=True)
    ctx.floor(R1, "client construction call sites", len(builds), 2)
    for c in builds:
        ctx.require(R1, c.body.key == GC, c.where(), "%s in %s" % (c.name.rsplit("::", 2)[-2] + "::" + c.name.rsplit("::", 1)[-1], c.body.key),
                    [c.body.key.split("::{closure")[0], "client-built-elsewhere"])
    bad = prog.all_calls_to(*DANGER, crates=("acmed", "acme_common"), include_derive=True)
    for c in bad:
        ctx.fail(R1, c.where(), "TLS verification weakened: %s" % c.name, [c.body.key.split("::{closure")[0], "danger", c.name.rsplit("::", 1)[-1]])
    if not bad:
        ctx.ok(R1, "0 calls to %d verification-weakening APIs" % len(DANGER))
    ctrl = prog.all_calls_to("*add_root_certificate", crates=("acmed",))
    ctx.floor(R1, "positive control (add_root_certificate matched by the same engine)", len(ctrl), 1)

    R2 = ctx.rule("R2", "each send uses a client from get_client(&endpoint.root_certificates) of the function's own endpoint; get_client returns the client it just built from its argument")
    for key in (GET, POST):
        b = prog.async_body(key)
        sends = b.calls_to(*SEND)
        ctx.floor(R2, "send in %s" % key, len(sends), 1)
        for c in sends:
            sl = arg_origins(c, 0)
            gcs = [x for x in sl.calls if x.is_(GC)]
            ctx.require(R2, bool(gcs), c.where(), "the request sent derives from a client returned by get_client in this call", [key, "client-origin"])
            for g in gcs:
                a = arg_origins(g, 0)
                ctx.require(R2, ("acmed::endpoint::Endpoint", "root_certificates") in a.fields and a.has_leaf("upvar:0"), g.where(),
                            "get_client receives endpoint.root_certificates of this function's endpoint parameter", [key, "roots-argument"])
    gb = prog.must_body(GC)
    okb, errb, fwd = result_return_kinds(gb)
    ctx.floor(R2, "Ok(client) result in get_client", len(okb), 1)
    for i, st in agg_assigns(gb, "core::result::Result", "Ok"):
        if st["lhs"]["l"] != 0:
            continue
        sl = origins(gb, st["rv"]["ops"][0])
        fresh = any(x.is_("reqwest::async_impl::client::ClientBuilder::build") for x in sl.calls)
        cached = [v for v in sl.via if any(cw in v for cw in CACHES)] + [l for l in sl.leaves if l.startswith("const:") and any(cw in l for cw in CACHES)]
        statics = [cst for cst in sl.consts if "static" in str(cst.get("ty", "")) or any(cw in str(cst.get("ty", "")) for cw in CACHES)]
        ctx.require(R2, fresh and not cached and not statics, where(gb, i),
                    "the returned client is the one built in this call (no cached/static client: %s)" % (cached or statics or "none"), [GC, "cached-client"])
        ctx.require(R2, sl.has_leaf("param:1"), where(gb, i), "the returned client depends on the root_certs argument", [GC, "ignores-argument"])
    for b in prog.user_bodies(("acmed",)):
        for blk in b.blocks:
            for st in blk["stmts"]:
                if st["s"] == "assign" and st["rv"]["k"] == "tls":
                    pass
    # statics of type Client anywhere in acmed
    for k, c in prog.consts.items():
        if "reqwest" in c.get("ty", ""):
            ctx.fail(R2, k, "a constant/static holds a reqwest value: %s" % c.get("ty"), [k, "static-client"])

    R3 = ctx.rule("R3", "get_client opens, reads, parses and adds every listed root file; any failure is an error (never skipped)")
    nx = [c for c in gb.calls_to("core::iter::traits::iterator::Iterator::next") if arg_origins(c, 0).has_leaf("param:1")]
    # the same loop as an error-propagating internal iteration: root_certs.iter().try_fold(builder, |b, file| { load(file)?; Ok(b.add(..)) })
    tf = [c for c in gb.calls if c.bb in gb.live_blocks() and (c.fn or "").rsplit("::", 1)[-1] in ("try_fold", "try_for_each") and arg_origins(c, 0).has_leaf("param:1")]
    ctx.floor(R3, "loop over root_certs in get_client", len(nx) + len(tf), 1)
    steps = [("std::fs::File::open", "open"), ("std::io::Read::read_to_end", "read"), ("reqwest::tls::Certificate::from_pem", "parse")]
    for c in ([] if nx else tf):
        from .c01 import shrinkers_in
        ctx.require(R3, not shrinkers_in(arg_origins(c, 0)), c.where(), "every listed root file is visited", [GC, "files-dropped"])
        for g in c.gbodies:
            cb = prog.body(g)
            if cb is None or cb.kind != "Closure":
                continue
            okb_, errb_, fwd_ = result_return_kinds(cb)
            adds_ = cb.calls_to("reqwest::async_impl::client::ClientBuilder::add_root_certificate")
            ctx.floor(R3, "add_root_certificate call", len(adds_), 1)
            for name, role in steps:
                cs = cb.calls_to(name)
                ctx.require(R3, bool(cs), "%s:%s" % (cb.file, cb.line), "each listed file is %s (%s in the per-file closure)" % (role, name.rsplit("::", 1)[-1]), [GC, "step-" + role])
                for x in cs:
                    te = try_edges(cb, [x.dest["l"]])
                    if not te:
                        ctx.fail(R3, x.where(), "the result of %s is not tested" % name, [GC, "untested-" + role])
                    for t in te:
                        for tg in t["err"]:
                            r = cb.reachable_flags([tg], removed_nodes=errb_)
                            ctx.require(R3, not (set(cb.return_blocks()) & r) and not ({a.bb for a in adds_} & cb.reachable_flags([tg])), x.where(),
                                        "a failed %s ends get_client with an error (the file is not skipped)" % role, [GC, "skip-on-" + role])
            good, hit = unreachable_without(cb, okb_ + fwd_, removed_nodes=[a.bb for a in adds_], flags=True)
            ctx.require(R3, bool(adds_) and good, "%s:%s" % (cb.file, cb.line), "no file is visited without add_root_certificate", [GC, "turn-without-add"])
            for a in adds_:
                sl = arg_origins(a, 1)
                chain = all(any(x.is_(n) for x in sl.calls) or sl.via_any(n) for n, _ in steps) and sl.has_leaf("param:")
                ctx.require(R3, chain, a.where(), "the added certificate = from_pem(read_to_end(File::open(listed path)))", [GC, "add-provenance"])
            for x in [y for y in cb.calls_to("std::io::Read::read_to_end", "std::io::Read::read_to_string")]:
                fresh = [y for y in arg_origins(x, 1).calls if (y.name or "").rsplit("::", 1)[-1] in ("new", "with_capacity", "clear", "truncate", "default")]
                ctx.require(R3, bool(fresh), x.where(), "the read buffer is created or cleared for every root file", [GC, "shared-read-buffer"])
        # the fold's result is tested and the client is built from it
        te = try_edges(gb, [c.dest["l"]])
        okg, errg, fwdg = result_return_kinds(gb)
        errs = [tg for t in te for tg in t["err"]]
        ctx.require(R3, bool(errs) and all(not (set(okg) & gb.reachable_flags([e])) for e in errs), c.where(), "a failure on any root file makes get_client fail", [GC, "fold-error-dropped"])
        for bc in gb.calls_to("reqwest::async_impl::client::ClientBuilder::build"):
            ctx.require(R3, any(x.bb == c.bb for x in arg_origins(bc, 0).calls), bc.where(), "build() is called on the builder that received the root certificates", [GC, "build-other-builder"])
    adds = gb.calls_to("reqwest::async_impl::client::ClientBuilder::add_root_certificate")
    if nx or not tf:
        ctx.floor(R3, "add_root_certificate call", len(adds), 1)
    if nx:
        scc = set(gb.scc_of(nx[0].bb) or [])
        for name, role in steps:
            cs = [c for c in gb.calls_to(name) if c.bb in scc]
            ctx.require(R3, bool(cs), "%s:%s" % (gb.file, gb.line), "each listed file is %s (%s inside the loop)" % (role, name.rsplit("::", 1)[-1]), [GC, "step-" + role])
            for c in cs:
                for t in try_edges(gb, [c.dest["l"]]):
                    for tg in t["err"]:
                        r = gb.reachable_flags([tg])     # variant-tag sensitive (an Err built in an inlined helper stays an Err at the caller's `?`)
                        ctx.require(R3, nx[0].bb not in r and not ({a.bb for a in adds} & r), c.where(),
                                    "a failed %s ends get_client with an error (the file is not skipped)" % role, [GC, "skip-on-" + role])
                if not try_edges(gb, [c.dest["l"]]):
                    ctx.fail(R3, c.where(), "the result of %s is not tested" % name, [GC, "untested-" + role])
        # each file is parsed on its own: the buffer it is read into is created (or cleared) inside the loop — a buffer shared by
        # the iterations keeps growing and from_pem only decodes its first certificate, i.e. every later root is ignored
        for c in [x for x in gb.calls_to("std::io::Read::read_to_end", "std::io::Read::read_to_string") if x.bb in scc]:
            bsl = arg_origins(c, 1)
            fresh = [x for x in bsl.calls if (x.name or "").rsplit("::", 1)[-1] in ("new", "with_capacity", "clear", "truncate", "default") and x.bb in scc]
            ctx.require(R3, bool(fresh), c.where(), "the read buffer is created or cleared for every root file", [GC, "shared-read-buffer"])
        # ... and read WHOLE: nothing between the open and the read limits how much of the file is seen (`take(n)`, a fixed-size `read`,
        # `read_exact`) — a root file with a text dump or a comment header before its PEM block is a valid root file
        for c in [x for x in gb.calls_to("std::io::Read::read_to_end", "std::io::Read::read_to_string") if x.bb in scc]:
            rsl = arg_origins(c, 0)
            limited = sorted(v for v in rsl.via if v.rsplit("::", 1)[-1] in ("take", "read_exact", "chunks", "split_at", "truncate"))
            ctx.require(R3, not limited, c.where(), "the root file is read to its end (%s)" % limited, [GC, "bounded-read"])
        for a in adds:
            ctx.require(R3, a.bb in scc, a.where(), "add_root_certificate is called for each file", [GC, "add-in-loop"])
            sl = arg_origins(a, 1)
            chain = all(any(x.is_(n) for x in sl.calls) or sl.via_any(n) for n, _ in steps) and sl.has_leaf("param:1")
            ctx.require(R3, chain, a.where(), "the added certificate = from_pem(read_to_end(File::open(listed path)))", [GC, "add-provenance"])
        # every iteration adds: from next()==Some to the next next() passes add
        for t in try_edges(gb, [nx[0].dest["l"]]):
            for tg in t["ok"]:
                r = gb.reachable([tg], removed_nodes=[a.bb for a in adds])
                ctx.require(R3, nx[0].bb not in r, where(gb, tg), "no loop turn skips add_root_certificate", [GC, "turn-without-add"])
        # build after the loop, on the builder that received the additions
        for c in gb.calls_to("reqwest::async_impl::client::ClientBuilder::build"):
            sl = arg_origins(c, 0)
            ctx.require(R3, any(x.is_("reqwest::async_impl::client::ClientBuilder::add_root_certificate") for x in sl.calls), c.where(),
                        "build() is called on the builder that received the root certificates", [GC, "build-other-builder"])

    R4 = ctx.rule("R4", "Endpoint.root_certificates = --root-cert ++ endpoint.root_certificates ++ global.root_certificates")
    # the global list is the EFFECTIVE one: when [global] tables of included files are merged, root_certificates is taken from the
    # same-named option and a later-included value overrides an earlier one (shared with C14.R2)
    from .c14 import merge_pairing
    merge_pairing(ctx, R4, only=("root_certificates",))
    tg = prog.must_body("acmed::config::Endpoint::to_generic")
    news = tg.calls_to("acmed::endpoint::Endpoint::new")
    ctx.floor(R4, "Endpoint::new call in config::Endpoint::to_generic", len(news), 1)
    # ... and, whenever the function can be EVALUATED on concrete lists (abstract interpretation with lists, iterator chains and Option
    # combinators), the list handed to Endpoint::new is exactly command line + endpoint + global for all 12 presence combinations
    from ..absint import NONE, Val, marker, ok, run, some, struct_val, vbool, vstr
    ECFG, CCFG, GCFG = "acmed::config::Endpoint", "acmed::config::Config", "acmed::config::GlobalOptions"

    def lst(*xs):
        return Val("list", [vstr(x) for x in xs])

    def ep_model(cs_, args_):
        if cs_.is_("acmed::endpoint::Endpoint::new"):
            return ok(marker("EP"))
        return None
    n_eval = 0
    for cli in (True, False):
        for ep in (True, False):
            for gl in ("set", "unset", "absent"):
                selfv = struct_val(prog, ECFG, {"name": vstr("n"), "url": vstr("u"), "tos_agreed": vbool(True), "rate_limits": Val("list", []),
                                                "root_certificates": some(lst("E1", "E2")) if ep else NONE})
                g = NONE if gl == "absent" else some(struct_val(prog, GCFG, {"root_certificates": some(lst("G1")) if gl == "set" else NONE}))
                r = run(tg, {1: Val("ref", selfv), 2: Val("ref", struct_val(prog, CCFG, {"global": g})), 3: Val("ref", Val("list", [Val("ref", vstr("C1"))] if cli else []))},
                        ep_model, max_steps=60000)
                a_ = [x for c_, x, res_ in r.calls if c_.is_("acmed::endpoint::Endpoint::new")]
                got = a_[0][4].deref() if a_ and len(a_[0]) > 4 else None
                if r.kind != "return" or got is None or got.k != "list" or not all(x.deref().k == "str" for x in got.v):
                    continue            # not evaluable in this shape: the structural rules above decide
                n_eval += 1
                want_l = sorted((["C1"] if cli else []) + (["E1", "E2"] if ep else []) + (["G1"] if gl == "set" else []))
                have = sorted(x.deref().v for x in got.v)
                ctx.require(R4, have == want_l, "%s:%s" % (tg.file, tg.line), "roots for (command line %s, endpoint %s, global %s) = %s (expected %s)" % (cli, ep, gl, have, want_l),
                            ["config::Endpoint::to_generic", "roots-table", str(cli), str(ep), gl])
    ctx.notes.append("Endpoint::to_generic root list evaluated on %d/12 presence combinations" % n_eval)
    if n_eval < 12:
        # not (fully) evaluable: the shape of the code decides
        for c in news:
            sl = arg_origins(c, 4)
            df = deep_fields(prog, sl)
            want = {"cmdline": sl.has_leaf("param:3"),
                    "endpoint": ("acmed::config::Endpoint", "root_certificates") in df,
                    "global": ("acmed::config::GlobalOptions", "root_certificates") in df}
            for nm, ok in want.items():
                ctx.require(R4, ok, c.where(), "the root list includes the %s certificates" % nm, ["config::Endpoint::to_generic", "roots-" + nm])
            shr = [v for v in sl.via if v.rsplit("::", 1)[-1] in ("filter", "take", "skip", "truncate", "retain", "dedup", "pop", "first", "last", "clear", "drain")]
            ctx.require(R4, not shr, c.where(), "no element is dropped from the list (%s)" % shr, ["config::Endpoint::to_generic", "roots-shrunk"])
        # the three sources are ADDED to each other, none is a fallback for another: the code adding one source's roots stays
        # reachable when the other optional source is present
        from ..util import enum_edges
        EPF, GLF = ("acmed::config::Endpoint", "root_certificates"), ("acmed::config::GlobalOptions", "root_certificates")
        adders = {}
        for c in tg.calls:
            if c.bb not in tg.live_blocks() or (c.name or "").rsplit("::", 1)[-1] not in ("extend", "push", "append", "extend_from_slice", "chain"):
                continue
            for k_ in range(1, len(c.args)):
                f_ = deep_fields(prog, arg_origins(c, k_))
                if EPF in f_:
                    adders.setdefault("endpoint", []).append(c)
                if GLF in f_:
                    adders.setdefault("global", []).append(c)
        for nm, other in (("global", EPF), ("endpoint", GLF)):
            rem, nt = enum_edges(tg, other, "Some")
            reach = tg.reachable(0, removed_edges=rem)
            cs_ = adders.get(nm, [])
            # (no test of the other source at all — e.g. `a.iter().flatten().chain(b.iter().flatten())` — is the unconditional union)
            ctx.require(R4, bool(cs_) and any(c.bb in reach for c in cs_), cs_[0].where() if cs_ else "%s:%s" % (tg.file, tg.line),
                        "the %s roots are added also when the %s list is present (union of the sources, not a fallback)" % (nm, "endpoint's" if nm == "global" else "global"),
                        ["config::Endpoint::to_generic", "roots-fallback", nm])
    en = prog.must_body("acmed::endpoint::Endpoint::new")
    for i, st in agg_assigns(en, "acmed::endpoint::Endpoint"):
        idx = st["rv"]["fields"].index("root_certificates")
        sl = origins(en, st["rv"]["ops"][idx])
        ctx.require(R4, sl.has_leaf("param:5"), where(en, i), "Endpoint::new stores its root_certs argument", ["Endpoint::new", "roots-stored"])
    ge = prog.must_body("acmed::config::Certificate::get_endpoint")
    for c in ge.calls_to("acmed::config::Endpoint::to_generic"):
        ctx.require(R4, arg_origins(c, 2).has_leaf("param:3"), c.where(), "get_endpoint forwards the command-line roots", ["config::Certificate::get_endpoint", "roots-forwarded"])
    nb = prog.async_body("acmed::main_event_loop::MainEventLoop::new")
    for c in nb.calls_to("acmed::config::Certificate::get_endpoint"):
        ctx.require(R4, arg_origins(c, 2).has_leaf("upvar:1"), c.where(), "MainEventLoop::new forwards its root_certs parameter", ["MainEventLoop::new", "roots-forwarded"])
    mb = [b for k, b in prog.bodies.items() if (k.startswith("acmed::inner_main") or k.startswith("acmed::main::") or k == "acmed::main")
          and b.calls_to("acmed::main_event_loop::MainEventLoop::new")]
    ctx.floor(R4, "MainEventLoop::new call in main", len(mb), 1)
    from .main_model import trace as _main_trace
    samples = [[], ["/r/one.pem"], ["/r/b.pem", "/r/a.pem", "/r/b.pem"]]
    trs = [_main_trace(prog, False, s_) for s_ in samples]
    if all(t_ is not None and t_["roots"] is not None and t_["events"][:1] == ["new"] for t_ in trs):
        # evaluation first: inner_main interpreted with --root-cert answering the sample values
        for s_, t_ in zip(samples, trs):
            ctx.require(R4, t_["roots"] == s_, "acmed/src/main.rs", "--root-cert given %d time(s): MainEventLoop::new receives %s (expected exactly these values, in order: %s)" % (len(s_), t_["roots"], s_),
                        ["main", "root-cert-flag"])
        mb = []
    for b in mb:
        for c in b.calls_to("acmed::main_event_loop::MainEventLoop::new"):
            sl = arg_origins(c, 1)
            lit = [x.get("str") for x in sl.consts if "str" in x]
            ctx.require(R4, sl.via_any("clap_builder::parser::matches::arg_matches::ArgMatches::get_many") and "root-cert" in lit, c.where(),
                        "the command-line roots come from matches.get_many(\"root-cert\")", ["main", "root-cert-flag"])
