"""C15 — JWK, thumbprint and signature encodings are exact for every key.

Decided (tables and encoding idioms; values for concrete keys are OpenSSL's):
  K1 public JWK members per key type: RSA {kty=RSA,n,e}, EC {kty=EC,crv,x,y}, OKP {kty=OKP,crv,x}; the full form adds
     {alg, use=sig}; the thumbprint form is exactly the RFC 7638 required members; jwk_public_key(_thumbprint) dispatch
     by key type to the right builder;
  K2 curve table: P-256/ES256/32, P-384/ES384/48, P-521/ES512/66 in the JWK builder; signature width table identical;
     key generation table (2048/4096 bits, the three curve NIDs, Ed25519/Ed448) agrees with key-type detection
     (256/512-byte modulus, same NIDs, same ids);
  K3 encodings: EC coordinates to_vec_padded(width) (never minimal), RSA n/e minimal to_vec, ECDSA r and s padded by
     size - len, OKP x = base64url SPKI minus the 16 characters of its 12-byte prefix;
  K4 algorithm tables shared with C04 (default, compatibility, dispatch, header text);
  K5 hash tables: HashFunction::{hash, native_digest} variant -> SHA-256/384/512;
  K6 canonical thumbprint input: serde_json is built without `preserve_order` (object keys sorted) and the thumbprint is
     serialised with the compact `to_string`.
  Evaluation-first: K1 — jwk_public_key / jwk_public_key_thumbprint interpreted for the seven key types (member sets, kty/crv/alg/use).
"""
import json
import os
import re
import subprocess

from ..absint import Interp, NONE, Val, enum_table, marker, ok, run, some, struct_val, variant, vint
from ..flow import arg_origins, origins
from ..mir import op_const, op_local
from ..util import agg_assigns, where
from . import crypto_tables as ct

LEVEL = "other"
TECHNIQUE = ("table extraction by abstract interpretation (JWK member sets, curve/width/NID tables, dispatch, hash tables), "
             "encoding-idiom rules on resolved callees (to_vec_padded vs to_vec, padding length), build-metadata check of the "
             "JSON serializer's key ordering"
             '; evaluation of jwk_public_key[_thumbprint] per key type')
LEVEL_TEXT = ("Decides, for all seven key types at once, every table and encoding idiom the RFCs fix: member sets, constant "
              "members, coordinate and signature widths and how missing leading bytes are restored, algorithm dispatch, hash "
              "selection, canonical serialisation. The rare short-coordinate / short-component encodings that tests reach only "
              "by volume are covered because the padding idiom itself is checked. Concrete values and verification by an "
              "independent implementation are not decided.")
LEVEL_NOTE = ("Not decided: values for concrete keys, signature verification, PEM/DER round trips (OpenSSL). Trusted: rustc MIR, "
              "extractor, abstract interpreter, openssl crate semantics (to_vec_padded, EcdsaSig), serde_json's BTreeMap order.")

KEYS = ct.KEYS
KT = ct.KT
EVP = {"RSA": 6, "EC": 408, "ED25519": 1087, "ED448": 1088}
NIDS = {"EcdsaP256": 415, "EcdsaP384": 715, "EcdsaP521": 716}


def check(ctx):
    prog = ctx.prog
    K1 = ctx.rule("K1", "JWK member sets and constant members per key type (RFC 7517/7518 section 6, RFC 8037 section 2); thumbprint = RFC 7638 required members")
    table = ct.jwk_table(prog)
    if table is not None:
        # evaluation-first: the objects are read off the interpreted entry points, per key type
        ctx.ok(K1, "JWK objects evaluated from jwk_public_key / jwk_public_key_thumbprint for %d key types" % len(ct.key_variants(prog)))
        eb = prog.must_body(KEYS + "::jwk_public_key")
        for v in ct.key_variants(prog):
            kty, crv, alg = ct.JWK_ORACLE.get(v, (None, None, None))
            req = {"kty": kty}
            if crv:
                req["crv"] = crv
            for m in ct.JWK_KEY_MEMBERS.get(kty, ()):
                req[m] = None
            for tag in ("thumb", "full"):
                got = table.get((v, tag), {})
                exp = dict(req)
                if tag == "full":
                    exp.update({"alg": alg, "use": "sig"})
                ctx.require(K1, set(got) == set(exp), "%s:%s" % (eb.file, eb.line), "%s key (%s): members %s (expected %s)" % (v, tag, sorted(got), sorted(exp)),
                            [KEYS + "::jwk", "members", v, tag])
                for k, val in exp.items():
                    if k in got:
                        ctx.require(K1, got[k] == val, "%s:%s" % (eb.file, eb.line), "%s key (%s): \"%s\" = %s (found %r)" % (v, tag, k, val if val is not None else "<key material>", got[k]),
                                    [KEYS + "::jwk", "const", v, k, tag])
    else:
        want = {"get_rsa_jwk": ({"kty": "RSA", "e": None, "n": None}, {"alg": "RS256", "use": "sig"}),
                "get_ecdsa_jwk": ({"kty": "EC", "crv": None, "x": None, "y": None}, {"alg": None, "use": "sig"}),
                "get_eddsa_jwk": ({"kty": "OKP", "crv": None, "x": None}, {"alg": "EdDSA", "use": "sig"})}
        for fn, (req, extra) in want.items():
            objs = ct.jwk_objects(prog, fn)
            b = prog.must_body(KEYS + "::" + fn)
            for thumb in (True, False):
                got = objs.get(thumb, {})
                exp = dict(req)
                if not thumb:
                    exp.update(extra)
                ctx.require(K1, set(got) == set(exp), "%s:%s" % (b.file, b.line), "%s(%s): members %s (expected %s)" % (fn, "thumbprint" if thumb else "full", sorted(got), sorted(exp)),
                            [KEYS + "::" + fn, "members", "thumb" if thumb else "full"])
                for k, v in exp.items():
                    if v is not None and k in got:
                        ctx.require(K1, got[k] == v, "%s:%s" % (b.file, b.line), "%s: \"%s\" = \"%s\" (found %r)" % (fn, k, v, got[k]), [KEYS + "::" + fn, "const", k, "thumb" if thumb else "full"])
        gj = prog.must_body(KEYS + "::get_jwk_public_key")
        disp = {"Rsa2048": "get_rsa_jwk", "Rsa4096": "get_rsa_jwk", "EcdsaP256": "get_ecdsa_jwk", "EcdsaP384": "get_ecdsa_jwk", "EcdsaP521": "get_ecdsa_jwk",
                "Ed25519": "get_eddsa_jwk", "Ed448": "get_eddsa_jwk"}
        for v in ct.key_variants(prog):
            for thumb in (True, False):
                kp = struct_val(prog, KEYS, {"key_type": variant(KT, v)})
                from ..absint import vbool
                r = run(gj, {1: Val("ref", kp), 2: vbool(thumb)})
                called = [(c.name.rsplit("::", 1)[1], args[1].deref().v if len(args) > 1 and args[1].deref().k == "bool" else None) for c, args, res in r.calls if c.name.startswith(KEYS + "::get_")]
                ctx.require(K1, called == [(disp.get(v), thumb)], "%s:%s" % (gj.file, gj.line), "%s key, thumbprint=%s -> %s" % (v, thumb, called), [KEYS + "::get_jwk_public_key", v, str(thumb)])
        for fn, flag in (("jwk_public_key", False), ("jwk_public_key_thumbprint", True)):
            b = prog.must_body(KEYS + "::" + fn)
            cs = b.calls_to(KEYS + "::get_jwk_public_key")
            good = bool(cs) and all((op_const(c.args[1]) or {}).get("bool") is flag for c in cs)
            ctx.require(K1, good, "%s:%s" % (b.file, b.line), "%s = get_jwk_public_key(%s)" % (fn, str(flag).lower()), [KEYS + "::" + fn, "flag"])

    K2 = ctx.rule("K2", "curve / width / NID tables agree between the JWK builder, the signature encoder, key generation and key-type detection")
    tabs = ct.ec_width_tables(ctx, K2)
    jw = tabs.get("get_ecdsa_jwk", {})
    for k, (crv, alg, w, nid) in (ct.EC_JWK.items() if table is None else []):      # evaluated per key type in K1 when the table is available
        strs = jw.get(k, ([], []))[1]
        ctx.require(K2, crv in strs and alg in strs, "acme_common/src/crypto/openssl_keys.rs", "%s: crv %s, alg %s (found %s)" % (k, crv, alg, strs), [KEYS + "::get_ecdsa_jwk", "names", k])
    gk = prog.must_body("acme_common::crypto::openssl_keys::gen_keypair")
    gen = {}
    for v in ct.key_variants(prog):
        r = run(gk, {1: variant(KT, v)})
        for c, args, res in r.calls:
            nm = c.name.rsplit("::", 1)[1]
            if nm == "gen_rsa_pair":
                gen[v] = ("rsa", args[0].deref().v)
            elif nm == "gen_ec_pair":
                m = re.search(r"Nid\((\d+)_i32\)", repr(args[0].deref())) or re.search(r"Nid\[int\((\d+)\)\]", repr(args[0].deref()))
                gen[v] = ("ec", int(m.group(1)) if m else None)
            elif nm in ("gen_ed25519_pair", "gen_ed448_pair"):
                gen[v] = (nm, None)
    exp_gen = {"Rsa2048": ("rsa", 2048), "Rsa4096": ("rsa", 4096), "EcdsaP256": ("ec", 415), "EcdsaP384": ("ec", 715), "EcdsaP521": ("ec", 716),
               "Ed25519": ("gen_ed25519_pair", None), "Ed448": ("gen_ed448_pair", None)}
    for v in ct.key_variants(prog):
        ctx.require(K2, gen.get(v) == exp_gen.get(v), "%s:%s" % (gk.file, gk.line), "gen_keypair(%s) -> %s (expected %s)" % (v, gen.get(v), exp_gen.get(v)), ["gen_keypair", v])
    # detection (get_key_type! in from_pem / from_der)
    for fn in ("from_pem", "from_der"):
        fb = prog.must_body(KEYS + "::" + fn)
        cases = [("Rsa2048", "RSA", 256, None), ("Rsa4096", "RSA", 512, None), ("EcdsaP256", "EC", None, 415), ("EcdsaP384", "EC", None, 715), ("EcdsaP521", "EC", None, 716),
                 ("Ed25519", "ED25519", None, None), ("Ed448", "ED448", None, None)]
        for exp, idn, size, nid in cases:
            def model(cs, args, idn=idn, size=size, nid=nid):
                n = cs.name
                if n.endswith("private_key_from_pem") or n.endswith("private_key_from_der"):
                    return ok(marker("PKEY"))
                if n.endswith("PKeyRef::id"):
                    return Val("adt", [vint(EVP[idn])], ("openssl::pkey::Id", "Id"))
                if n.endswith("PKeyRef::rsa") or n.endswith("PKeyRef::ec_key"):
                    return ok(marker("INNER"))
                if n.endswith("RsaRef::size"):
                    return vint(size or 0)
                if n.endswith("EcKeyRef::group"):
                    return Val("ref", marker("GROUP"))
                if n.endswith("EcGroupRef::curve_name"):
                    return some(Val("adt", [vint(nid or 0)], ("openssl::nid::Nid", "Nid")))
                return None
            r = run(fb, {1: Val("ref", marker("DATA"))}, model)
            got = None
            if r.kind == "return":
                rv = r.ret.deref()
                if rv.k == "adt" and rv.extra[1] == "Ok" and rv.v and rv.v[0].deref().k == "adt":
                    kp = rv.v[0].deref()
                    names = prog.adt_fields(KEYS)
                    kt = kp.v[names.index("key_type")].deref()
                    got = kt.v if kt.k == "variant" else repr(kt)
            ctx.require(K2, got == exp, "%s:%s" % (fb.file, fb.line), "%s detects id=%s size=%s nid=%s as %s (expected %s; run %s)" % (fn, idn, size, nid, got, exp, r.kind), [KEYS + "::" + fn, "detect", exp])

    K3 = ctx.rule("K3", "encodings: EC coordinates fixed width, RSA minimal, ECDSA r/s padded by size-len, OKP x = SPKI base64url minus its 16-character prefix")
    ct.padding_rules(ctx, K3)
    okp = ct.okp_x_table(prog)
    if okp is not None:
        eb0 = prog.body(KEYS + "::get_eddsa_jwk") or prog.must_body(KEYS + "::jwk_public_key")
        ctx.floor(K3, "OKP x evaluations", len(okp), 12)
        for kt_, entry_, got_, want_ in okp:
            ctx.require(K3, got_ == want_, "%s:%s" % (eb0.file, eb0.line), "%s of a %s key whose raw public key encodes to %s: x = %s" % (entry_, kt_, want_, got_),
                        [KEYS + "::get_eddsa_jwk", "x-evaluated", kt_, entry_, want_[:8]])
    else:
        eb = prog.must_body(KEYS + "::get_eddsa_jwk")
        rr = eb.calls_to("alloc::string::String::replace_range")
        ctx.floor(K3, "replace_range in get_eddsa_jwk", len(rr), 1)
        for c in rr:
            sl = arg_origins(c, 1)
            ends = [x.get("int") for x in sl.consts if "int" in x]
            rng = sl.aggs
            ctx.require(K3, ends == [16] and any(a.endswith("RangeTo") for a, v in rng), c.where(), "the removed prefix is exactly the first 16 base64 characters = 12-byte SPKI prefix (found ..%s)" % ends, [KEYS + "::get_eddsa_jwk", "prefix"])
            x = arg_origins(c, 0, through=True)
            ctx.require(K3, any("public_key_to_pem" in z.name for z in x.calls), c.where(), "x is cut out of the key's own public PEM", [KEYS + "::get_eddsa_jwk", "source"])
        from .guards import body_family
        efam = body_family(prog, KEYS + "::get_eddsa_jwk")      # the function, helpers inlined into it, and the closures they hand to adaptors
        reps = [c for fb in efam for c in fb.calls_to("core::str::<impl str>::replace", "alloc::str::<impl str>::replace")]
        pairs = set()
        for c in reps:
            ch = []
            for i_ in (1, 2):
                cs_ = [z for z in arg_origins(c, i_).consts if "char" in z or "str" in z]
                ch.append(str(cs_[0].get("char", cs_[0].get("str"))) if cs_ else "?")
            pairs.add(tuple(ch))
        ctx.require(K3, {("/", "_"), ("+", "-")} <= pairs, "%s:%s" % (eb.file, eb.line), "base64 -> base64url: '/'->'_' and '+'->'-' (found %s)" % sorted(pairs), [KEYS + "::get_eddsa_jwk", "url-alphabet"])
        tr = [c for fb in efam for c in fb.calls_to("core::str::<impl str>::trim_end_matches")]
        ctx.require(K3, any((c.body.const_of(c.args[1]) or {}).get("char") == "=" for c in tr), "%s:%s" % (eb.file, eb.line), "padding '=' is removed", [KEYS + "::get_eddsa_jwk", "no-padding"])

    K4 = ctx.rule("K4", "algorithm tables: default, compatibility, dispatch, header text")
    ct.check_alg_tables(ctx, K4)

    ct.parse_tables(ctx, K4)
    K5 = ctx.rule("K5", "hash selection: Sha256/384/512 -> SHA-256/384/512 in hash() and native_digest()")
    HF = "acme_common::crypto::BaseHashFunction"
    for fn, pat in (("hash", "openssl::sha::sha%s"), ("native_digest", "openssl::hash::MessageDigest::sha%s")):
        cand = [b for k, b in prog.bodies.items() if k.endswith("::" + fn) and "openssl_hash" in k]
        ctx.floor(K5, "HashFunction::%s body" % fn, len(cand), 1)
        if not cand:
            continue
        tab = enum_table(prog, cand[0], HF)
        for v, r in tab.items():
            n = v[3:]
            called = [c.name for c, a, res in r.calls if "sha" in c.name.lower()]
            ctx.require(K5, called == [pat % n], "%s:%s" % (cand[0].file, cand[0].line), "%s(%s) uses %s (found %s)" % (fn, v, pat % n, called), ["HashFunction::" + fn, v])

    K6 = ctx.rule("K6", "thumbprint input is canonical: serde_json without preserve_order (sorted keys), compact to_string")
    feats = serde_json_features(ctx.repo)
    ctx.require(K6, feats is not None and "preserve_order" not in feats, "Cargo.lock / cargo metadata", "serde_json features = %s (no preserve_order: maps are BTreeMap, keys sorted)" % (feats,), ["serde_json", "preserve_order"])
    ka = prog.must_body("acmed::acme_proto::structs::authorization::TokenChallenge::key_authorization")
    ts = [c for c in ka.calls if c.fn == "alloc::string::ToString::to_string"]
    th = ka.calls_to(KEYS + "::jwk_public_key_thumbprint")
    ctx.require(K6, bool(th) and bool(ts) and not ka.calls_to("serde_json::ser::to_string_pretty"), "%s:%s" % (ka.file, ka.line), "the thumbprint JSON is rendered with the compact Display/to_string", ["key_authorization", "compact"])


def thumbprint_members(ctx, rid):
    prog = ctx.prog
    table = ct.jwk_table(prog)
    if table is not None:
        eb = prog.must_body(KEYS + "::jwk_public_key_thumbprint")
        for v in ct.key_variants(prog):
            kty, crv, alg = ct.JWK_ORACLE.get(v, (None, None, None))
            members = {"kty"} | set(ct.JWK_KEY_MEMBERS.get(kty, ())) | ({"crv"} if crv else set())
            got = table.get((v, "thumb"), {})
            ctx.require(rid, set(got) == members, "%s:%s" % (eb.file, eb.line), "%s thumbprint members = %s (RFC 7638 required members %s)" % (v, sorted(got), sorted(members)),
                        [KEYS + "::jwk_public_key_thumbprint", "thumbprint-members", v])
            # the constant members are part of the digest input: a wrong curve name is a wrong thumbprint for that key type only
            for k, val in (("kty", kty), ("crv", crv)):
                if val is not None and k in got:
                    ctx.require(rid, got[k] == val, "%s:%s" % (eb.file, eb.line), "%s thumbprint: \"%s\" = %s (found %r)" % (v, k, val, got[k]),
                                [KEYS + "::jwk_public_key_thumbprint", "thumbprint-const", v, k])
        return
    req = {"get_rsa_jwk": {"kty", "e", "n"}, "get_ecdsa_jwk": {"kty", "crv", "x", "y"}, "get_eddsa_jwk": {"kty", "crv", "x"}}
    for fn, members in req.items():
        objs = ct.jwk_objects(prog, fn)
        b = prog.must_body(KEYS + "::" + fn)
        ctx.require(rid, set(objs.get(True, {})) == members, "%s:%s" % (b.file, b.line), "%s thumbprint members = %s (RFC 7638 required members %s)" % (fn, sorted(objs.get(True, {})), sorted(members)),
                    [KEYS + "::" + fn, "thumbprint-members"])


def serde_json_features(repo):
    try:
        env = dict(os.environ)
        env["CARGO_NET_OFFLINE"] = "true"
        out = subprocess.run(["cargo", "metadata", "--offline", "--format-version", "1", "--manifest-path", os.path.join(repo, "Cargo.toml")],
                             stdout=subprocess.PIPE, stderr=subprocess.PIPE, text=True, env=env, timeout=120)
        md = json.loads(out.stdout)
        feats = None
        for n in md.get("resolve", {}).get("nodes", []):
            if n["id"].split("#")[-1].startswith("serde_json@") or "/serde_json-" in n["id"] or " serde_json " in n["id"] or "serde_json" in n["id"].rsplit("/", 1)[-1]:
                feats = sorted(n.get("features", []))
        return feats
    except Exception:
        return None
