"""The rate limiter, EVALUATED. RateLimit::new is interpreted on concrete limit lists (parse_duration answered with the number of
seconds), which yields the limiter in whatever representation the code uses today (tuples, a struct, sorted either way); the query
log is then filled with concrete instants (integers: seconds on the interpreter's clock, `Instant::now()` = NOW) and
request_allowed / prune_log / get_sleep_duration are interpreted on it. The expected answers are computed here from the
property's definition:

  admission   a request is allowed iff for EVERY configured (number, period): #{entries younger than NOW - period} < number
              (a period reaching before the clock's origin covers every entry)
  pruning     an entry is dropped only when it is older than the LONGEST period (so no window still needs it)
  zero        a limit whose number is 0 is refused by RateLimit::new

Shared by C09 (admission/pruning), C07 and C19 (zero divisor / zero bound). When the interpreter cannot produce a concrete answer
the functions return None and the callers fall back to their structural rules."""
from ..absint import NONE_V, Interp, Val, ok, run, some, vbool, vint, vstr

RL = "acmed::endpoint::RateLimit"
NOW = 1000


def _model(cs, args):
    n = cs.name or ""
    fn = cs.fn or ""
    d = [a.deref() for a in args]
    if n.endswith("duration::parse_duration") and d and d[0].k == "str":
        return ok(Val("int", int(d[0].v.rstrip("s")), "dur"))
    if n == "std::time::Instant::now":
        return vint(NOW)
    if n in ("std::time::Instant::checked_sub",) and len(d) == 2 and d[0].k == d[1].k == "int":
        return some(vint(d[0].v - d[1].v)) if d[0].v - d[1].v >= 0 else NONE_V
    if n in ("std::time::Instant::duration_since", "std::time::Instant::saturating_duration_since") and len(d) == 2 and d[0].k == d[1].k == "int":
        return vint(max(0, d[0].v - d[1].v))
    if n == "std::time::Instant::elapsed" and d and d[0].k == "int":
        return vint(max(0, NOW - d[0].v))
    if n == "core::time::Duration::as_secs" and d and d[0].k == "int":
        return vint(d[0].v)
    if n == "core::time::Duration::from_millis" and d and d[0].k == "int":
        return Val("int", d[0].v, "millis")
    if n == "core::time::Duration::from_secs" and d and d[0].k == "int":
        return Val("int", d[0].v, "dur")
    if fn.endswith("::saturating_mul") and len(d) == 2 and d[0].k == d[1].k == "int":
        return vint(min(d[0].v * d[1].v, 2 ** 64 - 1))
    return None


def build(prog, limits):
    """RateLimit::new(&[(number, "<secs>s"), ..]) -> ("Ok", limiter value) | ("Err", text) | None"""
    nb = prog.body(RL + "::new")
    if nb is None:
        return None
    raw = Val("list", [Val("tuple", [vint(n), vstr("%ds" % p)]) for n, p in limits])
    try:
        r = run(nb, {1: Val("ref", raw)}, _model, max_steps=100000)
    except Exception:
        return None
    rv = r.ret.deref() if r.kind == "return" and r.ret is not None else None
    if rv is None or rv.k != "adt" or not rv.extra:
        return None
    if rv.extra[1] == "Err":
        return ("Err", repr(rv.v[0].deref()) if rv.v else "")
    v = rv.v[0].deref() if rv.v else None
    if v is None or v.k != "adt":
        return None
    return ("Ok", v)


def with_log(prog, rl, log):
    fs = prog.adt_fields(RL)
    if "query_log" not in fs:
        return None
    vals = list(rl.v)
    vals[fs.index("query_log")] = Val("list", [vint(t) for t in log])
    return Val("adt", vals, rl.extra)


def allowed(prog, rl, log):
    b = prog.body(RL + "::request_allowed")
    v = with_log(prog, rl, log)
    if b is None or v is None:
        return None
    try:
        r = run(b, {1: Val("ref", v)}, _model, max_steps=100000)
    except Exception:
        return None
    rv = r.ret.deref() if r.kind == "return" and r.ret is not None else None
    return rv.v if rv is not None and rv.k == "bool" else None


def pruned(prog, rl, log):
    """the log after prune_log"""
    b = prog.body(RL + "::prune_log")
    v = with_log(prog, rl, log)
    if b is None or v is None:
        return None
    try:
        it = Interp(b, _model, 100000)
        from ..absint import _FRAME_SEQ
        env = {9000: v}
        env[1] = Val("ref", v, ("place", 9000, _FRAME_SEQ[0] + 1))
        r = it.run(env)
    except Exception:
        return None
    if r.kind != "return":
        return None
    out = (r.env or {}).get(9000)
    if out is None or out.k != "adt":
        return None
    fs = prog.adt_fields(RL)
    lg = out.v[fs.index("query_log")].deref()
    if lg.k != "list" or not all(x.deref().k == "int" for x in lg.v):
        return None
    return [x.deref().v for x in lg.v]


class _Again(Exception):
    pass


def admit(prog, rl, log):
    """block_until_allowed interpreted on the limiter with `log` (every RateLimit method followed, helpers inlined). The clock
    reads 999 before the first sleep and 1000 (= NOW) after it; the run is cut at the SECOND sleep (the request was not admitted
    in this round). Returns ("admitted"|"waits", log afterwards) or None."""
    from ..absint import _FRAME_SEQ, async_state, success_model
    key = RL + "::block_until_allowed"
    b = prog.async_body(key)
    v = with_log(prog, rl, log)
    if b is None or v is None:
        return None
    sleeps = [0]

    def model(cs, args):
        n = cs.name or ""
        if n == "tokio::time::sleep::sleep" or n.endswith("time::sleep"):
            sleeps[0] += 1
            if sleeps[0] >= 2:
                raise _Again()
            return None
        if n == "std::time::Instant::now":
            return vint(NOW - 1 + min(sleeps[0], 1))
        return _model(cs, args)
    it = Interp(b, success_model(b, model), 200000)
    it.follow = lambda cs: (cs.name or "").startswith(RL + "::")
    env = {9000: v}
    st = async_state(prog, key, lambda name, ty, i: Val("ref", v, ("place", 9000, _FRAME_SEQ[0] + 1)) if ty.endswith("endpoint::RateLimit") else None)
    env[1] = st
    outcome = None
    try:
        r = it.run(env)
        if r.kind == "return":
            outcome = "admitted"
    except _Again:
        outcome = "waits"
    except Exception:
        return None
    if outcome is None:
        return None
    from ..absint import _FRAMES
    cur = (_FRAMES.get(getattr(it, "fid", None)) or {}).get(9000)
    fs = prog.adt_fields(RL)
    lg = cur.v[fs.index("query_log")].deref() if cur is not None and cur.k == "adt" else None
    if lg is None or lg.k != "list" or not all(x.deref().k == "int" for x in lg.v):
        return None
    return (outcome, [x.deref().v for x in lg.v])


def expected_admit(limits, log):
    keep = expected_pruned(limits, log)
    return ("admitted", keep + [NOW]) if expected_allowed(limits, log) else ("waits", keep)


def entry_table(prog):
    """[(limits, log, got, want)] for block_until_allowed as a whole, or None"""
    rows = []
    for limits, logs in SAMPLES:
        b = build(prog, limits)
        if b is None or b[0] != "Ok":
            return None
        for lg in logs:
            got = admit(prog, b[1], lg)
            if got is None:
                return None
            rows.append((limits, lg, got, expected_admit(limits, lg)))
    # no limit configured: nothing is logged, nothing waits
    b = build(prog, [])
    if b is None or b[0] != "Ok":
        return None
    got = admit(prog, b[1], [5, 6])
    if got is None:
        return None
    rows.append(([], [5, 6], got, ("admitted", [5, 6])))
    return rows


def expected_allowed(limits, log):
    for n, p in limits:
        start = NOW - p
        cnt = len(log) if start < 0 else len([t for t in log if t > start])
        if cnt >= n:
            return False
    return True


def expected_pruned(limits, log):
    longest = max(p for n, p in limits)
    start = NOW - longest
    return list(log) if start < 0 else [t for t in log if t > start]


# (limits, logs): limits given in several configuration orders; logs chosen so that each window decides at least once
SAMPLES = [
    ([(2, 10), (5, 100)], [[], [995], [995, 996], [950, 996], [950, 951, 952, 953, 996], [905, 906, 907, 908, 909], [850, 995], [901, 902, 903, 904, 991], [990, 995], [900, 950], [900, 901, 902, 903, 904]]),
    ([(5, 100), (2, 10)], [[995, 996], [950, 951, 952, 953, 996], [850, 995], [901, 902, 903, 904, 991]]),
    ([(3, 50), (2, 10), (6, 200)], [[810, 820, 830, 840, 845, 990], [810, 820, 830, 960, 970, 999], [960, 970, 980], [805, 806, 807, 808, 809], [700, 790, 850, 990], [799, 801]]),
    ([(1, 5)], [[], [994], [996]]),
    ([(4, 20), (2, 20)], [[990, 995], [985], [970, 990, 991, 992]]),                                              # two limits with the same period: both apply
    ([(2, 20), (4, 20)], [[990, 995], [985]]),
    ([(4, 10), (2, 30)], [[975, 980], [975, 995], [960, 995, 996, 997], [991, 992, 993, 994], [965, 969]]),     # the longer period has the smaller quota
    ([(2, 30), (4, 10)], [[975, 980], [960, 995, 996, 997]]),
    ([(3, 20), (3, 60)], [[950, 951, 990], [945, 950, 985], [939, 985, 990, 995]]),                              # equal quotas
    ([(4, 5000), (2, 10)], [[1, 2, 3], [1, 2, 3, 4], [995, 996]]),          # a period reaching before the clock's origin
]


def admission_table(prog):
    """[(limits, log, got_allowed, want_allowed, got_pruned, want_pruned)] or None when something does not evaluate"""
    rows = []
    for limits, logs in SAMPLES:
        b = build(prog, limits)
        if b is None or b[0] != "Ok":
            return None
        for lg in logs:
            a = allowed(prog, b[1], lg)
            pr = pruned(prog, b[1], lg)
            if a is None or pr is None:
                return None
            rows.append((limits, lg, a, expected_allowed(limits, lg), pr, expected_pruned(limits, lg)))
    return rows


def zero_table(prog):
    """RateLimit::new on lists containing a zero number: [(limits, outcome)] with outcome "Err"/"Ok"/None"""
    out = []
    for limits in ([(0, 10)], [(2, 10), (0, 100)], [(0, 100), (2, 10)], [(3, 50), (0, 10), (6, 200)]):
        b = build(prog, limits)
        out.append((limits, b[0] if b is not None else None))
    return out
