"""Success-path traces of storage::write_file, shared by C02 (open flags), C10 (pre/post hook bracketing) and C13 (mode).

write_file's behaviour on its success path is selected by two finite inputs: whether the file already exists
(`Path::is_file`) and the FileType. The abstract interpreter runs the (helper-inlined) coroutine body for all 2 x 3
combinations with every awaited future completing and every fallible call succeeding, and records the ordered calls.
The rules then read the ORDER and ARGUMENTS of effects off these six traces, whatever the shape of the source
(four `hooks::call` sites or one pair chosen through a tuple, builder chain or helper function, ...). Error paths are
covered separately by the graph rules of each property."""
from ..absint import Val, marker, ok, run, success_model, variant, vbool

WF = "acmed::storage::write_file"
FT = "acmed::storage::FileType"
OO = "tokio::fs::open_options::OpenOptions"


def write_file_traces(prog):
    b = prog.async_body(WF)
    out = {}
    for exists in (True, False):
        for ft in prog.adt_variants(FT):
            def ov(cs, args, exists=exists):
                if cs.is_("std::path::Path::is_file", "std::path::Path::exists", "std::path::Path::try_exists"):
                    return vbool(exists)
                if cs.is_("acmed::storage::get_file_full_path"):
                    return ok(Val("tuple", [marker("DIR"), marker("NAME"), marker("PATH")]))
                if cs.is_("acmed::storage::get_file_path"):
                    return ok(marker("PATH"))
                return None
            st = Val("adt", [marker("FM"), variant(FT, ft), marker("DATA")], ("coroutine", "state"))
            r = run(b, {1: st}, success_model(b, ov), max_steps=40000)
            ev = []
            for c, args, res in r.calls:
                n = c.name or ""
                a = [x.deref() for x in args]
                if n.endswith("hooks::call"):
                    ht = [x for x in a if x.k == "variant" and (x.extra or "").endswith("HookType")]
                    ev.append(("hook", ht[0].v if ht else None, repr(a[1]) if len(a) > 1 else ""))
                elif n.startswith(OO + "::") or n.startswith("std::fs::OpenOptions::"):
                    m = n.rsplit("::", 1)[1]
                    val = a[1] if len(a) > 1 else None
                    ev.append(("oo." + m, (val.v if val is not None and val.k in ("bool", "int") else (repr(val) if val is not None else None))))
                elif n.endswith("File::create") or n.endswith("File::create_new"):
                    ev.append(("create", repr(a[0]) if a else None))
                elif n.endswith("::write_all"):
                    ev.append(("write_all", repr(a[1]) if len(a) > 1 else None))
                elif n.endswith("::flush") or n.endswith("::sync_all") or n.endswith("::shutdown") or n.endswith("::sync_data"):
                    ev.append(("flush", None))
                elif n.endswith("storage::set_owner"):
                    ev.append(("set_owner", [repr(x) for x in a[1:]]))
                elif n.endswith("unistd::chown") or n.endswith("fs::set_permissions") or n.endswith("PermissionsExt::set_mode"):
                    ev.append((n.rsplit("::", 1)[1], [repr(x) for x in a]))
            out[(exists, ft)] = {"kind": r.kind, "events": ev, "stuck_at": r.stuck_at}
    return out


def index_of(events, pred, start=0):
    for i in range(start, len(events)):
        if pred(events[i]):
            return i
    return -1
