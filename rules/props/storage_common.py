"""Success-path traces of storage::write_file, shared by C02 (open flags), C10 (pre/post hook bracketing) and C13 (mode).

write_file's behaviour on its success path is selected by two finite inputs: whether the file already exists
(`Path::is_file`) and the FileType. The abstract interpreter runs the (helper-inlined) coroutine body for all 2 x 3
combinations with every awaited future completing and every fallible call succeeding, and records the ordered calls.
The rules then read the ORDER and ARGUMENTS of effects off these six traces, whatever the shape of the source
(four `hooks::call` sites or one pair chosen through a tuple, builder chain or helper function, ...). Error paths are
covered separately by the graph rules of each property."""
from ..absint import Val, marker, ok, run, success_model, variant, vbool

WF = "acmed::storage::write_file"
FT = "acmed::storage::FileType"
OO = "tokio::fs::open_options::OpenOptions"


def write_file_traces(prog):
    b = prog.async_body(WF)
    out = {}
    for exists in (True, False):
        for ft in prog.adt_variants(FT):
            def ov(cs, args, exists=exists):
                if cs.is_("std::path::Path::is_file", "std::path::Path::exists", "std::path::Path::try_exists"):
                    return vbool(exists)
                if cs.is_("acmed::storage::get_file_full_path"):
                    return ok(Val("tuple", [marker("DIR"), marker("NAME"), marker("PATH")]))
                if cs.is_("acmed::storage::get_file_path"):
                    return ok(marker("PATH"))
                return None
            st = Val("adt", [marker("FM"), variant(FT, ft), marker("DATA")], ("coroutine", "state"))
            r = run(b, {1: st}, success_model(b, ov, skip_unknown_loops=True), max_steps=60000)
            ev = []
            for c, args, res in r.calls:
                n = c.name or ""
                a = [x.deref() for x in args]
                if n.endswith("hooks::call"):
                    ht = [x for x in a if x.k == "variant" and (x.extra or "").endswith("HookType")]
                    ev.append(("hook", ht[0].v if ht else None, repr(a[1]) if len(a) > 1 else ""))
                elif n.startswith(OO + "::") or n.startswith("std::fs::OpenOptions::"):
                    m = n.rsplit("::", 1)[1]
                    val = a[1] if len(a) > 1 else None
                    ev.append(("oo." + m, (val.v if val is not None and val.k in ("bool", "int") else (repr(val) if val is not None else None))))
                elif n.endswith("File::create") or n.endswith("File::create_new"):
                    ev.append(("create", repr(a[0]) if a else None))
                elif n.endswith("::write_all"):
                    ev.append(("write_all", repr(a[1]) if len(a) > 1 else None))
                elif n.endswith("::flush") or n.endswith("::sync_all") or n.endswith("::shutdown") or n.endswith("::sync_data"):
                    ev.append(("flush", None))
                elif n.endswith("storage::set_owner"):
                    ev.append(("set_owner", [repr(x) for x in a[1:]]))
                elif n.endswith("unistd::chown") or n.endswith("fs::set_permissions") or n.endswith("PermissionsExt::set_mode"):
                    ev.append((n.rsplit("::", 1)[1], [repr(x) for x in a]))
            out[(exists, ft)] = {"kind": r.kind, "events": ev, "stuck_at": r.stuck_at}
    return out


def index_of(events, pred, start=0):
    for i in range(start, len(events)):
        if pred(events[i]):
            return i
    return -1


def check_files_rules(ctx, rid):
    """storage::check_files(fm, types) == every listed file exists, whatever its shape: a `for` loop with early `return false`,
    or `types.iter().all(|t| ..is_file())`. Decided: (a) `true` only after EVERY listed type was tested, (b) a path that is not a
    file gives `false`, (c) `false` ONLY when a file does not exist (or its path cannot be computed) — no size/content test."""
    from ..flow import arg_origins, origins
    from ..mir import try_edges
    from ..util import assigns_const_to, call_true_false_edges, unreachable_without, where
    from .guards import body_family, closure_users
    from .c01 import shrinkers_in
    prog = ctx.prog
    cf = prog.must_body("acmed::storage::check_files")
    fam = body_family(prog, cf.key)
    tests = [(fb, c) for fb in fam for c in fb.calls if c.bb in fb.live_blocks() and (c.name or "").rsplit("::", 1)[-1] in ("is_file", "exists", "try_exists")]
    ctx.floor(rid, "existence test (is_file) in check_files", len(tests), 1)
    for fb, c in tests:
        t_e, f_e = call_true_false_edges(fb, c)
        falses = assigns_const_to(fb, 0, lambda k: k.get("bool") is False)
        trues = assigns_const_to(fb, 0, lambda k: k.get("bool") is True)
        ret = origins(fb, {"l": 0, "p": []})
        direct = any(x.bb == c.bb for x in ret.calls) and "unop:Not" not in ret.via      # `_0 = path.is_file()`
        path_err = [(t["bb"], tg) for g in fb.calls_to("acmed::storage::get_file_path") for t in try_edges(fb, [g.dest["l"]]) for tg in t["err"]]
        # ... or, when the path helper was reorganised and inlined here: the Err arm of any Result that was computed without looking
        # at a file (no metadata / read / open in its provenance) — a path that cannot be computed, not a content criterion
        FS = ("metadata", "symlink_metadata", "len", "read", "read_to_end", "read_to_string", "open", "is_file", "exists", "try_exists")
        for l_, d_ in enumerate(fb.locals):
            if l_ == 0 or not d_["ty"].startswith("core::result::Result<"):
                continue
            sl_ = origins(fb, {"l": l_, "p": []})
            if any((x.name or "").rsplit("::", 1)[-1] in FS and ("std::fs" in (x.name or "") or "std::path" in (x.name or "") or "tokio::fs" in (x.name or "")) for x in sl_.calls):
                continue
            path_err += [(t["bb"], tg) for t in try_edges(fb, [l_]) for tg in t["err"]]
        # (c) false only when missing
        okc, hit = unreachable_without(fb, falses, removed_edges=f_e + path_err)
        ctx.require(rid, okc and (bool(f_e) or direct), where(fb, (hit or falses or [c.bb])[0]),
                    "storage::check_files reports `missing` only when a file does not exist (no size/content criterion)", ["storage::check_files", "exists-only"])
        # (b) not a file => false
        if not direct:
            for (sbb, tg) in f_e:
                r = fb.reachable([tg], removed_nodes=falses)
                ctx.require(rid, not (set(fb.return_blocks()) & r), where(fb, sbb), "a path that is not a file makes check_files answer false", ["check_files", "missing-file"])
        if fb is cf:
            # (a) loop form: `true` only on the end-of-iteration edge
            nx = [x for x in cf.calls_to("core::iter::traits::iterator::Iterator::next")]
            none_edges = [(tt["bb"], tg) for x in nx for tt in try_edges(cf, [x.dest["l"]]) for tg in tt["err"]]
            oka, hit = unreachable_without(cf, trues, removed_edges=none_edges)
            its = [arg_origins(x, 0) for x in nx]
            ctx.require(rid, oka and bool(trues) and bool(none_edges) and all(i.has_leaf("param:2") and not shrinkers_in(i) for i in its), "%s:%s" % (cf.file, cf.line),
                        "check_files answers true only after every listed file was tested", ["check_files", "all-files"])
        else:
            # (a) closure form: the result is Iterator::all(..) of this closure over the whole parameter
            users = closure_users(cf, fb.key)
            retp = origins(cf, {"l": 0, "p": []})
            good = len(users) == 1 and users[0].name.rsplit("::", 1)[-1] == "all" and any(x.bb == users[0].bb for x in retp.calls) and "unop:Not" not in retp.via
            recv = arg_origins(users[0], 0) if users else None
            good = good and recv is not None and recv.has_leaf("param:2") and not shrinkers_in(recv)
            okt, hit = unreachable_without(fb, trues, removed_edges=t_e)
            ctx.require(rid, good and okt, "%s:%s" % (cf.file, cf.line), "check_files answers true only after every listed file was tested", ["check_files", "all-files"])


def file_identity_rules(ctx, rid):
    """each stored object has its own path: get_file_full_path, evaluated per FileType, takes the key's extension from
    fm.pk_file_ext, the certificate's from fm.cert_file_ext, the account's is `bin`, and hands the file type to the name
    template; FileManager's two extension fields come from the like-named configuration getters/options"""
    from ..absint import Val, marker, run, some, struct_val, variant
    from .c13 import GETTERS, fm_wiring_rule
    prog = ctx.prog
    fm_wiring_rule(ctx, rid, {k: v for k, v in GETTERS.items() if k.endswith("_ext")})
    # the function that computes a stored file's location: get_file_full_path today; found by role when it was reorganised — the
    # storage function taking (&FileManager, FileType) from which the name template is rendered
    gp = prog.body("acmed::storage::get_file_full_path")
    if gp is None:
        cands = [b_ for k_, b_ in prog.bodies.items() if k_.startswith("acmed::storage::") and b_.kind == "Fn" and not b_.raw.get("is_async")
                 and b_.raw.get("inputs") == ["&acmed::storage::FileManager", "acmed::storage::FileType"]]
        cands = [prog.body(b_.key) for b_ in cands if any(c.is_("acmed::template::render_template") for c in prog.body(b_.key).calls)]
        gp = cands[0] if len(cands) == 1 else prog.must_body("acmed::storage::get_file_full_path")
    FMK = "acmed::storage::FileManager"
    want = {"PrivateKey": "PKEXT", "Certificate": "CERTEXT"}
    from ..absint import NONE as _NONE
    for ft in prog.adt_variants(FT):
      # every combination of the two extension options being set: an unset one falls back to the constant default, never to the OTHER
      # file's extension (with a name format without {{ file_type }} that would make key and certificate one path)
      for pk_set, crt_set in ((True, True), (True, False), (False, True), (False, False)):
        fm = struct_val(prog, FMK, {"pk_file_ext": some(marker("PKEXT")) if pk_set else _NONE, "cert_file_ext": some(marker("CERTEXT")) if crt_set else _NONE,
                                    "crt_directory": marker("CRTDIR"), "account_directory": marker("ACCDIR")})
        combo = "pk_file_ext %s, cert_file_ext %s" % ("set" if pk_set else "unset", "set" if crt_set else "unset")
        ckey = "%d%d" % (pk_set, crt_set)

        def model(cs, args):
            if cs.is_("acmed::template::render_template"):
                return Val("adt", [Val("unknown", "RENDERED")], ("core::result::Result", "Ok"))
            return None
        try:
            r = run(gp, {1: Val("ref", fm), 2: variant(FT, ft)}, model, max_steps=20000)
        except Exception as e_:
            if pk_set and crt_set:
                raise
            ctx.notes.append("get_file_full_path could not be evaluated for %s (%s): %s" % (ft, combo, e_))
            continue
        rt = [a for c, a, res in r.calls if c.is_("acmed::template::render_template")]
        if ft in want:
            ext = None
            ftv = None
            if rt and len(rt[0]) > 1:
                data = rt[0][1].deref()
                if data.k == "adt":
                    names = prog.adt_fields("acmed::storage::CertFileFormat")
                    ext = repr(data.v[names.index("ext")].deref())
                    ftv = repr(data.v[names.index("file_type")].deref())
            own_set = pk_set if ft == "PrivateKey" else crt_set
            if pk_set and crt_set:
                ctx.require(rid, ext is not None and want[ft] in ext and all(o not in ext for k_, o in want.items() if k_ != ft), "%s:%s" % (gp.file, gp.line),
                            "the %s file name uses its own configured extension (%s; run %s)" % (ft, ext, r.kind), ["storage::get_file_full_path", "ext", ft])
                ctx.require(rid, ftv is not None and ("to_string" in ftv or ft in ftv), "%s:%s" % (gp.file, gp.line), "the name template receives the file type (%s)" % ftv,
                            ["storage::get_file_full_path", "file-type-var", ft])
            elif ext is not None:
                ctx.require(rid, (want[ft] in ext) == own_set and all(o not in ext for k_, o in want.items() if k_ != ft), "%s:%s" % (gp.file, gp.line),
                            "%s: the %s extension is %s, never the other file's (%s)" % (combo, ft, "the configured one" if own_set else "the built-in default", ext),
                            ["storage::get_file_full_path", "ext", ft, ckey])
        elif pk_set and crt_set:
            ctx.require(rid, r.kind == "return" and not rt, "%s:%s" % (gp.file, gp.line), "the account file name does not go through the certificate name template", ["storage::get_file_full_path", "account-name"])


def durable_write_rule(ctx, rid, file_types):
    """write_file's success-path traces for the given file types: the file is opened for writing with truncate(true) or create_new(true),
    never in append mode, the data parameter is written after the open and flushed before success is reported (shared: C02.R1 for every
    file type, C11 for the account file — a stale tail or an unflushed buffer is an account that does not survive a restart)"""
    prog = ctx.prog
    b = prog.async_body(WF)
    traces = write_file_traces(prog)
    for (exists, ft), tr in sorted(traces.items()):
        if ft not in file_types:
            continue
        who = "%s file, %s" % (ft, "already exists" if exists else "new")
        ev = tr["events"]
        i_open = index_of(ev, lambda e: e[0] in ("oo.open", "create"))
        if tr["kind"] != "return" or i_open < 0:
            ctx.fail(rid, "%s:%s" % (b.file, b.line), "write_file's success path could not be evaluated or never opens the file (%s): %s" % (who, tr["kind"]), [WF, "trace", ft, str(exists)])
            continue
        if ev[i_open][0] != "create":
            news = [i for i, e in enumerate(ev[:i_open]) if e[0] == "oo.new"]
            flags = {e[0][3:]: e[1] for e in ev[(news[-1] if news else 0):i_open] if e[0].startswith("oo.")}
            ctx.require(rid, flags.get("write") is True and (flags.get("truncate") is True or flags.get("create_new") is True) and flags.get("append") is not True, "%s:%s" % (b.file, b.line),
                        "%s: opened with write(true) and truncate(true)/create_new(true), not append (%s)" % (who, flags), [WF, "open-flags", ft, str(exists)])
        i_w = index_of(ev, lambda e: e[0] == "write_all", i_open)
        ctx.require(rid, i_w > i_open and "DATA" in str(ev[i_w][1]), "%s:%s" % (b.file, b.line), "%s: the data parameter is written after the open" % who, [WF, "write-after-open", ft, str(exists)])
        i_f = index_of(ev, lambda e: e[0] == "flush", max(i_w, 0))
        ctx.require(rid, i_w >= 0 and i_f > i_w, "%s:%s" % (b.file, b.line), "%s: the written data is flushed before write_file reports success" % who, [WF, "flushed", ft, str(exists)])
