"""C11 — accounts are registered once, kept in step with the configuration, and durable.

Decided:
  R1 registration happens only when no account URL is stored, the external binding changed, or the CA answered
     accountDoesNotExist (who-may-call + path conditions);
  R2 requests signed with the current key are sent only where the CA knows it: in synchronize every path to the contact
     update crosses the key roll-over or the `key unchanged` edge;
  R3 roll-over: old key = get_past_key(endpoint.key_hash); AccountKeyRollover{account = stored URL, oldKey = that key's
     JWK}; posted to keyChange (JWS structure itself: C04);
  R4 after each successful update the matching fingerprints are refreshed and the account is saved; a key change at load
     time keeps the old key (pushed to past_keys before replacement) and saves; past_keys is append-only;
  R5 persistence: every field of Account (but file_manager), AccountEndpoint, AccountKey, ExternalAccount is written by
     do_save and restored by do_fetch through same-named storage fields;
  R6 a present but unreadable account file is an error (never `no account`), a fresh identity is created only when no
     file exists, and the error reaches process::exit(1).
  W1: wire shape of the account requests and of the account file, and what is accepted when they are read back (props/wire_shape.py).
"""
from ..flow import arg_origins, origins
from ..mir import CallSite, op_const, op_local, try_edges
from ..util import (POLL, assigns_const_to, effective_callers, flag_switches, agg_assigns, bool_edges, call_true_false_edges, polls, result_return_kinds, switches_on,
                    unreachable_without, where)

LEVEL = "other"
TECHNIQUE = ("who-may-call + path conditions for register_account, must-pass-through ordering in Account::synchronize "
             "(flag-sensitive), must-follow of fingerprint refresh + save on success paths, append-only rule for past_keys, "
             "field coverage / same-name pairing between Account structs and their storage structs, error-edge rules on load"
             '; derived-serde shape tables of the account requests and the account file')
LEVEL_TEXT = ("Decides for all histories the per-step structure that keeps the CA's record and the stored state in line: when "
              "registration may happen, that a key roll-over precedes anything signed with the new key, that every success "
              "path refreshes fingerprints and saves, that superseded keys are never discarded, that all state round-trips "
              "through storage field by field, and that an unreadable file is fatal. The CA's view and bincode's detection "
              "of every truncation are not decided.")
LEVEL_NOTE = ("Not decided: the CA's account table over a history, bincode decoding of arbitrary truncations. Trusted: rustc MIR, "
              "extractor, bincode/serde.")

ACC = "acmed::account::Account"
ACCEP = "acmed::account::AccountEndpoint"
REG = "acmed::acme_proto::account::register_account"
UPC = "acmed::acme_proto::account::update_account_contacts"
UPK = "acmed::acme_proto::account::update_account_key"
SYNC = ACC + "::synchronize"
MUTATORS = ("remove", "retain", "retain_mut", "clear", "pop", "truncate", "drain", "swap_remove", "dedup", "dedup_by", "dedup_by_key", "split_off", "sort", "sort_by",
            "reverse", "take", "replace", "resize", "insert")


def check(ctx):
    prog = ctx.prog
    D1 = ctx.rule("D1", "the account file is rewritten whole and flushed: write_file opens it with truncate/create_new, writes the data, flushes before reporting success")
    from .storage_common import durable_write_rule
    durable_write_rule(ctx, D1, ("Account",))
    W1 = ctx.rule("W1", "wire shape of the account requests (RFC 8555 7.3, 7.3.2, 7.3.5, 7.3.6) and of the account file: member names as written by the derived Serialize impls, none conditional except externalAccountBinding")
    from .wire_shape import check_shapes
    from .wire_shape import check_read_shapes
    check_read_shapes(ctx, W1, ["acmed::acme_proto::structs::account::AccountResponse", "acmed::account::storage::AccountStorage", "acmed::account::storage::AccountEndpointStorage",
                                "acmed::account::storage::AccountKeyStorage", "acmed::account::storage::ExternalAccountStorage"])
    check_shapes(ctx, W1, ["acmed::acme_proto::structs::account::Account", "acmed::acme_proto::structs::account::AccountUpdate", "acmed::acme_proto::structs::account::AccountKeyRollover",
                           "acmed::acme_proto::structs::account::AccountDeactivation", "acmed::account::storage::AccountStorage", "acmed::account::storage::AccountEndpointStorage",
                           "acmed::account::storage::AccountKeyStorage", "acmed::account::storage::ExternalAccountStorage"])
    R1 = ctx.rule("R1", "register_account only when no URL is stored, the external binding changed, or the CA reported accountDoesNotExist")
    callers = effective_callers(prog, REG)
    allowed = {SYNC, ACC + "::register", UPC, UPK}
    ctx.require(R1, callers <= allowed and SYNC in callers, "acmed/src/acme_proto/account.rs", "register_account callers = %s" % sorted(callers), [REG, "callers"])
    sb = prog.async_body(SYNC)
    regs = sb.calls_to(REG)
    ctx.floor(R1, "register_account calls in synchronize", len(regs), 1)
    # synchronize is EVALUATED over (account URL stored?) x (binding: none | same | changed) x (key changed?) x (contacts changed?): which
    # requests it starts, in which order. When the code cannot be evaluated the shape rules below decide instead.
    sync_tab = sync_table(prog, sb)
    sync_eval = all(v[0] == "return" for v in sync_tab.values())
    ctx.notes.append("Account::synchronize evaluated on %d/24 combinations" % sum(1 for v in sync_tab.values() if v[0] == "return"))
    if sync_eval:
        for (url, ext, key, ct), (kind, ev) in sorted(sync_tab.items()):
            if not url or ext == "changed":
                want = ["create:register_account", "poll:register_account"]
            else:
                want = (["create:update_account_key", "poll:update_account_key"] if key else []) + (["create:update_account_contacts", "poll:update_account_contacts"] if ct else [])
            got = [e for e in ev]
            # creations may be interleaved differently as long as each request is awaited before the next one is created
            if url and ext != "changed" and "register_account" not in " ".join(got):
                continue        # update rows: reported under R2 below
            ctx.require(R1, got == want, "%s:%s" % (sb.file, sb.line),
                        "url %s, binding %s, key %s, contacts %s -> %s (expected %s)" % ("stored" if url else "empty", ext, "changed" if key else "same", "changed" if ct else "same", got, want),
                        [SYNC, "sync-table", str(url), ext, str(key), str(ct)])
    ie = [c for c in sb.calls_to("alloc::string::String::is_empty") if (ACCEP, "account_url") in arg_origins(c, 0).fields]
    if not sync_eval:
        ctx.floor(R1, "account_url.is_empty() test", len(ie), 1)
    empty_edges = []
    for c in ie:
        t, f = call_true_false_edges(sb, c)
        empty_edges += t
    eab = [c for c in sb.calls if c.fn in ("core::cmp::PartialEq::ne", "core::cmp::PartialEq::eq") and c.bb in sb.live_blocks()
           and (ACCEP, "external_account_hash") in (arg_origins(c, 0).fields | arg_origins(c, 1).fields)]
    if not sync_eval:
        ctx.floor(R1, "external_account_hash comparison", len(eab), 1)
    changed_edges = []
    for c in ([] if sync_eval else eab):
        t, f = call_true_false_edges(sb, c)
        changed_edges += t if c.fn.endswith("::ne") else f
        other = arg_origins(c, 0).calls + arg_origins(c, 1).calls
        ctx.require(R1, any(x.is_("acmed::account::hash_external_account") for x in other), c.where(), "the stored binding fingerprint is compared with the configured binding's", [SYNC, "eab-compare"])
    good, hit = unreachable_without(sb, [c.bb for c in regs], removed_edges=empty_edges + changed_edges)
    ctx.require(R1, sync_eval or (bool(empty_edges) and bool(changed_edges) and good), regs[0].where() if regs else "-",
                "in synchronize, registration is reached only when account_url is empty or the external binding changed", [SYNC, "register-condition"])
    aut = account_update_table(prog)          # when evaluated, R4's `answer-evaluated` rows decide (bookkeeping_rule)
    for key in ([] if aut is not None else [UPC, UPK]):
        b = prog.async_body(key)
        rs = b.calls_to(REG)
        ctx.floor(R1, "re-registration site in %s" % key.rsplit("::", 1)[1], len(rs), 1)
        arms = []
        for i in b.live_blocks():
            t = b.term(i)
            if t["t"] != "switch":
                continue
            dl = op_local(t["discr"])
            for kind, bb, j, st in b.defs.get(dl, []):
                if kind == "stmt" and st["s"] == "assign" and st["rv"]["k"] == "discr" and st["rv"].get("adt", "").endswith("AcmeError"):
                    names = {int(v[0]): v[1] for v in st["rv"]["variants"]}
                    for val, tg in t["arms"]:
                        if names.get(val) == "AccountDoesNotExist":
                            arms.append((i, tg))
                        elif {c.bb for c in rs} & b.reachable([tg]):
                            ctx.fail(R1, where(b, i), "%s re-registers the account on ACME error %s (only accountDoesNotExist means the CA lost it)" % (key.rsplit("::", 1)[1], names.get(val)),
                                     [key, "reregister-on", names.get(val, str(val))])
                    if {c.bb for c in rs} & b.reachable([t["otherwise"]]) and len(t["arms"]) < len(names):
                        ctx.fail(R1, where(b, i), "%s re-registers the account on unlisted ACME errors" % key.rsplit("::", 1)[1], [key, "reregister-on", "otherwise"])
                    src = origins(b, st["rv"]["place"])
                    ctx.require(R1, any(x.is_("acmed::acme_proto::structs::error::HttpApiError::get_acme_type") for x in src.calls), where(b, i),
                                "the error type examined is the problem document's ACME type", [key, "error-type-source"])
        # the same test written as `err.is_acme_err(AcmeError::AccountDoesNotExist)`
        for c in b.calls:
            if c.bb in b.live_blocks() and (c.name or "").endswith("::is_acme_err") and len(c.args) > 1:
                cv = {x.get("variant") or str(x.get("pp", "")).rsplit("::", 1)[-1] for x in arg_origins(c, 1).consts}
                t_, f_ = call_true_false_edges(b, c)
                if cv == {"AccountDoesNotExist"}:
                    arms += t_
                elif {x.bb for x in rs} & b.reachable([tg for _, tg in t_]):
                    ctx.fail(R1, c.where(), "%s re-registers the account on ACME error %s" % (key.rsplit("::", 1)[1], sorted(cv)), [key, "reregister-on", ",".join(sorted(cv))])
        good, hit = unreachable_without(b, [c.bb for c in rs], removed_edges=arms)
        ctx.require(R1, bool(arms) and good, rs[0].where() if rs else "-", "%s re-registers only on accountDoesNotExist" % key.rsplit("::", 1)[1], [key, "reregister-condition"])

    R2 = ctx.rule("R2", "in synchronize the contact update (signed with the current key) is reached only after the key roll-over or when the key is unchanged")
    upc = sb.calls_to(UPC)
    upk_polls = polls(sb, UPK)
    if sync_eval:
        for (url, ext, key, ct), (kind, ev) in sorted(sync_tab.items()):
            if not (url and ext != "changed"):
                continue
            want = (["create:update_account_key", "poll:update_account_key"] if key else []) + (["create:update_account_contacts", "poll:update_account_contacts"] if ct else [])
            ctx.require(R2, list(ev) == want, "%s:%s" % (sb.file, sb.line),
                        "url stored, binding %s, key %s, contacts %s -> %s (expected %s: one update per changed item, the key roll-over completed first)"
                        % (ext, "changed" if key else "same", "changed" if ct else "same", list(ev), want), [SYNC, "sync-table", str(url), ext, str(key), str(ct)])
    else:
        ctx.floor(R2, "update_account_contacts call in synchronize", len(upc), 1)
        ctx.floor(R2, "update_account_key await in synchronize", len(upk_polls), 1)
        # the key-changed test: a bool computed from hash_key(..) and the endpoint's stored key_hash (`key_changed` today), found by
        # provenance; `==`/`!=` orientation is read off the comparison
        def cmp_edges(field, fn_name):
            changed, unchanged = [], []
            def pred(sl):
                return (ACCEP, field) in sl.fields and any(x.is_(fn_name) for x in sl.calls) and not any((ACCEP, f2) in sl.fields for f2 in ("key_hash", "contacts_hash") if f2 != field)
            tr, fl = flag_switches(sb, pred)
            for (sbb, t), (_, f) in zip(tr, fl):
                sl = origins(sb, sb.term(sbb)["discr"])
                ne = any(v.endswith("::ne") for v in sl.via) or "binop:Ne" in sl.via
                eq = any(v.endswith("::eq") for v in sl.via) or "binop:Eq" in sl.via
                if ne == eq:
                    continue
                changed.append((sbb, t if ne else f))
                unchanged.append((sbb, f if ne else t))
            return changed, unchanged
        changed, unchanged_edges = cmp_edges("key_hash", "acmed::account::hash_key")
        ctx.require(R2, bool(changed), "%s:%s" % (sb.file, sb.line), "synchronize tests hash_key(current_key) against endpoint.key_hash", [SYNC, "key-changed-def"])
        r = sb.reachable_flags(0, removed_nodes=[p.bb for p in upk_polls], removed_edges=unchanged_edges)
        bad = [c for c in upc if c.bb in r]
        ctx.require(R2, bool(unchanged_edges) and not bad, bad[0].where() if bad else (upc[0].where() if upc else "-"),
                    "every path to update_account_contacts passes update_account_key's completion or the key-unchanged edge (the CA must know the signing key)",
                    [SYNC, "contacts-before-key"])
        # the key update itself is conditional on key_changed
        upk = sb.calls_to(UPK)
        good, hit = unreachable_without(sb, [c.bb for c in upk], removed_edges=changed)
        ctx.require(R2, bool(changed) and good, upk[0].where() if upk else "-", "update_account_key runs only when the key fingerprint changed (one update per changed item)", [SYNC, "key-update-condition"])
        changed_c, _u = cmp_edges("contacts_hash", "acmed::account::hash_contacts")
        if changed_c:
            good, hit = unreachable_without(sb, [c.bb for c in upc], removed_edges=changed_c)
            ctx.require(R2, good, upc[0].where() if upc else "-", "update_account_contacts runs only when the contacts fingerprint changed", [SYNC, "contacts-update-condition"])

    R3 = ctx.rule("R3", "key roll-over: old key = get_past_key(endpoint.key_hash); oldKey = its JWK; account = stored URL; posted to keyChange")
    rollover_key_rule(ctx, R3)

    must_follow(ctx)
    persistence(ctx)
    load_errors(ctx)


def bookkeeping_rule(ctx, R4, keys):
    """a request that succeeded leaves behind everything `synchronize` later compares with: otherwise the next synchronize sees a
    difference that is not there and registers / updates again (shared with C12: no second registration)"""
    prog = ctx.prog
    table = {REG: ["set_account_url", "set_orders_url", "update_key_hash", "update_contacts_hash", "update_external_account_hash"],
             UPC: ["update_contacts_hash"], UPK: ["update_key_hash"]}
    evaluated_updates = account_update_table(prog) is not None
    for key, needs in table.items():
        if key not in keys:
            continue
        if evaluated_updates and key in (UPC, UPK):
            # decided by value: what each answer of the CA leaves recorded and saved
            for (key2, answer), (kind, res, ev) in sorted(account_update_table(prog).items()):
                if key2 != key:
                    continue
                b_ = prog.async_body(key)
                nm_ = key.rsplit("::", 1)[1]
                upd_ = "update_contacts_hash" if key == UPC else "update_key_hash"
                if answer == "ok":
                    good_ = res == "Ok" and upd_ in ev and "save" in ev and ev.index(upd_) < len(ev) - 1 - ev[::-1].index("save") and "register_account" not in ev
                    txt_ = "accepted: %s then save, success" % upd_
                elif answer.endswith("accountDoesNotExist"):
                    good_ = "register_account" in ev and upd_ not in ev
                    txt_ = "the CA reports the account unknown: it is registered again (and only then)"
                else:
                    good_ = res == "Err" and not ev
                    txt_ = "refused / failed: an error, nothing recorded, no registration"
                ctx.require(R4, good_, "%s:%s" % (b_.file, b_.line), "%s, answer %s -> %s %s (expected: %s)" % (nm_, answer.rsplit(":", 1)[-1], res, ev, txt_), [key, "answer-evaluated", answer.rsplit(":", 1)[-1]])
            continue

        b = prog.async_body(key)
        okb, errb, fwd = result_return_kinds(b)
        ok_own = [i for i in okb]
        ctx.floor(R4, "Ok(()) result in %s" % key.rsplit("::", 1)[1], len(ok_own), 1)
        for n in needs + ["save"]:
            if n == "save":
                nodes = [p.bb for p in polls(b, ACC + "::save")]
            else:
                nodes = [c.bb for c in b.calls_to(ACC + "::" + n)]
            good, hit = unreachable_without(b, ok_own, removed_nodes=nodes)
            ctx.require(R4, bool(nodes) and good, "%s:%s" % (b.file, b.line), "%s: Ok(()) only after account.%s()" % (key.rsplit("::", 1)[1], n), [key, "must-follow", n])
        # what is saved is the UPDATED record: after each bookkeeping call a save follows before success (a save placed before the update
        # writes the old fingerprint: after a restart the change is sent again, authorised by a key the CA no longer holds)
        save_nodes = [p.bb for p in polls(b, ACC + "::save")]
        for n in needs:
            for c in b.calls_to(ACC + "::" + n):
                r_ = b.reachable_after(c.bb, removed_nodes=save_nodes)
                ctx.require(R4, not (set(ok_own) & r_), c.where(), "%s: account.save() follows account.%s() before success" % (key.rsplit("::", 1)[1], n), [key, "saved-before-update", n])
        # the request precedes the bookkeeping
        posts = [p.bb for p in b.calls if p.fn == POLL and p.res and p.res.startswith("acmed::acme_proto::http::")]
        for n in needs:
            cs = b.calls_to(ACC + "::" + n)
            good, hit = unreachable_without(b, [c.bb for c in cs], removed_nodes=posts)
            ctx.require(R4, good and posts, cs[0].where() if cs else "-", "%s: %s happens after the request was answered" % (key.rsplit("::", 1)[1], n), [key, "bookkeeping-before-request", n])
        # ... and a request the CA REFUSED records nothing: from the error edge of the request's result no fingerprint update is reachable
        # (except through a fresh registration, which does its own bookkeeping) — otherwise the key / contacts are taken for accepted
        # and never sent again
        reg_polls = [p.bb for p in b.calls if (p.fn == POLL and p.res and p.res.startswith(REG + "::")) or p.is_(REG)]
        err_targets = []
        for p in b.calls:
            if p.fn == POLL and p.res and p.res.startswith("acmed::acme_proto::http::") and p.bb in b.live_blocks() and p.dest is not None:
                for t in try_edges(b, [p.dest["l"]]):
                    if not t["adt"].endswith("Poll"):
                        err_targets += list(t["err"])
        if err_targets and key != REG:
            for n in needs:
                cs = [c.bb for c in b.calls_to(ACC + "::" + n)]
                reach = set()
                for tg in err_targets:
                    reach |= b.reachable_flags([tg], removed_nodes=reg_polls)        # variant-tag sensitive: `Err(..)?` does not continue
                ctx.require(R4, not (set(cs) & reach), where(b, sorted(set(cs) & reach)[0]) if set(cs) & reach else "%s:%s" % (b.file, b.line),
                            "%s: a refused request does not reach account.%s() (only an accepted change is recorded)" % (key.rsplit("::", 1)[1], n), [key, "bookkeeping-after-refusal", n])


def must_follow(ctx):
    prog = ctx.prog
    R4 = ctx.rule("R4", "success paths refresh the matching fingerprints and save; key change at load keeps the old key; past_keys is append-only")
    from .http_common import keyed_endpoint_update_rule
    keyed_endpoint_update_rule(ctx, R4)
    bookkeeping_rule(ctx, R4, (REG, UPC, UPK))
    # hash updaters write the like-named field from the right source
    for fn, fld, src in (("update_key_hash", "key_hash", "hash_key"), ("update_contacts_hash", "contacts_hash", "hash_contacts"), ("update_external_account_hash", "external_account_hash", "hash_external_account")):
        b = prog.must_body(ACC + "::" + fn)
        w = [(i, st) for i in b.live_blocks() for st in b.blocks[i]["stmts"] if st["s"] == "assign" and any(isinstance(e, dict) and e.get("adt") == ACCEP and e.get("n") == fld for e in st["lhs"]["p"])]
        wc = [c for c in b.calls if c.dest and any(isinstance(e, dict) and e.get("adt") == ACCEP and e.get("n") == fld for e in c.dest["p"])]
        good = False
        for i, st in w:
            if any(x.is_("acmed::account::" + src) for x in origins(b, st["rv"].get("op") or st["rv"].get("ops"), through=True).calls):
                good = True
        for c in wc:
            if c.is_("acmed::account::" + src):
                good = True
        other = [e.get("n") for i, st in w for e in st["lhs"]["p"] if isinstance(e, dict) and e.get("adt") == ACCEP]
        ctx.require(R4, good, "%s:%s" % (b.file, b.line), "%s stores %s(..) into endpoint.%s" % (fn, src, fld), [ACC + "::" + fn, "field"])
    uk = prog.async_body(ACC + "::update_keys")
    # the same function EVALUATED: for every pair of (key type, signature algorithm) states, a differing configuration creates a
    # new current key of the configured type/algorithm and keeps the old one; an equal configuration changes nothing
    kt_rows = key_edit_table(prog)
    if kt_rows is None:
        ctx.ok(R4, "update_keys not evaluable on this tree (structural rules only)")
        pushes = [c for c in uk.calls_to("alloc::vec::Vec::push") if (ACC, "past_keys") in arg_origins(c, 0).fields]
        ctx.floor(R4, "past_keys.push in update_keys", len(pushes), 1)
        assigns = [i for i in uk.live_blocks() for st in uk.blocks[i]["stmts"] if st["s"] == "assign" and any(isinstance(e, dict) and e.get("adt") == ACC and e.get("n") == "current_key" for e in st["lhs"]["p"])]
        assigns += [c.bb for c in uk.calls if c.dest and any(isinstance(e, dict) and e.get("adt") == ACC and e.get("n") == "current_key" for e in c.dest["p"]) and c.bb in uk.live_blocks()]
        ctx.floor(R4, "replacement of current_key in update_keys", len(assigns), 1)
        good, hit = unreachable_without(uk, assigns, removed_nodes=[c.bb for c in pushes])
        ctx.require(R4, good, where(uk, assigns[0]) if assigns else "-", "the current key is pushed to past_keys before it is replaced", [ACC + "::update_keys", "old-key-lost"])
        for c in pushes:
            ctx.require(R4, (ACC, "current_key") in arg_origins(c, 1).fields, c.where(), "what is pushed is the (old) current key", [ACC + "::update_keys", "pushed-value"])
        okb, errb, fwd = result_return_kinds(uk)
        for i in assigns:
            r = uk.reachable_after(i, removed_nodes=[p.bb for p in polls(uk, ACC + "::save")])
            ctx.require(R4, not (set(okb) & r), where(uk, i), "after replacing the key the account is saved before success", [ACC + "::update_keys", "not-saved"])
    else:
        for (k1, a1, k2, a2), got in kt_rows:
            differs = (k1, a1) != (k2, a2)
            want = ("new", k2, a2, [(k1, a1)]) if differs else ("same", k1, a1, [])
            ctx.require(R4, got is not None and got[:4] == want and (not differs or got[4]), "%s:%s" % (uk.file, uk.line),
                        "update_keys evaluated: stored key (%s, %s), configuration (%s, %s) -> %s (expected %s%s)" % (k1, a1, k2, a2, got, want, ", saved" if differs else ""),
                        [ACC + "::update_keys", "evaluated", k1, a1, k2, a2])
    # append-only
    n_sites = 0
    for b in prog.user_bodies(("acmed",)):
        for c in b.calls:
            if c.bb not in b.live_blocks() or not c.args:
                continue
            tys = c.term.get("arg_tys", [])
            if not tys or not tys[0].startswith("&mut "):
                continue
            a0 = arg_origins(c, 0)
            if (ACC, "past_keys") in a0.fields:
                n_sites += 1
                m = (c.name or "").rsplit("::", 1)[-1]
                ctx.require(R4, m not in MUTATORS, c.where(), "Account.past_keys is append-only: `%s` in %s would discard a key another endpoint still needs for its roll-over" % (m, b.key),
                            [b.key.split("::{closure")[0], "past-keys-mutated", m])
    ctx.floor(R4, "mutable uses of Account.past_keys", n_sites, 1)


def persistence(ctx):
    prog = ctx.prog
    R5 = ctx.rule("R5", "every field of Account/AccountEndpoint/AccountKey/ExternalAccount is saved and restored through the same-named storage field")
    pairs = [("acmed::account::Account", "acmed::account::storage::AccountStorage", {"file_manager"}),
             (ACCEP, "acmed::account::storage::AccountEndpointStorage", set()),
             ("acmed::account::AccountKey", "acmed::account::storage::AccountKeyStorage", set()),
             ("acmed::account::ExternalAccount", "acmed::account::storage::ExternalAccountStorage", set())]
    for mem, sto, skip in pairs:
        mf = [f for f in prog.adt_fields(mem) if f not in skip]
        sf = prog.adt_fields(sto)
        ctx.require(R5, set(mf) == set(sf), "acmed/src/account/storage.rs", "%s fields %s == %s fields %s" % (mem.rsplit("::", 1)[1], sorted(mf), sto.rsplit("::", 1)[1], sorted(sf)), [sto, "field-set"])
    # save direction
    def check_literal(body, adt, src_adt, role, through=True):
        lits = agg_assigns(body, adt)
        ctx.require(R5, bool(lits), "%s:%s" % (body.file, body.line), "%s builds a %s" % (body.key.rsplit("::", 2)[-2] if "closure" in body.key else body.key.rsplit("::", 1)[1], adt.rsplit("::", 1)[1]), [body.key.split("::{closure")[0], "literal", adt.rsplit("::", 1)[1]])
        for i, st in lits:
            for f, o in zip(st["rv"]["fields"], st["rv"]["ops"]):
                if f == "file_manager":
                    continue
                sl = origins(body, o, through=True, stop_adts=(src_adt,))
                got = {n for a, n in sl.fields if a == src_adt}
                ctx.require(R5, got == {f}, where(body, i), "%s: %s.%s <- %s.%s (found %s)" % (role, adt.rsplit("::", 1)[1], f, src_adt.rsplit("::", 1)[1], f, sorted(got)),
                            [body.key.split("::{closure")[0], role, adt.rsplit("::", 1)[1], f])
                # ... whole: collections are converted element by element, none is filtered, truncated or reordered on the way
                from .c01 import shrinkers_in
                sl2 = origins(body, o, stop_adts=(src_adt,))
                shr = [v for v in shrinkers_in(sl2) if not v.endswith("::get_context")]
                ctx.require(R5, not shr, where(body, i), "%s: %s.%s keeps every element (%s)" % (role, adt.rsplit("::", 1)[1], f, shr),
                            [body.key.split("::{closure")[0], role + "-whole", adt.rsplit("::", 1)[1], f])
    ds = prog.async_body("acmed::account::storage::do_save")
    check_literal(ds, "acmed::account::storage::AccountStorage", "acmed::account::Account", "save")
    df = prog.async_body("acmed::account::storage::do_fetch")
    check_literal(df, "acmed::account::Account", "acmed::account::storage::AccountStorage", "load")
    for sto, mem in (("acmed::account::storage::AccountEndpointStorage", ACCEP), ("acmed::account::storage::AccountKeyStorage", "acmed::account::AccountKey"),
                     ("acmed::account::storage::ExternalAccountStorage", "acmed::account::ExternalAccount")):
        check_literal(prog.must_body(sto + "::new"), sto, mem, "save")
        check_literal(prog.must_body(sto + "::to_generic"), mem, sto, "load")
    # the key material is the private key in DER and restored from it
    kn = prog.must_body("acmed::account::storage::AccountKeyStorage::new")
    ctx.require(R5, bool(kn.calls_to("acme_common::crypto::openssl_keys::KeyPair::private_key_to_der")), "%s:%s" % (kn.file, kn.line), "the account key is stored as private-key DER", ["AccountKeyStorage::new", "der"])
    kg = prog.must_body("acmed::account::storage::AccountKeyStorage::to_generic")
    ctx.require(R5, bool(kg.calls_to("acme_common::crypto::openssl_keys::KeyPair::from_der")), "%s:%s" % (kg.file, kg.line), "… and restored with KeyPair::from_der", ["AccountKeyStorage::to_generic", "der"])
    # do_save writes what it built, do_fetch decodes what it read
    for c in ds.calls_to("bincode::serialize"):
        sl = arg_origins(c, 0)
        ctx.require(R5, ("acmed::account::storage::AccountStorage", None) != 0 and any(a == "acmed::account::storage::AccountStorage" for a, v in sl.aggs), c.where(), "do_save serialises the AccountStorage it built", ["do_save", "serialised-value"])
    for c in df.calls_to("bincode::deserialize"):
        ctx.require(R5, any(x.is_or_polls("acmed::storage::get_account_data") for x in arg_origins(c, 0).calls), c.where(), "do_fetch decodes the bytes of the account file", ["do_fetch", "decoded-bytes"])


def load_errors(ctx):
    prog = ctx.prog
    R6 = ctx.rule("R6", "unreadable account file = error; new identity only when no file exists; the error ends the process")
    df = prog.async_body("acmed::account::storage::do_fetch")
    none_oks = []
    for i, st in agg_assigns(df, "core::result::Result", "Ok"):
        if st["lhs"]["l"] != 0:
            continue
        sl = origins(df, st["rv"]["ops"][0])
        is_none = any(v == "None" for a, v in sl.aggs if a == "core::option::Option") or any(str(c.get("pp", "")).endswith("None") or c.get("variant") == "None" for c in sl.consts)
        if is_none and not any(v == "Some" for a, v in sl.aggs if a == "core::option::Option"):
            none_oks.append(i)
    ctx.floor(R6, "Ok(None) result in do_fetch", len(none_oks), 1)
    fe = df.calls_to("acmed::storage::account_files_exists")
    edges = []
    for c in fe:
        t, f = call_true_false_edges(df, c)
        edges += f
    good, hit = unreachable_without(df, none_oks, removed_edges=edges)
    ctx.require(R6, bool(edges) and good, where(df, none_oks[0]) if none_oks else "-", "`no stored account` is answered only when the account file does not exist", ["do_fetch", "none-on-error"])
    # `the account file does not exist` means exactly that: check_files answers false only on the false edge of an existence test
    # of the path — an empty, short or otherwise odd file still EXISTS and must be read (and fail loudly); shared with C06.R1
    from .storage_common import check_files_rules
    check_files_rules(ctx, R6)
    afe = prog.must_body("acmed::storage::account_files_exists")
    ctx.require(R6, bool(afe.calls_to("acmed::storage::check_files")), "%s:%s" % (afe.file, afe.line), "account_files_exists is check_files on the account file", ["storage::account_files_exists", "definition"])
    for c in df.calls_to("bincode::deserialize"):
        errs = [tg for t in try_edges(df, [c.dest["l"]]) for tg in t["err"]]
        ctx.require(R6, bool(errs) and all(not (set(none_oks) & df.reachable([e])) for e in errs), c.where(), "a decoding failure propagates as an error", ["do_fetch", "decode-error"])
    fb = prog.async_body("acmed::account::storage::fetch")
    okb, errb, fwd = result_return_kinds(fb)
    ctx.require(R6, not okb and bool(fwd), "%s:%s" % (fb.file, fb.line), "fetch forwards do_fetch's result (errors stay errors)", ["storage::fetch", "forward"])
    lb = prog.async_body(ACC + "::load")
    news = lb.calls_to("acmed::account::AccountKey::new")
    ctx.floor(R6, "AccountKey::new in Account::load", len(news), 1)
    f = lb.calls_to("acmed::account::storage::fetch")
    none_edges = []
    err_ok = True
    for c in f:
        tests = [t for t in try_edges(lb, [c.dest["l"]])]
        for t in tests:
            if t["adt"].endswith("Option"):
                none_edges += [(t["bb"], tg) for tg in t["err"]]
        errs = [tg for t in tests if t["adt"].endswith("ControlFlow") or t["adt"].endswith("Result") for tg in t["err"]]
        err_ok = bool(errs) and all(not ({n.bb for n in news} & lb.reachable([e])) for e in errs)
    # the Option test may be on the payload of the Ok: find switches on Option discriminants fed by fetch
    if not none_edges:
        for i in lb.live_blocks():
            t = lb.term(i)
            if t["t"] == "switch":
                dl = op_local(t["discr"])
                for kind, bb, j, st in lb.defs.get(dl, []):
                    if kind == "stmt" and st["s"] == "assign" and st["rv"]["k"] == "discr" and st["rv"].get("adt", "").endswith("Option"):
                        if any(x.is_or_polls("acmed::account::storage::fetch") for x in origins(lb, st["rv"]["place"]).calls):
                            names = {int(v[0]): v[1] for v in st["rv"]["variants"]}
                            for val, tg in t["arms"]:
                                if names.get(val) == "None":
                                    none_edges.append((i, tg))
                            if not any(names.get(val) == "None" for val, tg in t["arms"]):
                                none_edges.append((i, t["otherwise"]))
    good, hit = unreachable_without(lb, [n.bb for n in news], removed_edges=none_edges)
    ctx.require(R6, bool(none_edges) and good and err_ok, news[0].where() if news else "-", "Account::load creates a fresh key only when fetch reported that no account file exists", [ACC + "::load", "new-identity-condition"])
    im = [b for k, b in prog.bodies.items() if k.startswith("acmed::inner_main")]
    ok_ = False
    from .main_model import trace as _main_trace
    tr_ = _main_trace(prog, True, [])
    tr_ok = _main_trace(prog, False, [])
    if tr_ is not None and tr_ok is not None and tr_["kind"] in ("diverge", "return") and "new" in tr_["events"] and tr_ok["events"][-1:] == ["run"]:
        # evaluation first: inner_main interpreted with MainEventLoop::new answering Err
        ctx.require(R6, tr_["kind"] == "diverge" and "exit" in tr_["events"] and "run" not in tr_["events"], "acmed/src/main.rs",
                    "a failed MainEventLoop::new ends the process (exit) without running: evaluated start-up sequence %s" % tr_["events"], ["main", "exit-on-error"])
        return
    for b in im:
        for c in b.calls_to("acmed::main_event_loop::MainEventLoop::new"):
            for t in try_edges(b, [c.dest["l"]]):
                for tg in t["err"]:
                    r = b.reachable([tg])
                    if any(x.bb in r for x in b.calls_to("std::process::exit")) and not any(x.bb in r for x in b.calls_to("acmed::main_event_loop::MainEventLoop::run")):
                        ok_ = True
    ctx.require(R6, ok_, "acmed/src/main.rs", "a failed MainEventLoop::new ends the process (exit) without running", ["main", "exit-on-error"])
    nb = prog.async_body("acmed::main_event_loop::MainEventLoop::new")
    okb, errb, fwd = result_return_kinds(nb)
    for c in nb.calls_to("acmed::config::Account::to_generic"):
        errs = [tg for t in try_edges(nb, [c.dest["l"]]) if not t["adt"].endswith("Poll") for tg in t["err"]]
        ctx.require(R6, bool(errs) and all(not (set(okb) & nb.reachable([e])) for e in errs), c.where(), "an account that cannot be loaded makes MainEventLoop::new fail", ["MainEventLoop::new", "account-load-error"])


def rollover_key_rule(ctx, R3):
    """shared with C04.R5: the key-change request is authorised by the key the CA still has on record for this endpoint —
    get_past_key(endpoint.key_hash), a lookup by fingerprint among the superseded keys — and oldKey is that key's JWK"""
    prog = ctx.prog
    kb = prog.async_body(UPK)
    gp = kb.calls_to(ACC + "::get_past_key")
    ctx.floor(R3, "get_past_key call", len(gp), 1)
    for c in gp:
        ctx.require(R3, (ACCEP, "key_hash") in arg_origins(c, 1).fields, c.where(), "the old key is looked up by the fingerprint the endpoint still holds", [UPK, "old-key-lookup"])
    ro = kb.calls_to("acmed::acme_proto::structs::account::AccountKeyRollover::new")
    ctx.floor(R3, "AccountKeyRollover::new call", len(ro), 1)
    for c in ro:
        ctx.require(R3, (ACCEP, "account_url") in arg_origins(c, 0, through=True).fields, c.where(), "rollover.account = the stored account URL", [UPK, "rollover-account"])
        ok_ = any(x.is_(ACC + "::get_past_key") for x in arg_origins(c, 1, through=True).calls) and (ACC, "current_key") not in arg_origins(c, 1, through=True).fields
        ctx.require(R3, ok_, c.where(), "rollover.oldKey is built from the key returned by get_past_key (not the current key)", [UPK, "rollover-old-key"])
    rn = prog.must_body("acmed::acme_proto::structs::account::AccountKeyRollover::new")
    for i, st in agg_assigns(rn, "acmed::acme_proto::structs::account::AccountKeyRollover"):
        fs = st["rv"]["fields"]
        ctx.require(R3, origins(rn, st["rv"]["ops"][fs.index("account")]).has_leaf("param:1"), where(rn, i), "AccountKeyRollover.account <- account_str", ["AccountKeyRollover::new", "account"])
        o = origins(rn, st["rv"]["ops"][fs.index("old_key")], through=True)
        ctx.require(R3, o.has_leaf("param:2") and any("jwk_public_key" in x.name and "thumbprint" not in x.name for x in o.calls), where(rn, i), "AccountKeyRollover.old_key <- old_key.jwk_public_key()", ["AccountKeyRollover::new", "old_key"])
    gpk = prog.must_body(ACC + "::get_past_key")
    eq = [c for c in gpk.calls if c.fn in ("core::cmp::PartialEq::eq",)]
    ok_ = False
    for c in eq:
        a, b_ = arg_origins(c, 0, through=True), arg_origins(c, 1, through=True)
        if (any(x.is_("acmed::account::hash_key") for x in a.calls) and b_.has_leaf("param:2")) or (any(x.is_("acmed::account::hash_key") for x in b_.calls) and a.has_leaf("param:2")):
            ok_ = True
    ctx.require(R3, ok_ and (ACC, "past_keys") in origins(gpk, {"l": 0, "p": []}, through=True).fields, "%s:%s" % (gpk.file, gpk.line),
                "get_past_key returns the superseded key whose fingerprint equals the argument", [ACC + "::get_past_key", "match"])



def sync_table(prog, sb):
    """Account::synchronize evaluated for 2 x 3 x 2 x 2 situations: {(url, ext, key, ct): (run kind, [events])} where events are
    `create:<request fn>` / `poll:<request fn>` of register_account / update_account_key / update_account_contacts in order"""
    from ..absint import NONE, Val, marker, ok, run, some, struct_val, success_model, vstr
    out = {}
    for url in (False, True):
        for ext in ("none", "same", "changed"):
            for key in (False, True):
                for ct in (False, True):
                    acc_ep = struct_val(prog, ACCEP, {"account_url": vstr("URL" if url else ""), "external_account_hash": vstr("X0"), "contacts_hash": vstr("C0"), "key_hash": vstr("K0")})

                    def ov(cs, args, ext=ext, key=key, ct=ct, acc_ep=acc_ep):
                        n = cs.name or ""
                        if n.endswith("Account::get_endpoint"):
                            return ok(Val("ref", acc_ep))
                        if n.endswith("hash_external_account"):
                            return vstr("X1" if ext == "changed" else "X0")
                        if n.endswith("hash_contacts"):
                            return vstr("C1" if ct else "C0")
                        if n.endswith("account::hash_key"):
                            return ok(vstr("K1" if key else "K0"))
                        return None
                    acc = struct_val(prog, ACC, {"external_account": NONE if ext == "none" else some(marker("EXT"))})
                    st = Val("adt", [Val("ref", acc), Val("ref", struct_val(prog, "acmed::endpoint::Endpoint", {"name": vstr("ep")}))], ("coroutine", "state"))
                    r = run(sb, {1: st}, success_model(sb, ov), max_steps=80000)
                    ev = []
                    for c, a, res in r.calls:
                        for fn in (REG, UPK, UPC):
                            if c.is_(fn):
                                ev.append("create:" + fn.rsplit("::", 1)[1])
                            elif c.fn == "core::future::future::Future::poll" and c.res and c.res.startswith(fn + "::{closure"):
                                ev.append("poll:" + fn.rsplit("::", 1)[1])
                    out[(url, ext, key, ct)] = (r.kind, ev)
    return out


KT = "acme_common::crypto::key_type::KeyType"
JA = "acme_common::crypto::jws_signature_algorithm::JwsSignatureAlgorithm"
KP = "acme_common::crypto::openssl_keys::KeyPair"
AK = "acmed::account::AccountKey"


def key_edit_table(prog):
    """Account::update_keys interpreted on an account whose current key is (k1, a1) with the configuration (k2, a2):
    [((k1, a1, k2, a2), ("new"|"same", current key type, current algorithm, [superseded (type, alg)], saved?))] or None.
    Samples: every ordered pair of key types under one algorithm, every ordered pair of algorithms under one key type, and both
    changed at once (the comparison must not depend on which pairs are compatible)."""
    from ..absint import Interp, Val, _FRAME_SEQ, _FRAMES, async_state, ok, struct_val, success_model, variant
    key = ACC + "::update_keys"
    b = prog.async_body(key)
    if b is None or prog.adt(KT) is None or prog.adt(JA) is None or prog.adt(AK) is None or prog.adt(KP) is None:
        return None
    kts, jas = prog.adt_variants(KT), prog.adt_variants(JA)
    akf, kpf, accf = prog.adt_fields(AK), prog.adt_fields(KP), prog.adt_fields(ACC)
    if "key_type" not in kpf or "current_key" not in accf or "past_keys" not in accf:
        return None
    natural = {"Rsa2048": "Rs256", "Rsa4096": "Rs256", "EcdsaP256": "Es256", "EcdsaP384": "Es384", "EcdsaP521": "Es512", "Ed25519": "Ed25519", "Ed448": "Ed448"}
    nat = lambda k: natural.get(k) if natural.get(k) in jas else jas[0]
    samples = [(k1, nat(k1), k2, nat(k2)) for k1 in kts for k2 in kts] + [(k1, jas[0], k2, jas[0]) for k1 in kts for k2 in kts] + [(kts[0], a1, kts[0], a2) for a1 in jas for a2 in jas] + \
              [(kts[i % len(kts)], jas[i % len(jas)], kts[(i + 1) % len(kts)], jas[(i + 2) % len(jas)]) for i in range(len(kts) * 2)]

    def mk(kt, al):
        kp = struct_val(prog, KP, {"key_type": variant(KT, kt)})
        fields = {}
        for f in prog.adt(AK)["variants"][0]["fields"]:
            if f["ty"] == KP:
                fields[f["name"]] = kp
            elif f["ty"] == JA:
                fields[f["name"]] = variant(JA, al)
        return struct_val(prog, AK, fields)

    def read(v):
        v = v.deref()
        if v.k != "adt" or not v.extra or v.extra[0] != AK:
            return None
        kt = al = None
        for f, x in zip(prog.adt(AK)["variants"][0]["fields"], v.v):
            xd = x.deref()
            if f["ty"] == KP and xd.k == "adt":
                t = xd.v[kpf.index("key_type")].deref()
                kt = t.v if t.k == "variant" else None
            elif f["ty"] == JA:
                al = xd.v if xd.k == "variant" else None
        return (kt, al) if kt is not None and al is not None else None
    rows = []
    for (k1, a1, k2, a2) in samples:
        saved = [0]

        def model(cs, args):
            n = cs.name or ""
            if n.endswith("::gen_keypair") and args and args[0].deref().k == "variant":
                return ok(struct_val(prog, KP, {"key_type": args[0].deref()}))
            if n.startswith(ACC + "::save") and "{closure" not in n:
                # what is saved is the account as it is at this moment: the new key must already be in place, the old one kept
                now = (_FRAMES.get(getattr(holder[0], "fid", None)) or {}).get(9000)
                if now is not None and now.k == "adt":
                    ck_ = read(now.v[accf.index("current_key")])
                    pk_ = now.v[accf.index("past_keys")].deref()
                    if ck_ == (k2, a2) and pk_.k == "list" and [read(x) for x in pk_.v] == [(k1, a1)]:
                        saved[0] += 1
            return None
        holder = [None]
        acc = struct_val(prog, ACC, {"current_key": mk(k1, a1), "past_keys": Val("list", [])})
        it = Interp(b, success_model(b, model), 100000)
        holder[0] = it
        it.follow = lambda cs: (cs.name or "").startswith(("acmed::account::AccountKey", "<acmed::account::AccountKey", "acme_common::crypto::key_type", "acme_common::crypto::jws_signature_algorithm",
                                                           "<acme_common::crypto::key_type", "<acme_common::crypto::jws_signature_algorithm"))

        def binder(name, ty, i):
            if ty.startswith("&mut "):
                return Val("ref", acc, ("place", 9000, _FRAME_SEQ[0] + 1))
            if ty == KT:
                return variant(KT, k2)
            if ty == JA:
                return variant(JA, a2)
            return None
        try:
            r = it.run({9000: acc, 1: async_state(prog, key, binder)})
        except Exception:
            return None
        cur = (_FRAMES.get(getattr(it, "fid", None)) or {}).get(9000)
        if r.kind != "return" or cur is None or cur.k != "adt":
            return None
        ck = read(cur.v[accf.index("current_key")])
        pk = cur.v[accf.index("past_keys")].deref()
        if ck is None or pk.k != "list":
            return None
        past = [read(x) for x in pk.v]
        if any(x is None for x in past):
            return None
        fresh = cur.v[accf.index("current_key")].deref() is not acc.v[accf.index("current_key")] and (bool(past) or ck != (k1, a1))
        rows.append(((k1, a1, k2, a2), ("new" if fresh else "same", ck[0], ck[1], past, saved[0] > 0)))
    return rows


_AUT = {}


def account_update_table(prog):
    """update_account_contacts / update_account_key EVALUATED for four answers of the CA: {(function, answer): (run kind, Ok|Err, [events])}
    with events drawn from update_*_hash / save / register_account, in order; None when not evaluable"""
    if id(prog) in _AUT:
        return _AUT[id(prog)]
    from ..absint import NONE_V, Interp, Val, _FRAME_SEQ, async_state, marker, ok, some, struct_val, success_model, vstr
    HE, HAE = "acmed::http::HttpError", "acmed::acme_proto::structs::error::HttpApiError"
    out = {}
    try:
        tf = [f for f in prog.adt_fields(HAE) if f in ("error_type", "type", "type_")] or [f for f in prog.adt_fields(HAE) if "type" in f]
        for key in (UPC, UPK):
            b = prog.async_body(key)
            for answer in ("ok", "urn:ietf:params:acme:error:accountDoesNotExist", "urn:ietf:params:acme:error:badPublicKey", "urn:ietf:params:acme:error:unauthorized", "generic"):
                def model(cs, args, answer=answer):
                    if cs.fn == POLL and cs.res and cs.res.startswith("acmed::acme_proto::http::post_jose"):
                        if answer == "ok":
                            inner = ok(Val("unit"))
                        elif answer == "generic":
                            inner = Val("adt", [Val("adt", [marker("ERR")], (HE, "GenericError"))], ("core::result::Result", "Err"))
                        else:
                            doc = struct_val(prog, HAE, {tf[0]: some(vstr(answer)), "status": NONE_V, "detail": NONE_V})
                            inner = Val("adt", [Val("adt", [doc], (HE, "ApiError"))], ("core::result::Result", "Err"))
                        return Val("adt", [inner], ("core::task::poll::Poll", "Ready"))
                    return None
                it = Interp(b, success_model(b, model), 300000)
                it.follow = lambda cs: (cs.name or "").startswith(("acmed::http::HttpError", "<acmed::http::HttpError", "acmed::acme_proto::structs::error::", "<acmed::acme_proto::structs::error::")) or \
                    ((cs.name or "").startswith("acmed::acme_proto::account::") and not (cs.name or "").startswith((REG, UPC, UPK)))
                acc = struct_val(prog, ACC, {})
                st = async_state(prog, key, lambda name, ty, i: Val("ref", acc, ("place", 9000, _FRAME_SEQ[0] + 1)) if ty.endswith("account::Account") else None)
                r = it.run({9000: acc, 1: st})
                if r.kind != "return" or r.ret is None:
                    _AUT[id(prog)] = None
                    return None
                rv = r.ret.deref()
                res = rv.extra[1] if rv.k == "adt" and rv.extra else None
                ev = []
                for c, a, rr in r.calls:
                    n = c.name or ""
                    if "{closure" in n:
                        continue
                    for tag in ("update_key_hash", "update_contacts_hash", "update_external_account_hash"):
                        if n.endswith("Account::" + tag):
                            ev.append(tag)
                    if n.endswith("Account::save"):
                        ev.append("save")
                    if n == REG:
                        ev.append("register_account")
                out[(key, answer)] = (r.kind, res, ev)
    except Exception:
        out = None
    _AUT[id(prog)] = out
    return out
