"""The include merge, EVALUATED. The recursive reader behind config::from_file (read_cnf today) is interpreted (absint, recursion and
the include-path helper followed) on small virtual configuration trees. The file system is replaced by models: canonicalize
normalises the spelling of a path, File::open / read_to_string / fs::read_to_string hand back a token naming the file,
toml::from_str turns that token into the Config value the file contains, glob answers from the tree. What the file CONTAINS is
opaque to the code under analysis (section entries are markers, every Option field of the [global] table gets a marker value
"<file>:<field>"), so the tables stay valid whatever fields the structures have tomorrow.

Expected, from the property's text:  sections from all files are merged (compared as multisets: the statement fixes no order between
files), each file is read once (a marker appearing twice = a file merged twice; a run that does not come back = a cycle not cut),
a global option set in a later-included file overrides earlier ones (and the including file's own value is the earliest), options
nobody overrides survive, env maps are united.

Used by C14 (include clauses), C13/C18/C02 (their options travel through the same merge)."""
import fnmatch
import re

from ..absint import NONE_V, Effect, Interp, Val, _FRAME_SEQ, _FRAMES, ok, some, struct_val, success_model, vstr

CFG = "acmed::config::Config"
GLOB = "acmed::config::GlobalOptions"
ENTRY = "acmed::config::from_file"
SECTIONS = ["endpoint", "rate_limit", "hook", "group", "account", "certificate"]

# scenario: (name, root file, {path: (includes, sections?, global option owners)})
#   global: None = no [global] table; otherwise a dict {field index -> True} saying which of the Option fields the file sets
#   (indices are taken modulo the number of Option fields found in GlobalOptions) plus env keys
SCENARIOS = [
    ("split-global", "/c/main.toml", {
        "/c/main.toml": (["a.toml", "b.toml", "c.toml"], None, []),
        "/c/a.toml": ([], [0, 1], ["ka"]),
        "/c/b.toml": ([], [1, 2], ["kb", "ka"]),
        "/c/c.toml": ([], None, []),
    }),
    ("own-global-first", "/c/main.toml", {
        "/c/main.toml": (["a.toml", "b.toml"], [0, 3, 4], ["km"]),
        "/c/a.toml": ([], [0, 5], []),
        "/c/b.toml": ([], None, []),
    }),
    ("global-only-in-last", "/c/main.toml", {
        "/c/main.toml": (["a.toml", "b.toml"], None, []),
        "/c/a.toml": ([], None, []),
        "/c/b.toml": ([], [6, 7], []),
    }),
    ("every-option", "/c/main.toml", {
        "/c/main.toml": (["a.toml", "b.toml"], list(range(0, 40, 2)), []),
        "/c/a.toml": ([], list(range(0, 40)), []),
        "/c/b.toml": ([], list(range(1, 40, 3)), []),
    }),
    ("diamond", "/c/main.toml", {
        "/c/main.toml": (["a.toml", "b.toml"], None, []),
        "/c/a.toml": (["shared.toml"], [0], []),
        "/c/b.toml": (["shared.toml"], [1], []),
        "/c/shared.toml": ([], [2], []),
    }),
    ("cycle", "/c/main.toml", {
        "/c/main.toml": (["a.toml"], [0], []),
        "/c/a.toml": (["b.toml"], [1], []),
        "/c/b.toml": (["main.toml", "a.toml"], [2], []),
    }),
    ("self-include", "/c/main.toml", {
        "/c/main.toml": (["main.toml", "./main.toml"], [0], []),
    }),
    ("glob-and-literal", "/c/main.toml", {
        "/c/main.toml": (["x.toml", "conf.d/*.toml", "conf.d/y.toml", "./x.toml"], None, []),
        "/c/x.toml": ([], [0], []),
        "/c/conf.d/y.toml": ([], [1], []),
        "/c/conf.d/z.toml": (["../x.toml", "y.toml"], [2], []),
    }),
    ("depth-3-relative", "/c/main.toml", {
        "/c/main.toml": (["sub/a.toml", "b.toml"], [0], []),
        "/c/sub/a.toml": (["b.toml", "deep/c.toml"], [1], []),
        "/c/sub/b.toml": ([], [2], []),
        "/c/b.toml": ([], [3], []),
        "/c/sub/deep/c.toml": (["/c/abs.toml", "../../b.toml"], [1, 4], []),
        "/c/abs.toml": ([], [4, 5], []),
    }),
    ("no-match", "/c/main.toml", {
        "/c/main.toml": (["nothing-*.toml"], [0], []),
    }),
]


def _canon(p):
    parts = []
    for c in p.split("/"):
        if c in ("", "."):
            continue
        if c == "..":
            if parts:
                parts.pop()
            continue
        parts.append(c)
    return "/" + "/".join(parts)


def reader(prog):
    """the (recursive) reader reached from config::from_file inside acmed::config"""
    from ..loops import recursive_sccs
    reach = [k for k in prog.reach([ENTRY]) if k.startswith("acmed::config::")]
    for scc in recursive_sccs(prog, reach):
        for k in scc:
            b = prog.body(k)
            if b is not None and b.kind in ("Fn", "AssocFn") and b.local_ty(0).startswith("core::result::Result<acmed::config::Config"):
                return b
    return None


def option_fields(prog):
    a = prog.adt(GLOB)
    if a is None:
        return None
    return [f["name"] for f in a["variants"][0]["fields"] if f["ty"].startswith("core::option::Option<")]


def map_fields(prog):
    a = prog.adt(GLOB)
    return [f["name"] for f in a["variants"][0]["fields"] if "HashMap<" in f["ty"] or "BTreeMap<" in f["ty"]]


def _tag(path):
    return path[len("/c/"):]


def _file_config(prog, path, spec, opts, maps):
    includes, gl, envk = spec
    fields = {s: Val("list", [vstr("%s:%s" % (_tag(path), s))]) for s in SECTIONS if s in prog.adt_fields(CFG)}
    fields["include"] = Val("list", [vstr(i) for i in includes])
    if gl is None and not envk:
        fields["global"] = NONE_V
    else:
        g = {o: NONE_V for o in opts}
        for i in (gl or []):
            o = opts[i % len(opts)]
            g[o] = some(vstr("%s:%s" % (_tag(path), o)))
        for m in maps:
            g[m] = Val("list", [Val("tuple", [vstr(k), vstr("%s:%s" % (_tag(path), k))]) for k in envk], "map")
        fields["global"] = some(struct_val(prog, GLOB, g))
    return struct_val(prog, CFG, fields)


def expected(files, root, opts):
    """{section: sorted markers}, {option: marker}, {env key: marker}, files read in order"""
    seen = []
    secs = {s: [] for s in SECTIONS}
    glob_ = {}
    env = {}

    def matches(frm, pat):
        base = pat if pat.startswith("/") else frm.rsplit("/", 1)[0] + "/" + pat
        if any(ch in pat for ch in "*?["):
            cb = _canon(base)
            return sorted(p for p in files if fnmatch.fnmatchcase(p, cb) and p.count("/") == cb.count("/"))
        return [_canon(base)] if _canon(base) in files else []

    def visit(p):
        if p in seen:
            return
        seen.append(p)
        includes, gl, envk = files[p]
        for s in SECTIONS:
            secs[s].append("%s:%s" % (_tag(p), s))
        for i in (gl or []):
            o = opts[i % len(opts)]
            glob_[o] = "%s:%s" % (_tag(p), o)
        for k in envk:
            env[k] = "%s:%s" % (_tag(p), k)
        for inc in includes:
            for q in matches(p, inc):
                visit(q)
    visit(root)
    return {s: sorted(v) for s, v in secs.items()}, glob_, env, seen


def evaluate(prog, scenario):
    """-> (sections {name: sorted markers}, options {field: marker}, env {key: marker}) | ("Err", text) | None"""
    name, root, files = scenario
    b = reader(prog)
    opts = option_fields(prog)
    if b is None or not opts:
        return None
    maps = map_fields(prog)
    path_params = [i for i in range(1, b.arg_count + 1) if b.local_ty(i) in ("&std::path::Path", "&std::path::PathBuf", "&str")]
    set_params = [i for i in range(1, b.arg_count + 1) if b.local_ty(i).startswith("&mut ")]
    if len(path_params) != 1:
        return None

    def pat_matches(raw):
        cb = _canon(raw)
        if any(ch in raw for ch in "*?["):
            hits = sorted(p for p in files if fnmatch.fnmatchcase(p, cb) and p.count("/") == cb.count("/"))
            # the glob crate yields the matched paths under the pattern's own (uncanonical) directory spelling
            d_raw = raw.rsplit("/", 1)[0]
            return [d_raw + "/" + p.rsplit("/", 1)[1] for p in hits]
        return [raw] if cb in files else []

    def model(cs, args):
        n = cs.name or ""
        fn = cs.fn or ""
        d = [a.deref() for a in args]
        if fn in ("std::path::Path::canonicalize", "std::fs::canonicalize") and d and d[0].k == "str":
            return ok(vstr(_canon(d[0].v))) if _canon(d[0].v) in files or _canon(d[0].v) == "/c" else Val("adt", [vstr("ENOENT " + d[0].v)], ("core::result::Result", "Err"))
        if fn in ("std::path::Path::to_path_buf", "std::path::PathBuf::as_path", "std::path::Path::new", "std::path::PathBuf::from", "std::path::Path::as_os_str", "std::path::PathBuf::into_os_string") and d and d[0].k == "str":
            return d[0]
        if fn in ("std::path::Path::to_str", "std::ffi::OsStr::to_str") and d and d[0].k == "str":
            return some(Val("ref", d[0]))
        if fn in ("std::path::Path::display", "std::path::Path::to_string_lossy") and d and d[0].k == "str":
            return d[0]
        if fn in ("std::path::Path::parent",) and d and d[0].k == "str":
            return some(Val("ref", vstr(d[0].v.rsplit("/", 1)[0] or "/")))
        if fn in ("std::path::Path::join",) and len(d) > 1 and d[0].k == d[1].k == "str":
            return vstr(d[1].v if d[1].v.startswith("/") else d[0].v.rstrip("/") + "/" + d[1].v)
        if fn in ("std::path::Path::is_absolute",) and d and d[0].k == "str":
            from ..absint import vbool
            return vbool(d[0].v.startswith("/"))
        if fn in ("std::fs::File::open",) and d and d[0].k == "str":
            return ok(Val("file", "FILE:" + _canon(d[0].v))) if _canon(d[0].v) in files else Val("adt", [vstr("ENOENT " + d[0].v)], ("core::result::Result", "Err"))
        if fn in ("std::fs::read_to_string",) and d and d[0].k == "str":
            return ok(vstr("FILE:" + _canon(d[0].v))) if _canon(d[0].v) in files else Val("adt", [vstr("ENOENT " + d[0].v)], ("core::result::Result", "Err"))
        if fn in ("std::io::Read::read_to_string",) and len(d) > 1 and d[0].k == "file" and str(d[0].v).startswith("FILE:"):
            return Effect(ok(Val("int", 1)), [(1, vstr(d[0].v))])
        if (n.startswith("toml::") and n.rsplit("::", 1)[-1].startswith("from_str") or fn.startswith("toml::") and fn.endswith("from_str")) and d and d[0].k == "str" and d[0].v.startswith("FILE:"):
            return ok(_file_config(prog, d[0].v[5:], files[d[0].v[5:]], opts, maps))
        if n.startswith("glob::glob") and d and d[0].k == "str":
            return ok(Val("iter", [ok(vstr(p)) for p in pat_matches(d[0].v)]))
        if fn in ("std::path::PathBuf::push",):
            return None
        return None

    it = Interp(b, success_model(b, model), 400000)
    it.follow = lambda cs: ((cs.name or "").startswith("acmed::config::") or (cs.name or "").startswith("<acmed::config::")) and not (cs.name or "").startswith("acmed::config::init_directories")
    env = {path_params[0]: Val("ref", vstr(root))}
    for k, i in enumerate(set_params):
        env[9000 + k] = Val("list", [])
        env[i] = Val("ref", Val("list", []), ("place", 9000 + k, _FRAME_SEQ[0] + 1))
    try:
        r = it.run(env)
    except RecursionError:
        return ("Err", "does not terminate (recursion)")
    except Exception as e:
        return None
    if r.kind != "return":
        return ("Err", "does not terminate (%s)" % r.kind) if r.kind in ("steps", "depth") else None
    rv = r.ret.deref() if r.ret is not None else None
    if rv is None or rv.k != "adt" or not rv.extra:
        return None
    if rv.extra[1] == "Err":
        return ("Err", repr(rv.v[0].deref()) if rv.v else "")
    cfg = rv.v[0].deref() if rv.v else None
    if cfg is None or cfg.k != "adt":
        return None
    cf = prog.adt_fields(CFG)
    secs = {}
    for s in SECTIONS:
        if s not in cf:
            continue
        lv = cfg.v[cf.index(s)].deref()
        if lv.k != "list" or not all(x.deref().k == "str" for x in lv.v):
            return None
        secs[s] = sorted(x.deref().v for x in lv.v)
    gv = cfg.v[cf.index("global")].deref()
    options, envm = {}, {}
    if gv.k == "adt" and gv.extra and gv.extra[1] == "Some":
        g = gv.v[0].deref()
        gf = prog.adt_fields(GLOB)
        if g.k != "adt":
            return None
        for o in opts:
            ov = g.v[gf.index(o)].deref()
            if ov.k == "adt" and ov.extra and ov.extra[1] == "Some":
                iv = ov.v[0].deref()
                if iv.k != "str":
                    return None
                options[o] = iv.v
            elif not (ov.k == "variant" and ov.v == "None"):
                return None
        for m in maps:
            mv = g.v[gf.index(m)].deref()
            if mv.k != "list":
                return None
            for t in mv.v:
                td = t.deref()
                if td.k != "tuple" or td.v[0].deref().k != "str" or td.v[1].deref().k != "str":
                    return None
                envm[td.v[0].deref().v] = td.v[1].deref().v
    elif not (gv.k == "variant" and gv.v == "None"):
        return None
    return (secs, options, envm)


_cache = {}


def include_table(prog):
    """[(scenario name, got, want)] with got/want = (sections, options, env); None when the reader does not evaluate"""
    if id(prog) in _cache:
        return _cache[id(prog)]
    opts = option_fields(prog)
    rows = []
    out = rows
    for sc in SCENARIOS:
        got = evaluate(prog, sc)
        if got is None:
            out = None
            break
        secs, gl, env, seen = expected(sc[2], sc[1], opts)
        rows.append((sc[0], got, ({s: v for s, v in secs.items() if s in prog.adt_fields(CFG)}, gl, env)))
    _cache[id(prog)] = out
    return out


def differences(got, want):
    """human-readable differences between an evaluated merge and the expected one"""
    if got and got[0] == "Err":
        return ["the tree is refused / does not load: %s" % got[1]]
    out = []
    for s, w in want[0].items():
        g = got[0].get(s)
        if g != w:
            twice = sorted({x for x in (g or []) if (g or []).count(x) > 1})
            lost = sorted(set(w) - set(g or []))
            out.append("section %s: %s" % (s, "; ".join(filter(None, ["merged twice: %s" % twice if twice else "", "lost: %s" % lost if lost else "", "got %s" % g if not twice and not lost else ""]))))
    for o in sorted(set(want[1]) | set(got[1])):
        if got[1].get(o) != want[1].get(o):
            out.append("global option %s: got %s, expected %s" % (o, got[1].get(o), want[1].get(o)))
    for k in sorted(set(want[2]) | set(got[2])):
        if got[2].get(k) != want[2].get(k):
            out.append("global env %s: got %s, expected %s" % (k, got[2].get(k), want[2].get(k)))
    return out
