"""C07 — failures are contained and reported; the daemon keeps serving.

Decided:
  R1 no unlisted panic source in the steady-state call graph (entry MainEventLoop::run; release profile aborts on panic);
  R2 post-operation hooks exactly once per attempt, after the request, with (\"success\", true) on the Ok arm and
     (error text, false) on the Err arm; renew_certificate cannot propagate an error;
  R3 request_certificate returns Ok only through the success edge of storage::write_certificate;
  R4 run(): every finished renewal is re-queued; the loop is left only when there is nothing to renew;
  R5 after a failed attempt every path to the end of renew_certificate crosses a tokio sleep of at least one second
     (constant lower bound of its argument), independent of the post-operation hook's own result;
  R6 every loop reachable from renew_certificate is driven by a finite iterator, is an await loop, or is one of the
     frozen `loop` constructs whose bound argument is itself checked (new-order loop <= 2 turns through the new_reg
     flag, back-off loops that sleep >= 60 s / >= MIN_RATE_LIMIT_SLEEP per turn); no recursion;
  R7 no lock is held while pausing or when request_certificate returns (another certificate is never blocked by a
     failing one); no guard-leak primitives.
"""
import os
import tomllib

from ..flow import arg_origins, origins
from ..locks import analyse, classes_of
from ..loops import recursive_sccs, unexplained_loops
from ..mir import op_place, op_const, op_local, try_edges
from ..panic_allow import enumerate_reach, interval
from ..util import (POLL, assigns_const_to, bool_edges, call_true_false_edges, polls, result_return_kinds, switches_on,
                    unreachable_without, where)
from .c12 import check_no_leak

LEVEL = "other"
TECHNIQUE = ("panic-source enumeration over the call graph with interval/guard discharge + must-pass-through and "
             "at-most-once rules on renew_certificate/run/request_certificate CFGs + loop classification (finite iterator / "
             "await / frozen bounded loops) + constant lower bound of sleep arguments")
LEVEL_TEXT = ("Decides the containment structure for every fault position at once: no reachable panic outside a reasoned "
              "allow-table, the post-operation hook is on every path exactly once with the right status, success is reported "
              "only after the certificate write succeeded, every failure path pauses >= 1 s, every loop has a bound argument, "
              "no lock survives an attempt. Wall-clock bounds and hook processes that never exit are not decided.")
LEVEL_NOTE = ("Not decided: elapsed time, a hook that never exits (no timeout exists), blocking thread::sleep in retries "
              "delaying other tasks on the same worker. Trusted: rustc MIR, extractor, frozen panicking-API list, allow-table "
              "reasons (rules/panic_allow.py), tokio sleep.")

RUN = "acmed::main_event_loop::MainEventLoop::run"
RENEW = "acmed::main_event_loop::renew_certificate"
RC = "acmed::acme_proto::request_certificate"
HOOK = "acmed::certificate::Certificate::call_post_operation_hooks"
SLEEP = "tokio::time::sleep::sleep"


def sleep_sites(body):
    """[(creation CallSite, [poll blocks], lower bound seconds or None)]"""
    out = []
    live = body.live_blocks()
    sleep_polls = [c for c in body.calls if c.fn == POLL and c.res and "tokio::time::sleep::Sleep" in c.res and c.bb in live]
    for c in body.calls_to(SLEEP):
        lb = duration_lower_bound(body, c.args[0])
        # polls fed by this creation: the poll whose pinned future derives from c.dest
        mine = []
        for p in sleep_polls:
            sl = origins(body, p.args[0])
            if c.dest["l"] in sl.locals:
                mine.append(p.bb)
        out.append((c, mine, lb))
    return out


def duration_lower_bound(body, op):
    """seconds: when the Duration operand is Duration::from_secs(x)/from_millis(x)/new(x, _) with interval(x) known"""
    l = op_local(op)
    if l is None:
        return None
    # `let pause = Duration::from_secs(..); sleep(pause)`: follow whole-local moves/copies
    seen = set()
    while l not in seen:
        seen.add(l)
        ds = body.defs.get(l, [])
        if len(ds) == 1 and ds[0][0] == "stmt" and ds[0][3]["s"] == "assign" and ds[0][3]["rv"]["k"] == "use":
            pl = op_place(ds[0][3]["rv"]["op"])
            if pl is not None and not pl["p"]:
                l = pl["l"]
                continue
        break
    best = None
    for kind, bb, j, x in body.defs.get(l, []):
        if kind != "call":
            return None
        from ..mir import CallSite
        cs = CallSite(body, bb, x)
        if cs.is_("core::time::Duration::from_secs", "core::time::Duration::new"):
            iv = interval(body, cs.args[0])
            v = iv[0] if iv else None
        elif cs.is_("core::time::Duration::from_millis"):
            iv = interval(body, cs.args[0])
            v = iv[0] / 1000.0 if iv else None
        else:
            return None
        if v is None:
            return None
        best = v if best is None else min(best, v)
    return best


def check(ctx):
    prog = ctx.prog
    # mechanisms this property depends on, decided by the rules of the properties that own them:
    #  "success is reported only when the new certificate and key have been installed" -> the request-certificate traces (C02/C03)
    #  "the post-operation hooks run exactly once per attempt" -> every configured hook of that type reaches the certificate (C10.R3)
    from .request_model import request_traces as _rtr, store_rule as _store_rule
    if _rtr(prog) is not None:
        _store_rule(ctx, ctx.rule("S1", "[shared with C02/C03] key and certificate are installed on every successful attempt, after validation"), _rtr(prog))
    from . import c10 as _c10
    ctx.shared("C10", _c10.order_rules)
    ctx.shared("C10", _c10.call_rules)              # a failing hook fails the step: it aborts the sequence and its error reaches the caller
    from . import c02 as _c02
    ctx.shared("C02", lambda c_: _c02.open_rule(c_, c_.rule("R1", "[shared with C02] a rewritten key / certificate file holds the new content only (opened truncating, never appended)")))
    from . import c03 as _c03
    ctx.shared("C03", _c03.no_discarded_results)     # "failure whenever any step failed": no step's error is dropped unexamined
    # "after a failure it tries again": the retry is scheduled from certificate_files_exists — a half-installed pair (key without
    # certificate, after a failure between the two writes) must read as "not installed", i.e. check_files means EVERY file exists
    from .storage_common import check_files_rules as _cfr
    ctx.shared("C06", lambda c_: _cfr(c_, c_.rule("R1", "[shared with C06] check_files answers true only when every listed file exists: a lone key file does not pass for an installed certificate")))
    cargo = tomllib.load(open(os.path.join(ctx.repo, "Cargo.toml"), "rb"))
    ctx.notes.append("release profile panic = %s" % cargo.get("profile", {}).get("release", {}).get("panic", "unwind"))
    R1 = ctx.rule("R1", "every panic source reachable from MainEventLoop::run is discharged (A1-A5) or allow-listed with a reason; a new one is a violation")
    counts = enumerate_reach(ctx, R1, [RUN, RUN + "::{closure#0}"], crates=("acmed", "acme_common"))
    # conditional allowances
    from .guards import gen_range_guard, nonzero_limit_guard
    if any(k[0] == "acmed::endpoint::RateLimit::get_sleep_duration" for k in counts):
        nonzero_limit_guard(ctx, R1)
    if any(k[2].endswith("gen_range") for k in counts):
        gen_range_guard(ctx, R1)
    # the backoff index derives from Ord::min
    rb = prog.async_body(RENEW)
    for i in rb.live_blocks():
        t = rb.term(i)
        if t["t"] == "assert" and t["kind"] == "BoundsCheck":
            idx = t["ops"][1]
            if op_const(idx) is None:
                sl = origins(rb, idx)
                if not sl.consts or sl.locals - {op_local(idx)}:
                    iv, ln = interval(rb, idx), interval(rb, t["ops"][0])
                    ok = sl.via_any("core::cmp::Ord::min") or (iv is not None and ln is not None and 0 <= iv[0] and iv[1] < ln[0])
                    ctx.require(R1, ok, where(rb, i), "non-constant back-off index is bounded by Ord::min(.., len-1)", [RENEW, "backoff-index"])

    # ------------------------------------------------------------------ R2
    R2 = ctx.rule("R2", "post-operation hooks run exactly once per attempt, after request_certificate, with (success,true)/(error,false)")
    rc_polls = polls(rb, RC)
    hook_calls = rb.calls_to(HOOK)
    hook_polls = polls(rb, HOOK)
    ctx.floor(R2, "request_certificate await in renew_certificate", len(rc_polls), 1)
    ctx.floor(R2, "call_post_operation_hooks call in renew_certificate", len(hook_calls), 1)
    rets = rb.return_blocks()
    if rc_polls and hook_polls:
        after_rc = rb.reachable_after(rc_polls[0].bb, removed_nodes=[p.bb for p in hook_polls])
        # the rc poll loop itself re-polls; exits go through Ready. returns must not be reachable without the hook
        ctx.require(R2, not (set(rets) & after_rc), where(rb, rets[0]) if rets else "-",
                    "every path from the end of request_certificate to the end of renew_certificate awaits the post-operation hooks",
                    [RENEW, "hook-skipped"])
        ok, hit = unreachable_without(rb, [c.bb for c in hook_calls], removed_nodes=[p.bb for p in rc_polls])
        ctx.require(R2, ok, hook_calls[0].where(), "the post-operation hooks are called only after request_certificate was awaited",
                    [RENEW, "hook-before-request"])
        for c in hook_calls:
            again = set(x.bb for x in hook_calls) & rb.reachable_after(c.bb)
            ctx.require(R2, not again, c.where(), "post-operation hooks are called at most once per attempt", [RENEW, "hook-twice"])
        # status values: decided by EVALUATING renew_certificate for request Ok/Err x hook Ok/Err when that is possible (whatever the
        # shape: tuple, enum with accessors, Option<String>, report struct ..), by the shape of the match otherwise
        ev = renew_traces(prog, rb)
        ctx.notes.append("renew_certificate evaluated for %d/4 (request, hook) outcome combinations" % sum(1 for v in ev.values() if v["kind"] == "return"))
    if rc_polls and hook_polls and all(v["kind"] == "return" for v in ev.values()):
        for (rq, hk), v in sorted(ev.items()):
            hooks_ = [e for e in v["events"] if e[0] == "hook"]
            req_i = [i for i, e in enumerate(v["events"]) if e[0] == "request"]
            hook_i = [i for i, e in enumerate(v["events"]) if e[0] == "hook"]
            who = "request %s, hook %s" % ("Ok" if rq else "Err", "Ok" if hk else "Err")
            ctx.require(R2, len(hooks_) == 1 and req_i and hook_i and req_i[0] < hook_i[0], "%s:%s" % (rb.file, rb.line), "%s: the post-operation hooks run once, after the request (%s)" % (who, v["events"]),
                        [RENEW, "hook-once", str(rq), str(hk)])
            if hooks_:
                st_txt, flag = hooks_[0][1][0], hooks_[0][1][1]
                ctx.require(R2, flag == ("bool(True)" if rq else "bool(False)"), "%s:%s" % (rb.file, rb.line), "%s: is_success = %s (found %s)" % (who, rq, flag), [RENEW, "is_success-arm", str(rq), str(hk)])
                ctx.require(R2, (st_txt == "str('success')") if rq else ("REQ_ERR" in st_txt), "%s:%s" % (rb.file, rb.line),
                            "%s: status text = %s (found %s)" % (who, "\"success\"" if rq else "the error's message", st_txt), [RENEW, "status-text", str(rq), str(hk)])
    elif rc_polls and hook_polls:
        rc_creation = rb.calls_to(RC)
        tests = try_edges(rb, [rc_creation[0].dest["l"]]) if rc_creation else []
        tests = [t for t in tests if not t["adt"].endswith("Poll")]
        ok_t = [tg for t in tests for tg in t["ok"]]
        err_t = [tg for t in tests for tg in t["err"]]
        ctx.require(R2, bool(ok_t) and bool(err_t), rc_creation[0].where() if rc_creation else "-",
                    "the result of request_certificate is matched (Ok / Err arms)", [RENEW, "result-unmatched"])
        # the bool handed to the hook
        for c in hook_calls:
            sl = arg_origins(c, 2)
            tuples = []
            for i in rb.live_blocks():
                for st in rb.blocks[i]["stmts"]:
                    if st["s"] == "assign" and st["rv"]["k"] == "agg" and st["rv"].get("agg") == "tuple" and len(st["rv"]["ops"]) == 2 \
                            and st["lhs"]["l"] in sl.locals:
                        cst = op_const(st["rv"]["ops"][1])
                        if cst is not None and "bool" in cst:
                            tuples.append((i, cst["bool"], st["rv"]["ops"][0]))
            ctx.floor(R2, "(status, is_success) tuples feeding the hook", len(tuples), 2)
            for i, val, sop in tuples:
                under_ok = any(rb.dominates(t, i) for t in ok_t)
                under_err = any(rb.dominates(t, i) for t in err_t)
                good = (under_ok and not under_err and val is True) or (under_err and not under_ok and val is False)
                ctx.require(R2, good, where(rb, i), "is_success=%s is set on the %s arm of the request result" %
                            (val, "Ok" if under_ok else "Err" if under_err else "?"), [RENEW, "is_success-arm", str(val)])
                ssl = origins(rb, sop)
                if val is True:
                    ctx.require(R2, any(c2.get("str") == "success" for c2 in ssl.consts), where(rb, i), "status text on success is \"success\"", [RENEW, "status-success"])
                else:
                    ctx.require(R2, ("acme_common::error::Error", "message") in ssl.fields, where(rb, i), "status text on failure is the error's message", [RENEW, "status-error"])
    out_ty = prog.must_body(RENEW).raw.get("output", "")
    ctx.require(R2, "Result<" not in out_ty, "%s:%s" % (rb.file, rb.line), "renew_certificate cannot propagate an error (output %s)" % out_ty[:60], [RENEW, "output-type"])

    # ------------------------------------------------------------------ R3
    R3 = ctx.rule("R3", "request_certificate reports success only after storage::write_certificate succeeded")
    rcb = prog.async_body(RC)
    wc = rcb.calls_to("acmed::storage::write_certificate")
    ctx.floor(R3, "write_certificate call in request_certificate", len(wc), 1)
    okb, errb, fwd = result_return_kinds(rcb)
    ctx.floor(R3, "Ok(..) result sites in request_certificate", len(okb), 1)
    if wc:
        ok_edges = []
        for c in wc:
            for t in try_edges(rcb, [c.dest["l"]]):
                if not t["adt"].endswith("Poll"):
                    ok_edges += [(t["bb"], tg) for tg in t["ok"]]
        good, hit = unreachable_without(rcb, okb + fwd, removed_edges=ok_edges)
        ctx.require(R3, good and ok_edges, where(rcb, (hit or okb or [0])[0]),
                    "Ok(()) is produced only on the success edge of write_certificate", [RC, "ok-before-write"])

    # ------------------------------------------------------------------ R4
    R4 = ctx.rule("R4", "MainEventLoop::run re-queues every finished renewal and only returns when nothing is queued")
    runb = prog.async_body(RUN)
    ie = runb.calls_to("futures_util::stream::futures_unordered::FuturesUnordered::is_empty")
    nxt = [c for c in runb.calls if c.fn == POLL and c.res and "stream::next::Next" in c.res and c.bb in runb.live_blocks()]
    # the set is known to be empty on the true edge of `renewals.is_empty()` and on the `None` edge of `renewals.next().await`
    # (FuturesUnordered yields None only when it holds no future): `loop { if is_empty {return} .. }` and `while let Some(..) = next().await`
    tr_edges = []
    for c in ie:
        t, f = call_true_false_edges(runb, c)
        tr_edges += t
    for c in nxt:
        for t in try_edges(runb, [c.dest["l"]]):
            if not t["adt"].endswith("Poll"):
                tr_edges += [(t["bb"], tg) for tg in t["err"]]
    ctx.floor(R4, "tests that the renewal set is empty (is_empty() / None from next().await)", len(tr_edges), 1)
    good, hit = unreachable_without(runb, runb.return_blocks(), removed_edges=tr_edges)
    ctx.require(R4, good and tr_edges, where(runb, (hit or [0])[0]), "run() returns only when the renewal set is empty", [RUN, "exit"])
    pushes = runb.calls_to("futures_util::stream::futures_unordered::FuturesUnordered::push")
    loop_pushes = [p for p in pushes if nxt and runb.scc_of(p.bb) and nxt[0].bb in runb.scc_of(p.bb)]
    ctx.floor(R4, "renewals.next().await in run", len(nxt), 1)
    ctx.floor(R4, "re-queue push inside the main loop", len(loop_pushes), 1)
    if nxt and loop_pushes:
        # Some(..) edge of the stream item -> push before the next is_empty test
        item_tests = [t for t in try_edges(runb, [nxt[0].dest["l"]]) if not t["adt"].endswith("Poll")]
        some_targets = [tg for t in item_tests for tg in t["ok"]]
        for tg in some_targets:
            r = runb.reachable([tg], removed_nodes=[p.bb for p in loop_pushes])
            ctx.require(R4, not (({c.bb for c in ie} | {c.bb for c in nxt}) & r), where(runb, tg), "a finished renewal is pushed back before the loop continues", [RUN, "not-requeued"])
        for p in loop_pushes:
            sl = arg_origins(p, 1)
            ctx.require(R4, any(x.is_(RENEW) for x in sl.calls), p.where(), "what is re-queued is renew_certificate(..) of the finished task's own handles", [RUN, "requeue-what"])

    # ------------------------------------------------------------------ R5
    R5 = ctx.rule("R5", "after a failed attempt, every path to the end of renew_certificate awaits tokio::time::sleep(d) with a constant lower bound d >= 1 s")
    sl_sites = sleep_sites(rb)
    ctx.floor(R5, "tokio sleep sites in renew_certificate", len(sl_sites), 3)
    long_polls = []
    for c, pbs, lb in sl_sites:
        if lb is not None and lb >= 1 and pbs:
            long_polls += pbs
            ctx.ok(R5, "sleep @%s:%s has constant lower bound %ss" % (rb.file_of(c.bb), c.line, lb))
        else:
            ctx.notes.append("sleep @%s: no constant lower bound (lb=%s) — does not count as a pause" % (c.line, lb))
    ev5 = renew_traces(prog, rb) if rc_polls else {}
    if rc_polls and ev5 and all(v["kind"] == "return" for v in ev5.values()):
        lbs = {c.bb: lb for c, pbs, lb in sl_sites}
        for (rq, hk), v in sorted(ev5.items()):
            if rq:
                continue
            hook_i = [i for i, e in enumerate(v["events"]) if e[0] == "hook"]
            after = [e for e in v["events"][(hook_i[0] if hook_i else 0):] if e[0] == "sleep"]
            good = any((lbs.get(e[1]) or 0) >= 1 for e in after)
            ctx.require(R5, good, "%s:%s" % (rb.file, rb.line), "failed attempt (hook %s): a pause >= 1 s follows before renew_certificate returns (sleeps after the hooks: %s)"
                        % ("Ok" if hk else "Err", [(e[1], lbs.get(e[1])) for e in after]), [RENEW, "no-pause-after-failure", str(hk)])
    elif rc_polls:
        rc_creation = rb.calls_to(RC)
        tests = [t for t in try_edges(rb, [rc_creation[0].dest["l"]]) if not t["adt"].endswith("Poll")]
        err_t = [tg for t in tests for tg in t["err"]]
        ctx.floor(R5, "Err arm of the request result", len(err_t), 1)
        for tg in err_t:
            r = rb.reachable_flags(tracked_start(rb, tg), removed_nodes=long_polls)
            ctx.require(R5, not (set(rets) & r), where(rb, tg),
                        "every path from the failure arm to the end of renew_certificate pauses >= 1 s (also when the post-operation hook fails)",
                        [RENEW, "no-pause-after-failure"])
    # ------------------------------------------------------------------ R6
    check_loops(ctx, long_polls)
    # ------------------------------------------------------------------ R7
    R7 = ctx.rule("R7", "no lock guard is held while pausing in renew_certificate or when request_certificate returns")
    before, inn = analyse(rb)
    held_any = [i for i in rb.live_blocks() if before.get(i)]
    ctx.require(R7, not held_any, where(rb, held_any[0]) if held_any else "-", "renew_certificate never owns a lock guard", [RENEW, "guard-held"])
    before, inn = analyse(rcb)
    for r in rcb.return_blocks():
        h = classes_of(rcb, before.get(r, frozenset()))
        ctx.require(R7, not h, where(rcb, r), "request_certificate returns with no guard held (held: %s)" % sorted(h), [RC, "guard-at-return"])
    check_no_leak(ctx)


def tracked_start(body, tg):
    # flag-sensitive reachability must start where the flag is assigned: the arm target itself
    return [tg]


FROZEN_LOOPS = {
    RC + "::{closure#0}": "new-order loop: at most two turns (back edge only after new_reg = true, guarded by !new_reg; checked)",
    "acmed::endpoint::RateLimit::block_until_allowed::{closure#0}": "limiter loop: sleeps >= MIN_RATE_LIMIT_SLEEP_MILISEC per turn, ends when the window allows (limits with number 0 are rejected, C19)",
    RUN + "::{closure#0}": "main loop: infinite by design, ends only when nothing is queued (R4)",
    RENEW + "::{closure#0}": "scheduling back-off loop: every turn sleeps >= 60 s (checked), ends when the certificate can be read",
}


def check_loops(ctx, long_polls=None):
    prog = ctx.prog
    if long_polls is None:
        # called as a shared rule group: the long pauses of renew_certificate are recomputed here
        rb_ = prog.async_body("acmed::main_event_loop::renew_certificate")
        long_polls = [p_ for c_, pbs_, lb_ in sleep_sites(rb_) if lb_ is not None and lb_ >= 1 and pbs_ for p_ in pbs_]
    # an attempt that waits for ever on a lock neither ends nor reports: the lock discipline of C12 (order Account -> Endpoint, no
    # re-acquisition of a held class) is a necessary condition of `ends in bounded time` here too
    ctx.rule("L1", "lock order Account -> Endpoint at every acquisition (shared with C12.L1)")
    ctx.rule("L2", "no acquisition of a lock class the task may already hold (shared with C12.L2)")
    from .c12 import lock_rules
    lock_rules(ctx)
    # a step `failed` also when its hook process was killed: the exit-status rule of C10.R2 (shared)
    R8 = ctx.rule("R8", "a hook counts as succeeded only when its exit status is success() (or allow_failure): signal deaths are failures (shared with C10.R2)")
    from .c10 import child_io_rules, status_rule
    status_rule(ctx, R8)
    child_io_rules(ctx, R8)        # a hook that waits for EOF on its stdin must see it: the attempt ends in bounded time
    # polling waits are the documented constant: no wait taken from what the CA says (a Retry-After of a day would hold the endpoint lock,
    # and with it every other certificate, for a day)
    for fn_ in ("acmed::acme_proto::http::pool_authorization", "acmed::acme_proto::http::pool_order"):
        pb_ = prog.async_body(fn_)
        sl_ = [c for c in pb_.calls if c.bb in pb_.live_blocks() and (c.name or "") in ("std::thread::sleep", "std::thread::functions::sleep", "tokio::time::sleep::sleep")]
        ctx.floor(R8, "pause between polls in %s" % fn_.rsplit("::", 1)[1], len(sl_), 1)
        for c in sl_:
            src = arg_origins(c, 0)
            foreign = sorted({x.name for x in src.calls if not (x.name or "").startswith(("core::time::Duration::", "core::cmp::"))})
            items = {k_.get("item") for k_ in src.consts if k_.get("item")}
            ctx.require(R8, not foreign and not [l for l in src.leaves if l.startswith(("param:", "upvar:"))] and "acmed::DEFAULT_POOL_WAIT_SEC" in items, c.where(),
                        "%s waits DEFAULT_POOL_WAIT_SEC between polls, a constant (also derived from: %s)" % (fn_.rsplit("::", 1)[1], foreign), [fn_, "poll-wait-constant"])
    R6 = ctx.rule("R6", "every loop reachable from renew_certificate is finite-iterator-driven, an await loop, or a frozen loop whose bound argument is checked; no recursion")
    reach = prog.reach([RUN + "::{closure#0}"])
    rec = recursive_sccs(prog, reach)
    ctx.require(R6, not rec, "-", "no recursion in the steady-state call graph (%s)" % rec, ["recursion"])
    n = 0
    for k in sorted(reach):
        if prog.absorbed(k):
            continue   # new helper, examined inside its callers' inlined views
        b = prog.body(k)
        if b.crate not in ("acmed", "acme_common"):
            continue
        for scc in unexplained_loops(b):
            n += 1
            if k not in FROZEN_LOOPS:
                from ..loops import counted_loop
                cl = counted_loop(b, scc)
                if cl is not None:
                    ctx.ok(R6, "%s: counted loop on local _%d (%s by 1 per turn, constant start%s)" % (k, cl["counter"], cl["direction"], ", at most %s turns" % cl["bound"] if cl["bound"] is not None else ""))
                    continue
                # `while reader.read_line(&mut buf)? > 0 { .. }`: the hand-written form of `for line in reader.lines()` — driven by the same
                # reader, left when it reports end of input (a test on the call's result has an edge out of the loop)
                sset_ = set(scc)
                rd_ = [c_ for c_ in b.calls if c_.bb in sset_ and (c_.name or "").rsplit("::", 1)[-1] in ("read_line", "read_until", "read", "read_buf") and ("io::" in (c_.fn or c_.name or ""))]
                reader_driven = False
                for c_ in rd_:
                    for i_ in sset_:
                        t_ = b.term(i_)
                        if t_["t"] == "switch" and any(v_ not in sset_ for v_ in b.succ[i_]) and any(x_.bb == c_.bb for x_ in origins(b, t_["discr"]).calls):
                            reader_driven = True
                if reader_driven:
                    ctx.ok(R6, "%s: loop driven by a reader (read_line/read until end of input), like `lines()`" % k)
                    continue
                ctx.fail(R6, where(b, scc[0]), "unbounded `loop`/`while` in %s (not iterator-driven, not an await loop, not in the frozen table)" % k,
                         [k, "unbounded-loop"])
                continue
            # per-loop bound arguments
            if k == RC + "::{closure#0}":
                # a latch (`new_reg` today; found by its role): every cycle of the loop passes `latch = true`, and those
                # assignments are reachable only while the latch is still false => at most two turns
                from ..util import latch_flags
                regs_ = b.calls_to("acmed::account::Account::register")
                good = False
                for l, (sets, tr, fl) in latch_flags(b, [c.bb for c in regs_]).items():
                    sub = [x for x in scc if x not in set(sets)]
                    cyc = has_cycle(b, sub, excluding=yield_and_next(b))
                    ok2, hit = unreachable_without(b, sets, removed_edges=fl)
                    if not cyc and ok2:
                        good = True
                ctx.require(R6, good, where(b, scc[0]),
                            "new-order loop turns at most twice: every back edge sets a latch to true and is guarded by the latch being false", [k, "new-order-loop"])
            elif k == RENEW + "::{closure#0}":
                sub = [x for x in scc if x not in set(long_polls)]
                cyc = has_cycle(b, sub, excluding=yield_and_next(b))
                ctx.require(R6, not cyc, where(b, scc[0]), "every turn of the scheduling loop sleeps >= 1 s", [k, "schedule-loop"])
            elif k.startswith("acmed::endpoint::RateLimit::block_until_allowed"):
                sp = [p for c, pbs, lb in sleep_sites(b) for p in pbs]
                sub = [x for x in scc if x not in set(sp)]
                cyc = has_cycle(b, sub, excluding=yield_and_next(b))
                mn = prog.const("acmed::MIN_RATE_LIMIT_SLEEP_MILISEC").get("int", 0)
                ctx.require(R6, not cyc and mn >= 1, where(b, scc[0]), "every turn of the limiter loop awaits a sleep (minimum %s ms)" % mn, [k, "limiter-loop"])
            else:
                ctx.ok(R6, "frozen: %s — %s" % (k, FROZEN_LOOPS[k]))
    ctx.floor(R6, "genuine loop constructs found in the steady-state call graph", n, 2)


def yield_and_next(b):
    from ..loops import finite_next_blocks
    s = set(finite_next_blocks(b))
    for i in b.live_blocks():
        if b.term(i)["t"] == "yield":
            s.add(i)
    return s


def has_cycle(b, nodes, excluding=()):
    nodes = set(nodes) - set(excluding)
    color = {}
    for root in nodes:
        if root in color:
            continue
        stack = [(root, iter([s for s in b.succ[root] if s in nodes]))]
        color[root] = 1
        while stack:
            u, it = stack[-1]
            adv = False
            for v in it:
                if color.get(v) == 1:
                    return True
                if v not in color:
                    color[v] = 1
                    stack.append((v, iter([s for s in b.succ[v] if s in nodes])))
                    adv = True
                    break
            if not adv:
                color[u] = 2
                stack.pop()
    return False


_RT = {}


def renew_traces(prog, rb):
    """renew_certificate evaluated for the four combinations (request_certificate Ok/Err) x (post-operation hooks Ok/Err): the ordered
    events request / hook(status, is_success) / sleep(creation block). {(rq, hk): {"kind": .., "events": [..]}}"""
    if rb.key in _RT:
        return _RT[rb.key]
    from ..absint import Val, marker, ok, run, struct_val, success_model
    ERRK = "acme_common::error::Error"
    out = {}
    for rq in (True, False):
        for hk in (True, False):
            def ov(cs, args, rq=rq, hk=hk):
                if cs.fn == "core::future::future::Future::poll" and cs.res:
                    if cs.res.startswith(RC):
                        inner = ok(Val("unit")) if rq else Val("adt", [struct_val(prog, ERRK, {"message": marker("REQ_ERR")})], ("core::result::Result", "Err"))
                        return Val("adt", [inner], ("core::task::poll::Poll", "Ready"))
                    if cs.res.startswith(HOOK):
                        inner = ok(Val("unit")) if hk else Val("adt", [struct_val(prog, ERRK, {"message": marker("HOOK_ERR")})], ("core::result::Result", "Err"))
                        return Val("adt", [inner], ("core::task::poll::Poll", "Ready"))
                if (cs.name or "").endswith("error::Error::prefix") and args:
                    return args[0].deref()
                return None
            st = Val("adt", [marker("CERT"), marker("ACC"), marker("EP")], ("coroutine", "state"))
            r = run(rb, {1: st}, success_model(rb, ov), max_steps=80000)
            evs = []
            for c, a, res in r.calls:
                n = c.name or ""
                if c.is_(HOOK):
                    evs.append(("hook", [repr(x.deref()) for x in a[1:]]))
                elif c.is_(SLEEP):
                    evs.append(("sleep", c.bb))
                elif c.is_(RC):
                    evs.append(("request",))
            out[(rq, hk)] = {"kind": r.kind, "events": evs}
    _RT[rb.key] = out
    return out
