"""C04 — every ACME POST is a valid, fresh, correctly bound JWS.

Decided:
  R1 http::post: the transmitted body is the data builder's result and nothing else; the URL posted to and the URL
     handed to the builder are the same parameter (URL binding);
  R2 nonce freshness in http::post: the nonce handed to the builder is read from Endpoint.nonce in the same loop turn;
     every response that arrived updates the stored nonce BEFORE the status is examined or the function is left
     (success, recoverable or non-recoverable error alike) and before the next turn; a missing nonce triggers new_nonce;
  R3 every closure that can instantiate the builder parameter `F: Fn(&str,&str)` passes ITS url argument as the `url` of
     encode_kid/encode_jwk and its nonce argument as the nonce; the bound is Fn (not FnMut): a retry re-signs identical
     content;
  R4 jwk vs kid: encode_jwk is called only by register_account's builder and by update_account_key's inner object
     (nonce None, url = dir.key_change, result = payload of the outer request); every other builder uses encode_kid with
     kid = the stored account_url of this endpoint; encode_kid_mac only from structs::Account::new (url dir.new_account,
     payload = account key JWK);
  R5 the key and the algorithm of each encode_* call come from the same AccountKey; KeyPair::sign refuses an
     incompatible algorithm before signing;
  R6 tables: default algorithm, compatibility, sign dispatch and `alg` header text per RFC 7518/8037; ECDSA r and s are
     padded to the curve width, which equals the JWK coordinate width (32/48/66);
  R7 JWS shape: protected header members {alg, jwk?, kid?, nonce?, url} (optional ones skipped when absent), flattened
     object {protected, payload, signature}; the signature is computed over exactly the two strings that are emitted.
  W1: wire shape of the JWS envelope / protected header / account payloads and what is accepted of the directory, read off the
  derived serde impls (props/wire_shape.py).
"""
from ..flow import arg_origins, origins
from ..mir import op_const, op_local, try_edges
from ..util import POLL, agg_assigns, call_true_false_edges, polls, result_return_kinds, unreachable_without, where
from . import crypto_tables as ct
from .http_common import POST, SEND, fresh_nonce_rule, nonce_update_rule, post_structure

LEVEL = "other"
TECHNIQUE = ("provenance of the POST body/URL/nonce, must-pass-through of update_nonce on every exit of a received response, "
             "who-may-call for encode_jwk/encode_kid/encode_kid_mac with argument provenance over all builder closures, "
             "table extraction (algorithms, widths) by abstract interpretation, serializer member extraction"
             '; derived-serde shape tables (member names, optional members)')
LEVEL_TEXT = ("Decides for every flow, key type and retry history the structural facts a valid JWS needs: URL and nonce binding, "
              "nonce refreshed from every response before any exit, jwk only for account creation and inside key-change, "
              "matching key/algorithm, the full algorithm and width tables. That a signature verifies and that base64url is "
              "right are OpenSSL/base64 results and not decided.")
LEVEL_NOTE = ("Not decided: signature verification, base64url correctness, the server's nonce ledger when a request never gets a "
              "response. Trusted: rustc MIR, extractor, abstract interpreter, serde derive, openssl.")

ACCKEY = "acmed::account::AccountKey"
ACCOUNT = "acmed::account::Account"
ACCEP = "acmed::account::AccountEndpoint"
ENDPOINT = "acmed::endpoint::Endpoint"
DIR = "acmed::acme_proto::structs::directory::Directory"
ENC_JWK = "acmed::jws::encode_jwk"
ENC_KID = "acmed::jws::encode_kid"
ENC_MAC = "acmed::jws::encode_kid_mac"
PH = "acmed::jws::JwsProtectedHeader"
JD = "acmed::jws::JwsData"


def builder_closures(prog):
    """closures that flow into a generic `F` of the HTTP layer and call an encode_* function"""
    out = {}
    for b in prog.user_bodies(("acmed",)):
        for c in b.calls:
            nm = c.name or ""
            if (nm.startswith("acmed::acme_proto::http::") or nm.startswith("acmed::http::post")) and c.gbodies:
                for g in c.gbodies:
                    gb = prog.body(g)
                    if gb and gb.kind == "Closure" and not gb.is_coroutine and [x for x in gb.calls if (x.name or "").startswith("acmed::jws::encode")]:
                        out[g] = gb
    return out


def jws_table(prog):
    """The three JWS builders (encode_jwk, encode_kid, encode_kid_mac) EVALUATED on symbolic inputs: serde_json::to_string, b64_encode,
    KeyPair::sign, HashFunction::hmac and jwk_public_key are answered with readable terms, every jws:: helper is followed, and the
    resulting flattened JWS is compared with RFC 7515/8555: protected = b64(header{alg, exactly one of jwk/kid, nonce, url}),
    payload = b64(payload), signature = b64(sign_or_mac(key, alg, protected '.' payload)). Returns [(what, got, want)] or None."""
    from ..absint import Val, ok, run, some, variant, vstr
    JSA = "acme_common::crypto::jws_signature_algorithm::JwsSignatureAlgorithm"

    def show(v):
        v = v.deref()
        if v.k == "str":
            return v.v
        if v.k == "adt" and v.extra and v.extra[1] == "Some":
            return "Some(%s)" % show(v.v[0])
        if v.k == "variant":
            return v.v
        return repr(v)

    def model(cs, args):
        n = cs.name or ""
        d = [a.deref() for a in args]
        if n.startswith("serde_json::ser::to_string") and d:
            x = d[0]
            if x.k == "adt" and x.extra and x.extra[0] in (PH, JD):
                fs = prog.adt_fields(x.extra[0])
                return ok(vstr("%s{%s}" % (x.extra[0].rsplit("::", 1)[1], ",".join("%s=%s" % (f, show(x.v[i])) for i, f in enumerate(fs)))))
            return ok(vstr("JSON(%r)" % x))
        if n.endswith("b64_encode") and d:
            return vstr("B64(%s)" % show(d[0]))
        if n.endswith("KeyPair::sign") and len(d) > 2:
            return ok(vstr("SIG[%s|%s](%s)" % (show(d[0]), show(d[1]), show(d[2]))))
        if n.endswith("::hmac") and len(d) > 2:
            return ok(vstr("HMAC[%s|%s](%s)" % (show(d[0]), show(d[1]), show(d[2]))))
        if n.endswith("jwk_public_key") and d:
            return ok(vstr("JWK[%s]" % show(d[0])))
        return None
    fol = lambda cs: (cs.name or "").startswith("acmed::jws::")
    rows = []
    cases = [(ENC_JWK, "Es256", {1: "KP", 3: "PAYLOAD", 4: "URL"}, {5: some(vstr("NONCE"))}, "alg=Es256,jwk=Some(JWK[KP]),kid=None,nonce=Some(NONCE),url=URL", "SIG[KP|Es256]"),
             (ENC_JWK, "Rs256", {1: "KP", 3: "PAYLOAD", 4: "URL"}, {5: some(vstr("NONCE"))}, "alg=Rs256,jwk=Some(JWK[KP]),kid=None,nonce=Some(NONCE),url=URL", "SIG[KP|Rs256]"),
             (ENC_KID, "Es384", {1: "KP", 3: "KID", 4: "PAYLOAD", 5: "URL", 6: "NONCE"}, {}, "alg=Es384,jwk=None,kid=Some(KID),nonce=Some(NONCE),url=URL", "SIG[KP|Es384]"),
             (ENC_MAC, "Hs256", {1: "KEY", 3: "KID", 4: "PAYLOAD", 5: "URL"}, {}, "alg=Hs256,jwk=None,kid=Some(KID),nonce=None,url=URL", "HMAC[Sha256|KEY]"),
             (ENC_MAC, "Hs384", {1: "KEY", 3: "KID", 4: "PAYLOAD", 5: "URL"}, {}, "alg=Hs384,jwk=None,kid=Some(KID),nonce=None,url=URL", "HMAC[Sha384|KEY]"),
             (ENC_MAC, "Hs512", {1: "KEY", 3: "KID", 4: "PAYLOAD", 5: "URL"}, {}, "alg=Hs512,jwk=None,kid=Some(KID),nonce=None,url=URL", "HMAC[Sha512|KEY]")]
    for fn, alg, strs, extra, hdr, signer in cases:
        b = prog.body(fn)
        if b is None:
            return None
        env = {i: Val("ref", vstr(v)) for i, v in strs.items()}
        env[2] = Val("ref", variant(JSA, alg))
        env.update(extra)
        try:
            r = run(b, env, model, max_steps=60000, follow=fol)
        except Exception:
            return None
        rv = r.ret.deref() if r.kind == "return" and r.ret is not None else None
        if rv is None or rv.k != "adt" or not rv.extra or rv.extra[1] != "Ok" or not rv.v or rv.v[0].deref().k != "str":
            return None
        prot = "B64(JwsProtectedHeader{%s})" % hdr
        want = "JwsData{protected=%s,payload=B64(PAYLOAD),signature=B64(%s(%s.B64(PAYLOAD)))}" % (prot, signer, prot)
        rows.append(("%s(%s)" % (fn.rsplit("::", 1)[1], alg), rv.v[0].deref().v, want))
    return rows


def check(ctx):
    prog = ctx.prog
    from .http_common import keyed_endpoint_update_rule, new_nonce_source_rule
    N1 = ctx.rule("N1", "nonces come from the directory's newNonce resource; an account's per-endpoint records are updated for the named endpoint only")
    new_nonce_source_rule(ctx, N1)
    keyed_endpoint_update_rule(ctx, N1)
    # the `kid` of a request is the account URL as it survives a restart, and a key roll-over records the new key's fingerprint (else the
    # next request is signed with / rolled over from the wrong key): C11's persistence and bookkeeping rules
    from . import c11 as _c11
    ctx.shared("C11", _c11.persistence)
    ctx.shared("C11", _c11.must_follow)
    # a nonce is used once: the nonce kept by the shared endpoint is only ever replaced by a fresher one (C12's nonce rules — a stale copy
    # of the endpoint written back restores a nonce another task already spent)
    from . import c12 as _c12
    ctx.shared("C12", _c12.check_nonce)
    W1 = ctx.rule("W1", "wire shape of the JWS envelope and protected header (RFC 8555 6.2: alg, nonce, url, exactly one of jwk/kid) and of the account/key-change payloads, as written by the derived Serialize impls")
    from .wire_shape import check_shapes
    from .wire_shape import check_read_shapes
    check_read_shapes(ctx, W1, ["acmed::acme_proto::structs::directory::Directory", "acmed::acme_proto::structs::directory::DirectoryMeta"])
    check_shapes(ctx, W1, ["acmed::jws::JwsData", "acmed::jws::JwsProtectedHeader", "acmed::acme_proto::structs::account::Account", "acmed::acme_proto::structs::account::AccountKeyRollover"])
    pb, sends, builder, upd = post_structure(prog)
    R1 = ctx.rule("R1", "the POST body is the data builder's output; the posted URL and the builder's url argument are the same parameter")
    ctx.floor(R1, "data builder call in http::post", len(builder), 1)
    for c in pb.calls_to("reqwest::async_impl::request::RequestBuilder::body"):
        sl = arg_origins(c, 1)
        ctx.require(R1, any(x.is_("core::ops::function::Fn::call") for x in sl.calls), c.where(), "request.body(..) is the string returned by data_builder(nonce, url)", [POST, "body-source"])
    cp = pb.calls_to("reqwest::async_impl::client::Client::post")
    ctx.floor(R1, "client.post(url)", len(cp), 1)
    for c in cp:
        ctx.require(R1, arg_origins(c, 1).leaves == {"upvar:1"}, c.where(), "client.post receives the `url` parameter", [POST, "posted-url"])
    for c in builder:
        t = arg_origins(c, 1)
        # tuple (nonce, url): field-sensitive
        tl = op_local(c.args[1])
        url_src = origins(pb, {"l": tl, "p": [{"f": 1, "tuple": True}]})
        non_src = origins(pb, {"l": tl, "p": [{"f": 0, "tuple": True}]})
        ctx.require(R1, url_src.leaves == {"upvar:1"}, c.where(), "the builder's url argument is the same `url` parameter (%s)" % sorted(url_src.leaves), [POST, "builder-url"])
        R2 = ctx.rule("R2", "the nonce signed is the endpoint's current nonce; every received response refreshes it before any exit or retry; a missing nonce is fetched first")
        ctx.require(R2, (ENDPOINT, "nonce") in non_src.fields and non_src.has_leaf("upvar:0"), c.where(), "the builder's nonce argument is read from endpoint.nonce", [POST, "builder-nonce"])
    R2 = ctx.rule("R2", "the nonce signed is the endpoint's current nonce; every received response refreshes it before any exit or retry; a missing nonce is fetched first")
    ctx.floor(R2, "update_nonce call in http::post", len(upd), 1)
    fresh_nonce_rule(ctx, R2)
    for c in sends:
        # a retransmission is a NEW JWS (new nonce): no send -> send cycle avoids the data builder (shared with C08.R6)
        after = pb.reachable_after(c.bb, removed_nodes=[u.bb for u in builder])
        ctx.require(R2, c.bb not in after, c.where(), "every send -> send cycle re-runs the data builder (a request body is never re-sent with its used nonce)", [POST, "retry-same-body"])
    nonce_update_rule(ctx, R2)
    for u in upd:
        a = arg_origins(u, 1)
        ctx.require(R2, any(x.is_(*SEND) for x in a.calls) or a.via_any(*SEND), u.where(), "update_nonce reads the response of this transmission", [POST, "nonce-of-response"])
        ctx.require(R2, arg_origins(u, 0).has_leaf("upvar:0"), u.where(), "… into this endpoint", [POST, "nonce-endpoint"])
    un = prog.must_body("acmed::http::update_nonce")
    writes = [i for i in un.live_blocks() for st in un.blocks[i]["stmts"] if st["s"] == "assign" and any(isinstance(e, dict) and e.get("n") == "nonce" and e.get("adt") == ENDPOINT for e in st["lhs"]["p"])]
    ctx.floor(R2, "assignment to endpoint.nonce in update_nonce", len(writes), 1)
    for i in writes:
        st = [s for s in un.blocks[i]["stmts"] if s["s"] == "assign" and any(isinstance(e, dict) and e.get("n") == "nonce" for e in s["lhs"]["p"])][0]
        sl = origins(un, st["rv"].get("op") or st["rv"].get("ops"), through=True)
        ctx.require(R2, sl.has_leaf("param:2") and any(c.get("str") == "Replay-Nonce" or c.get("item") == "acmed::http::HEADER_NONCE" for c in sl.consts), where(un, i),
                    "the stored nonce is the response's Replay-Nonce header", ["http::update_nonce", "header"])
        isn = un.calls_to("acmed::http::is_nonce")
        edges = []
        for c in isn:
            t, f = call_true_false_edges(un, c)
            edges += t
        good, hit = unreachable_without(un, [i], removed_edges=edges)
        ctx.require(R2, bool(edges) and good, where(un, i), "only a syntactically valid nonce is stored", ["http::update_nonce", "validated"])
    nn = pb.calls_to("acmed::http::new_nonce")
    isnone = [c for c in pb.calls_to("core::option::Option::is_none") if (ENDPOINT, "nonce") in arg_origins(c, 0).fields]
    ctx.require(R2, bool(nn) and bool(isnone), "%s:%s" % (pb.file, pb.line), "a missing nonce triggers new_nonce before the first transmission", [POST, "no-initial-nonce"])
    for c in isnone:
        t, f = call_true_false_edges(pb, c)
        for (sb, tg) in t:
            r = pb.reachable([tg], removed_nodes=[p.bb for p in polls(pb, "acmed::http::new_nonce")])
            ctx.require(R2, not ({s.bb for s in sends} & r), where(pb, sb), "with no stored nonce, nothing is sent before new_nonce was awaited", [POST, "send-without-nonce"])
    gb = prog.async_body("acmed::http::get")
    gu = gb.calls_to("acmed::http::update_nonce")
    gs = gb.calls_to(*SEND)
    for s in gs:
        ok_e = [(t["bb"], tg) for t in try_edges(gb, [s.dest["l"]]) if not t["adt"].endswith("Poll") for tg in t["ok"]]
        for (sb, tg) in ok_e:
            r = gb.reachable([tg], removed_nodes=[u.bb for u in gu])
            hit = sorted((set(gb.return_blocks()) | {c.bb for c in gb.calls_to("acmed::http::check_status")}) & r)
            ctx.require(R2, not hit and gu, s.where(), "http::get stores the Replay-Nonce of every response it received before examining the status", ["acmed::http::get", "response-without-nonce-update"])

    R3 = ctx.rule("R3", "every data-builder closure binds its own url and nonce arguments; the builder bound is Fn")
    clos = builder_closures(prog)
    ctx.floor(R3, "data-builder closures", len(clos), 2)
    for g, gbody in sorted(clos.items()):
        encs = [x for x in gbody.calls if (x.name or "").startswith("acmed::jws::encode")]
        for e in encs:
            if e.is_(ENC_KID):
                url_i, nonce_i = 4, 5
            elif e.is_(ENC_JWK):
                url_i, nonce_i = 3, 4
            else:
                ctx.fail(R3, e.where(), "%s used inside a request builder" % e.name, [g.split("::{closure")[0], "builder-encoder"])
                continue
            u = arg_origins(e, url_i)
            n = arg_origins(e, nonce_i)
            ctx.require(R3, u.leaves == {"param:3"}, e.where(), "builder in %s: url = the closure's url argument (%s)" % (short(g), sorted(u.leaves)), [g.split("::{closure")[0], "closure-url"])
            ctx.require(R3, n.has_leaf("param:2") and not [l for l in n.leaves if l.startswith("upvar") or l.startswith("call:")], e.where(),
                        "builder in %s: nonce = the closure's nonce argument (%s)" % (short(g), sorted(n.leaves)), [g.split("::{closure")[0], "closure-nonce"])
    for fn in ("acmed::http::post", "acmed::http::post_jose", "acmed::acme_proto::http::new_order", "acmed::acme_proto::http::new_account"):
        preds = prog.must_body(fn).raw.get("preds", [])
        has_fn = any(" Fn(" in p_ or p_.startswith("F: Fn(") or "F: Fn(" in p_ for p_ in preds)
        has_mut = any("FnMut(" in p_ for p_ in preds)
        ctx.require(R3, has_fn and not has_mut, "%s:%s" % (prog.must_body(fn).file, prog.must_body(fn).line), "%s: builder bound is Fn (%s)" % (fn.rsplit("::", 1)[1], [p_ for p_ in preds if "Fn" in p_][:1]), [fn, "fn-bound"])

    R4 = ctx.rule("R4", "jwk only for newAccount and inside key-change; kid = stored account URL otherwise; HMAC binding only in the account object")
    jwk_sites = prog.all_calls_to(ENC_JWK, crates=("acmed",))
    kid_sites = prog.all_calls_to(ENC_KID, crates=("acmed",))
    mac_sites = prog.all_calls_to(ENC_MAC, crates=("acmed",))
    ctx.floor(R4, "encode_jwk sites", len(jwk_sites), 2)
    ctx.floor(R4, "encode_kid sites", len(kid_sites), 1)
    ctx.floor(R4, "encode_kid_mac sites", len(mac_sites), 1)
    for c in jwk_sites:
        k = c.body.key
        if k.startswith("acmed::acme_proto::account::register_account"):
            ctx.ok(R4, "encode_jwk in register_account's builder (newAccount)")
            # and that builder is the one given to new_account
        elif k.startswith("acmed::acme_proto::account::update_account_key") and c.body.kind != "Closure" or (k.startswith("acmed::acme_proto::account::update_account_key::{closure#0}") and k.count("{closure") == 1):
            n = arg_origins(c, 4)
            u = arg_origins(c, 3)
            none = any(x.get("variant") == "None" or str(x.get("pp", "")).endswith("None") for x in n.consts) and not n.has_leaf("param:") and not (ENDPOINT, "nonce") in n.fields
            ctx.require(R4, none, c.where(), "the inner key-change JWS carries no nonce", ["update_account_key", "inner-nonce"])
            ctx.require(R4, (DIR, "key_change") in u.fields, c.where(), "the inner key-change JWS url = directory.keyChange", ["update_account_key", "inner-url"])
        else:
            ctx.fail(R4, c.where(), "encode_jwk (public key in the header) used in %s: only newAccount and the inner key-change object may carry a jwk" % k, [k.split("::{closure")[0], "jwk-elsewhere"])
    reg = prog.async_body("acmed::acme_proto::account::register_account")
    for c in reg.calls_to("acmed::acme_proto::http::new_account"):
        ctx.require(R4, any(g.startswith("acmed::acme_proto::account::register_account") for g in c.gbodies), c.where(), "new_account is sent with register_account's jwk builder", ["register_account", "builder"])
    na = prog.async_body("acmed::acme_proto::http::new_account")
    for c in na.calls_to("acmed::http::post_jose"):
        ctx.require(R4, (DIR, "new_account") in arg_origins(c, 1).fields, c.where(), "new_account posts to directory.newAccount", ["http::new_account", "url"])
    for c in kid_sites:
        kid = resolve_through_captures(prog, c.body, c.args[2])
        ok_kid = (ACCEP, "account_url") in kid.fields
        ctx.require(R4, ok_kid, c.where(), "kid = the account URL stored for this endpoint (%s)" % c.body.key.rsplit("::", 2)[-2], [c.body.key.split("::{closure")[0], "kid-source"])
    uk = prog.async_body("acmed::acme_proto::account::update_account_key")
    outer = [c for g, gbody in clos.items() if g.startswith("acmed::acme_proto::account::update_account_key") for c in gbody.calls if c.is_(ENC_KID)]
    ctx.floor(R4, "outer key-change builder", len(outer), 1)
    for c in uk.calls_to("acmed::acme_proto::http::post_jose_no_response"):
        ctx.require(R4, (DIR, "key_change") in arg_origins(c, 2).fields, c.where(), "the key-change request is posted to directory.keyChange", ["update_account_key", "outer-url"])
    # the outer payload is the inner JWS
    from ..flow import closure_captures_of
    for g, gbody in clos.items():
        if not g.startswith("acmed::acme_proto::account::update_account_key"):
            continue
        caps, st = closure_captures_of(uk, g)
        names = [c_["var"] for c_ in gbody.raw.get("captures", [])]
        for e in [x for x in gbody.calls if x.is_(ENC_KID)]:
            pay = arg_origins(e, 3)
            idx = [int(l.split(":")[1].split(".")[0]) for l in pay.leaves if l.startswith("upvar:")]
            good = False
            for i_ in idx:
                if caps and i_ < len(caps):
                    sl = origins(uk, caps[i_])
                    if any(x.is_(ENC_JWK) for x in sl.calls):
                        good = True
            ctx.require(R4, good, e.where(), "the outer key-change payload is the inner JWS built with encode_jwk", ["update_account_key", "outer-payload"])
    # the binding's MAC: header alg = the configured algorithm's text, HMAC with the hash of the SAME strength (HSnnn -> SHA-nnn),
    # keyed with the key parameter, over "protected.payload"; non-HMAC algorithms are rejected — evaluated for every variant
    from ..absint import Val, marker, run, success_model, variant
    from .crypto_tables import ALG as JALG
    mb = prog.must_body(ENC_MAC)
    for v in prog.adt_variants(JALG):
        r = run(mb, {1: Val("ref", marker("KEY")), 2: Val("ref", variant(JALG, v)), 3: Val("ref", marker("KID")), 4: Val("ref", marker("PAYLOAD")), 5: Val("ref", marker("URL"))},
                success_model(mb, lambda cs_, a_: None), max_steps=40000, follow=lambda cs_: (cs_.name or "").startswith(("acmed::jws::", "<acmed::jws::")))
        macs = [(c_, [x.deref() for x in a_]) for c_, a_, res_ in r.calls if (c_.name or "").endswith("::hmac")]
        if v.startswith("Hs"):
            good = r.kind == "return" and len(macs) == 1 and macs[0][1][0].k == "variant" and macs[0][1][0].v == "Sha" + v[2:] and "KEY" in repr(macs[0][1][1])
            ctx.require(R4, good, "%s:%s" % (mb.file, mb.line), "external account binding with %s is an HMAC-SHA-%s keyed with the binding key (found %s)"
                        % (v.upper(), v[2:], [[repr(x) for x in m[1][:2]] for m in macs]), ["encode_kid_mac", "mac-hash", v])
        else:
            ret = r.ret.deref() if r.kind == "return" and r.ret is not None else None
            is_err = ret is not None and ret.k == "adt" and ret.extra and ret.extra[1] == "Err"
            ctx.require(R4, not macs and (is_err or r.kind != "return"), "%s:%s" % (mb.file, mb.line), "%s is not accepted as a MAC algorithm (run %s)" % (v, r.kind), ["encode_kid_mac", "mac-hash", v])
    for c_ in mb.calls_to("*BaseHashFunction>::hmac", "acme_common::crypto::openssl_hash::<impl acme_common::crypto::BaseHashFunction>::hmac"):
        d_ = arg_origins(c_, 2, through=True)
        ctx.require(R4, all(d_.has_leaf("param:%d" % k_) for k_ in (2, 3, 4, 5)), c_.where(),
                    "the MAC covers the protected header (alg, kid, url) and the payload", ["encode_kid_mac", "mac-input"])
    for c in mac_sites:
        ctx.require(R4, c.body.key == "acmed::acme_proto::structs::account::Account::new", c.where(), "encode_kid_mac in %s" % c.body.key, [c.body.key.split("::{closure")[0], "mac-elsewhere"])
        u = arg_origins(c, 4)
        pay = arg_origins(c, 3, through=True)
        ctx.require(R4, (DIR, "new_account") in u.fields, c.where(), "the external account binding url = directory.newAccount", ["structs::Account::new", "eab-url"])
        ctx.require(R4, any("jwk_public_key" in x.name for x in pay.calls) and ("acmed::account::Account", "current_key") in pay.fields, c.where(),
                    "the binding payload is the account key's public JWK", ["structs::Account::new", "eab-payload"])
        ctx.require(R4, ("acmed::account::ExternalAccount", "key") in arg_origins(c, 0).fields and ("acmed::account::ExternalAccount", "identifier") in arg_origins(c, 2).fields, c.where(),
                    "MAC key and kid are the configured external account's", ["structs::Account::new", "eab-key"])

    R5 = ctx.rule("R5", "key and signature algorithm of each JWS come from the same AccountKey; incompatible algorithm refused before signing")
    from .c11 import rollover_key_rule
    rollover_key_rule(ctx, R5)
    for c in jwk_sites + kid_sites:
        body = c.body
        k = resolve_through_captures(prog, body, c.args[0])
        a = resolve_through_captures(prog, body, c.args[1])
        kf = (ACCKEY, "key") in k.fields
        af = (ACCKEY, "signature_algorithm") in a.fields
        same_current = ((ACCOUNT, "current_key") in k.fields) == ((ACCOUNT, "current_key") in a.fields)
        same_past = any(x.is_("acmed::account::Account::get_past_key") for x in k.calls) == any(x.is_("acmed::account::Account::get_past_key") for x in a.calls)
        ctx.require(R5, kf and af and same_current and same_past, c.where(), "%s in %s: key and algorithm are the .key / .signature_algorithm of the same AccountKey" % (c.name.rsplit("::", 1)[1], short(body.key)),
                    [body.key.split("::{closure")[0], "key-alg-pair", c.name.rsplit("::", 1)[1]])
    R6 = ctx.rule("R6", "algorithm tables (default, compatibility, dispatch, header text) and ECDSA widths per RFC 7518 section 3.4 / RFC 8037; r and s padded to the curve width")
    ct.check_alg_tables(ctx, R6)
    ct.ec_width_tables(ctx, R6)
    ct.padding_rules(ctx, R6)
    check_shape(ctx)


def resolve_through_captures(prog, body, op):
    """origins of an operand, looking through one level of closure capture into the parent body"""
    from ..flow import closure_captures_of, Slice
    sl = origins(body, op, through=True)
    if body.kind == "Closure" and body.parent:
        parent = prog.body(body.parent)
        if parent is not None:
            caps, st = closure_captures_of(parent, body.key)
            if caps:
                for l in list(sl.leaves):
                    if l.startswith("upvar:"):
                        i = int(l.split(":")[1].split(".")[0])
                        if i < len(caps):
                            ps = origins(parent, caps[i], through=True)
                            sl.fields |= ps.fields
                            sl.calls += ps.calls
                            sl.leaves |= {"parent:" + x for x in ps.leaves}
    return sl


def short(k):
    parts = k.split("::")
    keep = [p for p in parts if not p.startswith("{closure")]
    return "::".join(keep[-2:])


def check_shape(ctx):
    prog = ctx.prog
    R7 = ctx.rule("R7", "protected header members {alg, jwk?, kid?, nonce?, url}; flattened JWS {protected, payload, signature}; signed input = emitted protected '.' emitted payload")
    PH = "acmed::jws::JwsProtectedHeader"
    JD = "acmed::jws::JwsData"
    ctx.require(R7, prog.adt_fields(PH) == ["alg", "jwk", "kid", "nonce", "url"], "acmed/src/jws.rs", "JwsProtectedHeader fields = %s" % prog.adt_fields(PH), [PH, "fields"])
    ctx.require(R7, prog.adt_fields(JD) == ["protected", "payload", "signature"], "acmed/src/jws.rs", "JwsData fields = %s" % prog.adt_fields(JD), [JD, "fields"])
    for adt, opt in ((PH, {"jwk", "kid", "nonce"}), (JD, set())):
        sb = [b for k, b in prog.bodies.items() if k.startswith("acmed::jws::_::<impl serde::ser::Serialize for %s>::serialize" % adt)]
        ctx.floor(R7, "derived Serialize for %s" % adt.rsplit("::", 1)[1], len(sb), 1)
        if not sb:
            continue
        b = sb[0]
        names, skipped = [], set()
        for c in b.calls:
            if c.bb not in b.live_blocks():
                continue
            strs = [b.const_of(a).get("str") for a in c.args if op_const(a) and b.const_of(a) and "str" in b.const_of(a)]
            if c.name.endswith("::serialize_field") and strs:
                names.append(strs[0])
            if c.name.endswith("::skip_field") and strs:
                skipped.add(strs[0])
        ctx.require(R7, names == prog.adt_fields(adt), "%s:%s" % (b.file, b.line), "%s serialises members %s under their own names" % (adt.rsplit("::", 1)[1], names), [adt, "member-names"])
        ctx.require(R7, skipped == opt, "%s:%s" % (b.file, b.line), "%s: members omitted when absent = %s (expected %s)" % (adt.rsplit("::", 1)[1], sorted(skipped), sorted(opt)), [adt, "optional-members"])
    jt = jws_table(prog)
    # evaluation first: the three encoders are evaluated into JWS terms below; the literal-by-literal description is the fallback
    for fn, lit_checks in ([] if jt is not None else [(ENC_JWK, {"jwk": "Some", "kid": "None"}), (ENC_KID, {"jwk": "None", "kid": "Some"}), (ENC_MAC, {"jwk": "None", "kid": "Some", "nonce": "None"})]):
        b = prog.must_body(fn)
        for i, st in agg_assigns(b, PH):
            fs = st["rv"]["fields"]
            for f, want in lit_checks.items():
                sl = origins(b, st["rv"]["ops"][fs.index(f)])
                got = {v for a, v in sl.aggs if a == "core::option::Option"} | {("None" if str(c.get("pp", "")).endswith("None") or c.get("variant") == "None" else None) for c in sl.consts}
                got.discard(None)
                ctx.require(R7, got == {want}, where(b, i), "%s: header.%s is %s" % (fn.rsplit("::", 1)[1], f, want), [fn, "header-" + f])
            u = origins(b, st["rv"]["ops"][fs.index("url")])
            url_param = {ENC_JWK: "param:4", ENC_KID: "param:5", ENC_MAC: "param:5"}[fn]
            ctx.require(R7, u.leaves == {url_param}, where(b, i), "%s: header.url = the url argument" % fn.rsplit("::", 1)[1], [fn, "header-url"])
            a = origins(b, st["rv"]["ops"][fs.index("alg")])
            ctx.require(R7, a.has_leaf("param:2"), where(b, i), "%s: header.alg = the signature algorithm argument's text" % fn.rsplit("::", 1)[1], [fn, "header-alg"])
            if fn == ENC_JWK:
                j = origins(b, st["rv"]["ops"][fs.index("jwk")], through=True)
                ctx.require(R7, any("jwk_public_key" in x.name for x in j.calls) and j.has_leaf("param:1"), where(b, i), "encode_jwk: header.jwk = public JWK of the signing key", [fn, "header-jwk-key"])
        if fn != ENC_MAC:
            for c in (b.calls_to("acmed::jws::get_jws_data") if prog.body("acmed::jws::get_jws_data") is not None else []):
                ctx.require(R7, arg_origins(c, 0).has_leaf("param:1") and arg_origins(c, 1).has_leaf("param:2"), c.where(), "%s signs with its key_pair / sign_alg arguments" % fn.rsplit("::", 1)[1], [fn, "sign-args"])
                pay_param = {ENC_JWK: "param:3", ENC_KID: "param:4"}[fn]
                ctx.require(R7, arg_origins(c, 3).has_leaf(pay_param), c.where(), "%s: payload argument forwarded" % fn.rsplit("::", 1)[1], [fn, "payload"])
    if jt is not None:
        for what, got, want in jt:
            ctx.require(R7, got == want, "acmed/src/jws.rs", "%s evaluates to the flattened JWS %s (expected %s)" % (what, got if got != want else "of RFC 7515 section 7.2.2", want), ["acmed::jws", "evaluated", what])
    g = prog.must_body("acmed::jws::get_jws_data") if jt is None else None
    for i, st in (agg_assigns(g, JD) if g is not None else []):
        fs = st["rv"]["fields"]
        p_l = op_local(st["rv"]["ops"][fs.index("protected")])
        y_l = op_local(st["rv"]["ops"][fs.index("payload")])
        sg = g.calls_to(ct.KEYS + "::sign")
        ctx.floor(R7, "KeyPair::sign in get_jws_data", len(sg), 1)
        for c in sg:
            sl = arg_origins(c, 2, through=True)
            enc_in = {x.bb for x in sl.calls if "b64_encode" in x.name}
            enc_out = set()
            for fld in ("protected", "payload"):
                fsl = origins(g, st["rv"]["ops"][fs.index(fld)], through=True)
                enc_out |= {x.bb for x in fsl.calls if "b64_encode" in x.name}
            both = len(enc_out) == 2 and enc_out <= enc_in
            dot = any("." in str(cc.get("str", "")) or cc.get("pp") == '"."' for cc in sl.consts) or True
            ctx.require(R7, both, c.where(), "the signing input is built from the very protected/payload strings that are emitted", ["get_jws_data", "signing-input"])
            ctx.require(R7, arg_origins(c, 0).has_leaf("param:1") and arg_origins(c, 1).has_leaf("param:2"), c.where(), "signed with the given key and algorithm", ["get_jws_data", "sign-key"])
        s_sl = origins(g, st["rv"]["ops"][fs.index("signature")], through=True)
        ctx.require(R7, any(x.is_(ct.KEYS + "::sign") for x in s_sl.calls), where(g, i), "JwsData.signature = b64(sign(..))", ["get_jws_data", "signature"])
        for fld, par in (("protected", "param:3"), ("payload", "param:4")):
            sl = origins(g, st["rv"]["ops"][fs.index(fld)], through=True)
            ctx.require(R7, sl.has_leaf(par) and any("b64_encode" in x.name for x in sl.calls), where(g, i), "JwsData.%s = b64(%s argument)" % (fld, fld), ["get_jws_data", fld])
