"""C06 — renewal happens exactly when due: never late, never in a loop.

Decided:
  R1 schedule_renewal: renew_in is reached only when both files exist and no configured identifier is missing; the two
     early answers are Duration::ZERO; the file test covers the private key AND the certificate; the missing-identifier
     test is required.difference(certificate names), required = identifiers[].value, names = subject_alt_names();
  R2 renew_in / expires_in / subject_alt_names contain no undischarged panic source or wrapping arithmetic; delays are
     combined with Duration::saturating_sub in the order expires_in - renew_delay - jitter; the jitter range is
     ZERO..random_early_renew under the non-zero guard; expiry = not_after - now (operand order of Asn1Time::diff), a
     negative difference is clamped before the unsigned conversion;
  R3 subject_alt_names yields dNSName entries and 4- and 16-byte iPAddress entries (in byte order);
  R4 renew_certificate sleeps for the duration returned by schedule_renewal, then calls request_certificate.
"""
import re

from ..flow import arg_origins, origins
from ..mir import op_const, op_local, try_edges
from ..panic_allow import enumerate_reach
from ..util import (POLL, agg_assigns, call_true_false_edges, polls, result_return_kinds, unreachable_without, where)
from .guards import gen_range_guard

LEVEL = "other"
TECHNIQUE = ("must-pass-through on schedule_renewal's CFG, provenance of set-difference / saturating_sub / Asn1Time::diff "
             "operands, panic-source enumeration with interval discharge on the expiry arithmetic")
LEVEL_TEXT = ("Decides the decision structure for every certificate/config at once: which tests gate the delay computation, "
              "in which direction the set difference and the time difference are taken, that only saturating Duration "
              "arithmetic is used and that no integer operation on certificate-derived values can overflow (interval "
              "argument). The numeric value for a concrete certificate and clock is not decided.")
LEVEL_NOTE = ("Not decided: numeric results for concrete notAfter/clock values, distribution of the jitter, OpenSSL's "
              "ASN1_TIME_diff. Trusted: rustc MIR, extractor, openssl crate API semantics (diff = other - self).")

CERT = "acmed::certificate::Certificate"
SR = CERT + "::schedule_renewal"


SCHED_SAMPLES = [
    # (files exist, configured identifiers, certificate names, expires_in, renew_delay, random_early_renew, drawn jitter)
    (False, ["a.example"], ["a.example"], 1000, 300, 0, 0),
    (True, ["a.example", "b.example"], ["a.example"], 1000, 300, 0, 0),
    (True, ["a.example"], ["b.example"], 1000, 300, 0, 0),
    (True, ["a.example"], ["a.example", "z.example"], 1000, 300, 0, 0),
    (True, ["a.example", "192.0.2.7"], ["192.0.2.7", "a.example"], 1000, 300, 0, 0),
    (True, ["a.example"], ["a.example"], 1000, 300, 500, 70),
    (True, ["a.example"], ["a.example"], 1000, 300, 500, 499),
    (True, ["a.example"], ["a.example"], 1000, 900, 500, 400),
    (True, ["a.example"], ["a.example"], 200, 300, 0, 0),
    (True, ["a.example"], ["a.example"], 200, 300, 500, 70),
    (True, ["a.example"], ["a.example"], 0, 300, 0, 0),
    (True, [], ["a.example"], 1000, 300, 0, 0),
    (True, ["a.example", "a.example"], ["a.example"], 1000, 300, 0, 0),                    # the same name configured twice is not a missing name
    (True, ["a.example", "b.example", "a.example"], ["b.example", "a.example"], 1000, 300, 0, 0),
]


def schedule_table(prog):
    """schedule_renewal EVALUATED as a whole (Certificate methods followed): the existence test, the certificate's names and
    remaining validity and the random draw are given; the answer is compared with the property's definition — 0 when a file or a
    name is missing, otherwise (expires_in - renew_delay - jitter) saturating at 0, the jitter being drawn from [0, random_early_renew)
    only when that is non-zero. Returns [(sample, got, want, draws)] or None."""
    from ..absint import Interp, Val, async_state, marker, ok, struct_val, success_model, vbool, vstr
    b = prog.async_body(SR)
    if b is None:
        return None
    rows = []
    for (exists, ids, sans, E, delay, R, J) in SCHED_SAMPLES:
        draws = []

        def ov(cs, args):
            n = cs.name or ""
            if n.endswith("storage::certificate_files_exists"):
                return vbool(exists)
            if n.endswith("X509Certificate::subject_alt_names"):
                return Val("list", [vstr(x) for x in sans], "set")
            if n.endswith("X509Certificate::expires_in"):
                return ok(Val("int", E, "dur"))
            if n.endswith("::gen_range"):
                rg = args[1].deref() if len(args) > 1 else None
                lo = rg.v[0].deref() if rg is not None and rg.k == "adt" and len(rg.v) == 2 else None
                hi = rg.v[1].deref() if rg is not None and rg.k == "adt" and len(rg.v) == 2 else None
                draws.append((lo.v if lo is not None and lo.k == "int" else None, hi.v if hi is not None and hi.k == "int" else None,
                              (rg.extra[0].rsplit("::", 1)[-1] if rg is not None and rg.k == "adt" and rg.extra else None)))
                return Val("int", J, "dur")
            return None
        try:
            idl = Val("list", [struct_val(prog, "acmed::identifier::Identifier", {"value": vstr(x)}) for x in ids])
            me = struct_val(prog, CERT, {"identifiers": idl, "renew_delay": Val("int", delay, "dur"), "random_early_renew": Val("int", R, "dur"), "file_manager": marker("FM")})
            st = async_state(prog, SR, lambda name, ty, i: Val("ref", me) if ty.endswith("certificate::Certificate") else None)
            it = Interp(b, success_model(b, ov, skip_unknown_loops=True), 200000)
            it.follow = lambda cs: (cs.name or "").startswith(CERT + "::") and not (cs.name or "").endswith(("::debug", "::info", "::warn", "::trace"))
            r = it.run({1: st})
        except Exception:
            return None
        rv = r.ret.deref() if r.kind == "return" and r.ret is not None else None
        if rv is None or rv.k != "adt" or not rv.extra or rv.extra[1] != "Ok" or not rv.v or rv.v[0].deref().k != "int":
            return None
        missing = [x for x in ids if x not in sans]
        if not exists or missing:
            want, want_draws = 0, []
        else:
            want = max(0, E - delay)
            want_draws = [(0, R, "Range")] if R > 0 else []
            if R > 0:
                want = max(0, want - J)
        rows.append(((exists, ids, sans, E, delay, R, J), rv.v[0].deref().v, want, draws, want_draws))
    return rows


def check(ctx):
    prog = ctx.prog
    # "a fresh certificate is not renewed again": the attempt leaves BOTH files behind (a key that is used but not stored makes the next
    # schedule_renewal see a missing file and renew at once) — the request-certificate traces of C02/C03
    from .request_model import request_traces as _rtr, store_rule as _store_rule
    if _rtr(prog) is not None:
        _store_rule(ctx, ctx.rule("S1", "[shared with C02/C03] key and certificate are installed on every successful attempt"), _rtr(prog))
    R1 = ctx.rule("R1", "renew_in only when files exist and no identifier is missing; early answers are Duration::ZERO; tests have the right scope and direction")
    b = prog.async_body(SR)
    sched = schedule_table(prog)
    if sched is not None:
        ctx.floor(R1, "evaluated schedule_renewal samples", len(sched), 10)
        for smp, got, want, draws, want_draws in sched:
            ctx.require(R1, got == want, "%s:%s" % (b.file, b.line),
                        "files exist=%s, configured %s, certificate names %s, expires in %ss, renew_delay %ss, random_early_renew %ss (draw %ss): wait %ss (definition: %ss)" % (smp + (got, want)),
                        [SR, "evaluated", repr(smp)])
    rn = b.calls_to(CERT + "::renew_in") if sched is None else []
    fe = b.calls_to("acmed::storage::certificate_files_exists") if sched is None else []
    hm = b.calls_to(CERT + "::has_missing_identifiers") if sched is None else []
    if sched is None:
        ctx.floor(R1, "renew_in call", len(rn), 1)
        ctx.floor(R1, "certificate_files_exists call", len(fe), 1)
        ctx.floor(R1, "has_missing_identifiers call", len(hm), 1)
    if rn and fe and hm:
        t, f = call_true_false_edges(b, fe[0])
        ok, hit = unreachable_without(b, [c.bb for c in rn], removed_edges=t)
        ctx.require(R1, ok and t, rn[0].where(), "renew_in is reachable only when certificate_files_exists() is true", [SR, "files-gate"])
        t2, f2 = call_true_false_edges(b, hm[0])
        ok, hit = unreachable_without(b, [c.bb for c in rn], removed_edges=f2)
        ctx.require(R1, ok and f2, rn[0].where(), "renew_in is reachable only when has_missing_identifiers() is false", [SR, "identifiers-gate"])
        # early answers: from the not-exists edge and from the missing edge every Ok(..) built is Duration::ZERO
        for name, edges in (("files missing", f), ("identifier missing", t2)):
            for (sbb, tg) in edges:
                r = b.reachable([tg])
                oks = [(i, st) for i, st in agg_assigns(b, "core::result::Result", "Ok") if i in r and st["lhs"]["l"] == 0]
                zero = oks and all(is_zero_duration(b, st["rv"]["ops"][0]) for i, st in oks)
                calls_renew = any(c.bb in r for c in rn)
                ctx.require(R1, bool(zero) and not calls_renew, where(b, tg), "when %s the answer is Ok(Duration::ZERO) (renew now)" % name, [SR, "early-answer", name])
        # the certificate examined is the stored one
        for c in hm + rn:
            sl = arg_origins(c, 1)
            ctx.require(R1, any(x.is_or_polls("acmed::storage::get_certificate") for x in sl.calls), c.where(), "%s examines storage::get_certificate(file_manager)" % c.name.rsplit("::", 1)[1], [SR, "which-certificate"])
    # file scope
    cfe = prog.must_body("acmed::storage::certificate_files_exists")
    variants = set()
    for i in cfe.live_blocks():
        for st in cfe.blocks[i]["stmts"]:
            if st["s"] == "assign" and st["rv"]["k"] == "agg" and st["rv"].get("agg") == "adt" and st["rv"]["adt"].endswith("FileType"):
                variants.add(st["rv"]["variant"])
    for p in cfe.promoted:
        for blk in p["blocks"]:
            for st in blk["stmts"]:
                if st["s"] == "assign" and st["rv"]["k"] == "agg" and st["rv"].get("agg") == "adt" and st["rv"].get("adt", "").endswith("FileType"):
                    variants.add(st["rv"]["variant"])
    ctx.require(R1, {"PrivateKey", "Certificate"} <= variants, "%s:%s" % (cfe.file, cfe.line),
                "certificate_files_exists tests both the private key and the certificate file (%s)" % sorted(variants), ["certificate_files_exists", "scope"])
    ctx.require(R1, bool(cfe.calls_to("acmed::storage::check_files")), "%s:%s" % (cfe.file, cfe.line), "… through check_files", ["certificate_files_exists", "check_files"])
    from .storage_common import check_files_rules
    check_files_rules(ctx, R1)
    # the compared texts are in the same form: configured identifiers are normalised at load (shared with C01.R4)
    from .c01 import normalisation_rule
    normalisation_rule(ctx, R1)
    if sched is None:
        # direction of the difference
        hb = prog.must_body(CERT + "::has_missing_identifiers")
        diffs = hb.calls_to("std::collections::hash::set::HashSet::difference")
        ctx.floor(R1, "HashSet::difference in has_missing_identifiers", len(diffs), 1)
        for c in diffs:
            a0 = arg_origins(c, 0)
            a1 = arg_origins(c, 1)
            req_left = (CERT, "identifiers") in a0.fields and not any(x.is_("*subject_alt_names") for x in a0.calls)
            names_right = any(x.is_("acme_common::crypto::openssl_certificate::X509Certificate::subject_alt_names") for x in a1.calls) and (CERT, "identifiers") not in a1.fields
            ctx.require(R1, req_left and names_right, c.where(), "missing = required identifiers \\ certificate names (not the reverse)", [CERT + "::has_missing_identifiers", "difference-direction"])
        # the required set is built from identifiers[].value by a closure reading `value`
        for c in hb.calls_to("core::iter::traits::iterator::Iterator::map"):
            for g in c.gbodies:
                gb = prog.body(g)
                if gb is None:
                    continue
                reads = {(e.get("adt"), e.get("n")) for blk in gb.blocks for st in blk["stmts"] if st["s"] == "assign"
                         for key in ("place",) if st["rv"].get(key) for e in st["rv"][key]["p"] if isinstance(e, dict)}
                if ("acmed::identifier::Identifier", "value") in reads:
                    ctx.ok(R1, "required names = identifiers[].value (%s)" % g.rsplit("::", 1)[1])
        sr = origins(hb, {"l": 0, "p": []})
        DIFF = "std::collections::hash::set::HashSet::difference"
        data_form = (sr.via_any("binop:Ne") or sr.via_any("binop:Gt")) and (sr.via_any(DIFF) or any(x.is_(DIFF) for x in sr.calls))
        ctl_form = False
        if not data_form:
            # `if uncovered.is_empty() { return false } ... true`: constants selected by an emptiness test of the difference
            from ..util import assigns_const_to
            tb = assigns_const_to(hb, 0, lambda c: c.get("bool") is True)
            fb = assigns_const_to(hb, 0, lambda c: c.get("bool") is False)
            for c in hb.calls:
                if c.bb in hb.live_blocks() and (c.name or "").rsplit("::", 1)[-1] == "is_empty":
                    a = arg_origins(c, 0)
                    if not (a.via_any(DIFF) or any(x.is_(DIFF) for x in a.calls)):
                        continue
                    t, f = call_true_false_edges(hb, c)
                    ok_t, _h = unreachable_without(hb, tb, removed_edges=f)
                    ok_f, _h = unreachable_without(hb, fb, removed_edges=t)
                    ctl_form = bool(tb) and bool(fb) and bool(t) and ok_t and ok_f
        ctx.require(R1, data_form or ctl_form, "%s:%s" % (hb.file, hb.line), "has_missing_identifiers is true exactly when the difference is not empty", [CERT + "::has_missing_identifiers", "result"])

    # ------------------------------------------------------------------ R2
    R2 = ctx.rule("R2", "no undischarged panic/overflow in the expiry computation; saturating Duration arithmetic in the right order; time difference = not_after - now, clamped at 0")
    ents = [k for k in (CERT + "::renew_in", CERT + "::has_missing_identifiers") if prog.body(k) is not None]
    if len(ents) < 2 and sched is not None:
        ents = [SR, SR + "::{closure#0}"]        # the helpers were folded into other functions: enumerate from the entry point
    counts = enumerate_reach(ctx, R2, ents or [CERT + "::renew_in"], crates=("acmed", "acme_common"))
    if sched is not None:
        for smp, got, want, draws, want_draws in sched:
            ctx.require(R2, draws == want_draws, "%s:%s" % (b.file, b.line), "random_early_renew = %ss: random draws %s (expected %s: one draw from the half-open range 0..random_early_renew, none when it is zero — an empty range panics)"
                        % (smp[5], draws, want_draws), [SR, "jitter-draw", repr(smp)])
    else:
        gen_range_guard(ctx, R2)
    rb = prog.must_body(CERT + "::renew_in") if sched is None else None
    ss = rb.calls_to("core::time::Duration::saturating_sub") if rb is not None else []
    if sched is None:
        ctx.floor(R2, "Duration::saturating_sub in renew_in", len(ss), 2)
    first_ok = False
    for c in ss:
        a0 = arg_origins(c, 0)
        a1 = arg_origins(c, 1)
        from_exp = any(x.is_("acme_common::crypto::openssl_certificate::X509Certificate::expires_in") for x in a0.calls)
        if (CERT, "renew_delay") in a1.fields:
            first_ok = from_exp and (CERT, "renew_delay") not in a0.fields
            ctx.require(R2, first_ok, c.where(), "expires_in.saturating_sub(renew_delay): receiver is the expiry, argument the delay", [CERT + "::renew_in", "operand-order"])
        elif a1.via_any("rand::rng::Rng::gen_range", "rand::Rng::gen_range"):
            ctx.require(R2, from_exp, c.where(), "the jitter is subtracted (saturating) from the remaining time", [CERT + "::renew_in", "jitter-order"])
    if sched is None:
        ctx.require(R2, first_ok, "%s:%s" % (rb.file, rb.line), "renew_delay is subtracted from the expiry with saturating_sub", [CERT + "::renew_in", "renew-delay-used"])
        # returned value derives from those
        ret = origins(rb, {"l": 0, "p": []})
        ctx.require(R2, ret.via_any("core::time::Duration::saturating_sub"), "%s:%s" % (rb.file, rb.line), "renew_in returns the saturating result", [CERT + "::renew_in", "result"])
    eb = prog.must_body("acme_common::crypto::openssl_certificate::X509Certificate::expires_in")
    df = eb.calls_to("openssl::asn1::Asn1TimeRef::diff")
    ctx.floor(R2, "Asn1TimeRef::diff in expires_in", len(df), 1)
    for c in df:
        a0 = arg_origins(c, 0)
        a1 = arg_origins(c, 1)
        good = a0.via_any("openssl::asn1::Asn1Time::days_from_now") and a1.via_any("openssl::x509::X509Ref::not_after") \
            and not a0.via_any("openssl::x509::X509Ref::not_after")
        zero_days = any(cc.get("int") == 0 for cc in a0.consts)
        ctx.require(R2, good and zero_days, c.where(), "expiry = now.diff(not_after), now = days_from_now(0)", ["X509Certificate::expires_in", "diff-direction"])
    # unsigned conversion only on the positive edge
    for i in sorted(eb.live_blocks()):
        for st in eb.blocks[i]["stmts"]:
            if st["s"] == "assign" and st["rv"]["k"] == "cast" and st["rv"]["ck"] == "IntToInt" and st["rv"]["ty"] in ("u64", "u32", "usize"):
                src_l = op_local(st["rv"]["op"])
                src_ty = eb.local_ty(src_l) if src_l is not None else ""
                if not src_ty.startswith("i"):
                    continue
                # dominated by the true edge of `x > 0` / `x >= 0`
                guards = []
                for j in eb.live_blocks():
                    for s2 in eb.blocks[j]["stmts"]:
                        if s2["s"] == "assign" and s2["rv"]["k"] == "binop" and s2["rv"]["op"] in ("Gt", "Ge"):
                            cb = op_const(s2["rv"]["b"])
                            if cb is not None and cb.get("int") == 0:
                                from ..util import switches_on, bool_edges
                                for sbb, neg in switches_on(eb, s2["lhs"]["l"]):
                                    t, f = bool_edges(eb, sbb)
                                    guards.append((sbb, f if neg else t))
                ok, hit = unreachable_without(eb, [i], removed_edges=guards)
                ctx.require(R2, ok and guards, where(eb, i), "a signed difference is converted to unsigned only when it is positive (clamped at 0 otherwise)", ["X509Certificate::expires_in", "negative-clamp"])
    # the seconds given to Duration::from_secs: a negative difference becomes 0 by one of the clamping idioms (guarded cast, checked
    # conversion with a zero default, max(0)); sign-discarding conversions (abs, unsigned_abs, wrapping, negation) are not accepted
    fs = eb.calls_to("core::time::Duration::from_secs")
    ctx.floor(R2, "Duration::from_secs in expires_in", len(fs), 1)
    for c in fs:
        sl = arg_origins(c, 0)
        bad = sorted(v for v in sl.via if v.rsplit("::", 1)[-1] in ("unsigned_abs", "abs", "wrapping_abs", "saturating_abs", "checked_abs", "neg", "wrapping_neg", "rem_euclid", "abs_diff",
                                                                    "wrapping_sub", "wrapping_add", "wrapping_mul") or v == "unop:Neg")
        guarded_cast = any(st["s"] == "assign" and st["rv"]["k"] == "cast" and st["rv"]["ck"] == "IntToInt" and st["lhs"]["l"] in sl.locals
                           for i in eb.live_blocks() for st in eb.blocks[i]["stmts"])
        checked = any(v.endswith("::try_from") or v.endswith("::try_into") for v in sl.via) and any(v.rsplit("::", 1)[-1] in ("unwrap_or", "unwrap_or_default") for v in sl.via)
        if checked and any(v.endswith("::unwrap_or") for v in sl.via):
            checked = any(cc.get("int") == 0 for cc in sl.consts)
        maxed = any(v.rsplit("::", 1)[-1] in ("max", "clamp") for v in sl.via) and any(cc.get("int") == 0 for cc in sl.consts)
        ctx.require(R2, not bad and (guarded_cast or checked or maxed), c.where(),
                    "the remaining seconds are the signed difference clamped at 0 (sign-discarding steps: %s; idiom: %s)" % (bad, "cast" if guarded_cast else "checked" if checked else "max" if maxed else "none"),
                    ["X509Certificate::expires_in", "negative-clamp"])
        ctx.require(R2, sl.via_any("openssl::asn1::Asn1TimeRef::diff") or any(x.is_("openssl::asn1::Asn1TimeRef::diff") for x in sl.calls), c.where(), "… of now.diff(not_after)",
                    ["X509Certificate::expires_in", "seconds-source"])
    # ------------------------------------------------------------------ R3
    R3 = ctx.rule("R3", "subject_alt_names returns dNSName entries and 4-/16-byte iPAddress entries")
    sb = prog.must_body("acme_common::crypto::openssl_certificate::X509Certificate::subject_alt_names")
    from .guards import body_family
    fam = body_family(prog, sb.key)          # the function, the closures it hands to iterator adaptors, helpers inlined
    dn = [c for fb in fam for c in fb.calls_to("openssl::x509::GeneralNameRef::dnsname")]
    ipa = [c for fb in fam for c in fb.calls_to("openssl::x509::GeneralNameRef::ipaddress")]
    ctx.floor(R3, "GeneralName accessors used by subject_alt_names", len(dn) + len(ipa), 2)
    ctx.require(R3, bool(dn) and bool(ipa), "%s:%s" % (sb.file, sb.line), "dnsname() and ipaddress() are both consulted", ["subject_alt_names", "kinds"])
    conv = {}
    for fb in fam:
        for c in fb.calls:
            m = re.match(r"^<core::net::ip_addr::IpAddr as core::convert::From<\[u8; (\d+)\]>>::from$", c.res or c.name or "")
            if m and c.bb in fb.live_blocks():
                conv.setdefault(int(m.group(1)), []).append(c)
    ctx.require(R3, {4, 16} <= set(conv), "%s:%s" % (sb.file, sb.line), "iPAddress entries of 4 and 16 bytes are converted with IpAddr::from([u8; 4]) / IpAddr::from([u8; 16]) (found %s)" % sorted(conv),
                ["subject_alt_names", "ip-lengths"])
    for n, cs_ in sorted(conv.items()):
        for c in cs_:
            a = arg_origins(c, 0)
            ctx.require(R3, any(x.bb == y.bb for x in a.calls for y in ipa if x.body is y.body) or a.via_any("openssl::x509::GeneralNameRef::ipaddress"), c.where(),
                        "the %d bytes converted are the entry's ipaddress()" % n, ["subject_alt_names", "ip-source", str(n)])
            cb = c.body
            # when the array is assembled element by element, the bytes are taken in order (a library conversion such as
            # <[u8; N]>::try_from(slice) keeps the order by contract)
            for i, st in [(i, st) for i in cb.live_blocks() for st in cb.blocks[i]["stmts"] if st["s"] == "assign" and st["rv"]["k"] == "agg" and st["rv"].get("agg") == "array"
                          and st["lhs"]["l"] in a.locals and len(st["rv"]["ops"]) == n]:
                order = []
                for o in st["rv"]["ops"]:
                    sl = origins(cb, o)
                    ints = sorted({c_.get("int") for c_ in sl.consts if "int" in c_})
                    order.append(ints[0] if len(ints) == 1 else None)
                ctx.require(R3, order == list(range(n)), where(cb, i), "the %d address bytes are taken in order 0..%d (%s)" % (n, n - 1, order), ["subject_alt_names", "byte-order", str(n)])
    # ------------------------------------------------------------------ R4
    R4 = ctx.rule("R4", "renew_certificate sleeps for the scheduled duration and then requests the certificate")
    rc = prog.async_body("acmed::main_event_loop::renew_certificate")
    from .c07 import sleep_sites
    sched = rc.calls_to(SR)
    ctx.floor(R4, "schedule_renewal call in renew_certificate", len(sched), 1)
    ok_sleep_polls = []
    for c, pbs, lb in sleep_sites(rc):
        sl = arg_origins(c, 0)
        if any(x.is_(SR) for x in sl.calls) or any(x.fn == POLL and x.res and x.res.startswith(SR) for x in sl.calls):
            ok_sleep_polls += pbs
            ctx.ok(R4, "sleep(%s) @%s fed by schedule_renewal()'s result" % ("duration", c.line))
    ctx.floor(R4, "sleep fed by the scheduled duration", len(ok_sleep_polls), 1)
    reqs = rc.calls_to("acmed::acme_proto::request_certificate")
    ok, hit = unreachable_without(rc, [c.bb for c in reqs], removed_nodes=ok_sleep_polls)
    ctx.require(R4, ok and reqs, reqs[0].where() if reqs else "-", "request_certificate is reached only after the scheduled sleep completed", ["renew_certificate", "request-before-sleep"])
    # the two timing values the scheduler uses are the configured ones: Certificate.renew_delay / random_early_renew come from the
    # like-named configuration getters, and an included [global] table merges each into its own field (shared with C14.R2)
    mel = prog.async_body("acmed::main_event_loop::MainEventLoop::new")
    for i, st in agg_assigns(mel, CERT):
        for fld, src in (("renew_delay", "acmed::config::Certificate::get_renew_delay"), ("random_early_renew", "acmed::config::Certificate::get_random_early_renew")):
            sl = origins(mel, st["rv"]["ops"][st["rv"]["fields"].index(fld)])
            others = [x.name for x in sl.calls if (x.name or "").startswith("acmed::config::Certificate::get_") and x.name != src]
            ctx.require(R4, any(x.is_(src) for x in sl.calls) and not others, where(mel, i), "Certificate.%s <- %s" % (fld, src.rsplit("::", 1)[1]), ["MainEventLoop::new", "cert-field", fld])
    from .c14 import merge_pairing
    merge_pairing(ctx, R4, only=("renew_delay", "random_early_renew"))
    from .c14 import precedence_tables
    precedence_tables(ctx, R4, only=("renew_delay", "random_early_renew"))
    # ... and are read with the documented period grammar (shared with C19.R5)
    from .c19 import check_period_grammar
    check_period_grammar(ctx)


def is_zero_duration(body, op):
    c = body.const_of(op) if op_const(op) is not None else None
    if c is None:
        sl = origins(body, op)
        return any("ZERO" in str(x.get("item", "")) for x in sl.consts) or (
            any(x.is_("core::time::Duration::new", "core::time::Duration::from_secs") for x in sl.calls) and all(cc.get("int", 0) == 0 for cc in sl.consts if "int" in cc))
    return "ZERO" in str(c.get("item", "")) or "secs: 0" in c.get("pp", "")
