"""C06 — renewal happens exactly when due: never late, never in a loop.

Decided:
  R1 schedule_renewal: renew_in is reached only when both files exist and no configured identifier is missing; the two
     early answers are Duration::ZERO; the file test covers the private key AND the certificate; the missing-identifier
     test is required.difference(certificate names), required = identifiers[].value, names = subject_alt_names();
  R2 renew_in / expires_in / subject_alt_names contain no undischarged panic source or wrapping arithmetic; delays are
     combined with Duration::saturating_sub in the order expires_in - renew_delay - jitter; the jitter range is
     ZERO..random_early_renew under the non-zero guard; expiry = not_after - now (operand order of Asn1Time::diff), a
     negative difference is clamped before the unsigned conversion;
  R3 subject_alt_names yields dNSName entries and 4- and 16-byte iPAddress entries (in byte order);
  R4 renew_certificate sleeps for the duration returned by schedule_renewal, then calls request_certificate.
"""
from ..flow import arg_origins, origins
from ..mir import op_const, op_local, try_edges
from ..panic_allow import enumerate_reach
from ..util import (POLL, agg_assigns, call_true_false_edges, polls, result_return_kinds, unreachable_without, where)
from .guards import gen_range_guard

LEVEL = "other"
TECHNIQUE = ("must-pass-through on schedule_renewal's CFG, provenance of set-difference / saturating_sub / Asn1Time::diff "
             "operands, panic-source enumeration with interval discharge on the expiry arithmetic")
LEVEL_TEXT = ("Decides the decision structure for every certificate/config at once: which tests gate the delay computation, "
              "in which direction the set difference and the time difference are taken, that only saturating Duration "
              "arithmetic is used and that no integer operation on certificate-derived values can overflow (interval "
              "argument). The numeric value for a concrete certificate and clock is not decided.")
LEVEL_NOTE = ("Not decided: numeric results for concrete notAfter/clock values, distribution of the jitter, OpenSSL's "
              "ASN1_TIME_diff. Trusted: rustc MIR, extractor, openssl crate API semantics (diff = other - self).")

CERT = "acmed::certificate::Certificate"
SR = CERT + "::schedule_renewal"


def check(ctx):
    prog = ctx.prog
    R1 = ctx.rule("R1", "renew_in only when files exist and no identifier is missing; early answers are Duration::ZERO; tests have the right scope and direction")
    b = prog.async_body(SR)
    rn = b.calls_to(CERT + "::renew_in")
    fe = b.calls_to("acmed::storage::certificate_files_exists")
    hm = b.calls_to(CERT + "::has_missing_identifiers")
    ctx.floor(R1, "renew_in call", len(rn), 1)
    ctx.floor(R1, "certificate_files_exists call", len(fe), 1)
    ctx.floor(R1, "has_missing_identifiers call", len(hm), 1)
    if rn and fe and hm:
        t, f = call_true_false_edges(b, fe[0])
        ok, hit = unreachable_without(b, [c.bb for c in rn], removed_edges=t)
        ctx.require(R1, ok and t, rn[0].where(), "renew_in is reachable only when certificate_files_exists() is true", [SR, "files-gate"])
        t2, f2 = call_true_false_edges(b, hm[0])
        ok, hit = unreachable_without(b, [c.bb for c in rn], removed_edges=f2)
        ctx.require(R1, ok and f2, rn[0].where(), "renew_in is reachable only when has_missing_identifiers() is false", [SR, "identifiers-gate"])
        # early answers: from the not-exists edge and from the missing edge every Ok(..) built is Duration::ZERO
        for name, edges in (("files missing", f), ("identifier missing", t2)):
            for (sbb, tg) in edges:
                r = b.reachable([tg])
                oks = [(i, st) for i, st in agg_assigns(b, "core::result::Result", "Ok") if i in r and st["lhs"]["l"] == 0]
                zero = oks and all(is_zero_duration(b, st["rv"]["ops"][0]) for i, st in oks)
                calls_renew = any(c.bb in r for c in rn)
                ctx.require(R1, bool(zero) and not calls_renew, where(b, tg), "when %s the answer is Ok(Duration::ZERO) (renew now)" % name, [SR, "early-answer", name])
        # the certificate examined is the stored one
        for c in hm + rn:
            sl = arg_origins(c, 1)
            ctx.require(R1, any(x.is_or_polls("acmed::storage::get_certificate") for x in sl.calls), c.where(), "%s examines storage::get_certificate(file_manager)" % c.name.rsplit("::", 1)[1], [SR, "which-certificate"])
    # file scope
    cfe = prog.must_body("acmed::storage::certificate_files_exists")
    variants = set()
    for i in cfe.live_blocks():
        for st in cfe.blocks[i]["stmts"]:
            if st["s"] == "assign" and st["rv"]["k"] == "agg" and st["rv"].get("agg") == "adt" and st["rv"]["adt"].endswith("FileType"):
                variants.add(st["rv"]["variant"])
    for p in cfe.promoted:
        for blk in p["blocks"]:
            for st in blk["stmts"]:
                if st["s"] == "assign" and st["rv"]["k"] == "agg" and st["rv"].get("agg") == "adt" and st["rv"].get("adt", "").endswith("FileType"):
                    variants.add(st["rv"]["variant"])
    ctx.require(R1, {"PrivateKey", "Certificate"} <= variants, "%s:%s" % (cfe.file, cfe.line),
                "certificate_files_exists tests both the private key and the certificate file (%s)" % sorted(variants), ["certificate_files_exists", "scope"])
    ctx.require(R1, bool(cfe.calls_to("acmed::storage::check_files")), "%s:%s" % (cfe.file, cfe.line), "… through check_files", ["certificate_files_exists", "check_files"])
    cf = prog.must_body("acmed::storage::check_files")
    isf = cf.calls_to("std::path::Path::is_file")
    ctx.floor(R1, "is_file test in check_files", len(isf), 1)
    if isf:
        from ..util import assigns_const_to
        t, f = call_true_false_edges(cf, isf[0])
        true_blocks = assigns_const_to(cf, 0, lambda c: c.get("bool") is True)
        # `true` only after the loop: the next()->None edge
        nx = [c for c in cf.calls_to("core::iter::traits::iterator::Iterator::next")]
        none_edges = []
        for c in nx:
            for tt in try_edges(cf, [c.dest["l"]]):
                none_edges += [(tt["bb"], tg) for tg in tt["err"]]
        ok, hit = unreachable_without(cf, true_blocks, removed_edges=none_edges)
        ctx.require(R1, ok and true_blocks and none_edges, "%s:%s" % (cf.file, cf.line), "check_files answers true only after every listed file was tested", ["check_files", "all-files"])
        for (sbb, tg) in f:
            r = cf.reachable([tg], removed_nodes=assigns_const_to(cf, 0, lambda c: c.get("bool") is False))
            ctx.require(R1, not (set(cf.return_blocks()) & r), where(cf, sbb), "a path that is not a file makes check_files answer false", ["check_files", "missing-file"])
    # direction of the difference
    hb = prog.must_body(CERT + "::has_missing_identifiers")
    diffs = hb.calls_to("std::collections::hash::set::HashSet::difference")
    ctx.floor(R1, "HashSet::difference in has_missing_identifiers", len(diffs), 1)
    for c in diffs:
        a0 = arg_origins(c, 0)
        a1 = arg_origins(c, 1)
        req_left = (CERT, "identifiers") in a0.fields and not any(x.is_("*subject_alt_names") for x in a0.calls)
        names_right = any(x.is_("acme_common::crypto::openssl_certificate::X509Certificate::subject_alt_names") for x in a1.calls) and (CERT, "identifiers") not in a1.fields
        ctx.require(R1, req_left and names_right, c.where(), "missing = required identifiers \\ certificate names (not the reverse)", [CERT + "::has_missing_identifiers", "difference-direction"])
    # the required set is built from identifiers[].value by a closure reading `value`
    for c in hb.calls_to("core::iter::traits::iterator::Iterator::map"):
        for g in c.gbodies:
            gb = prog.body(g)
            if gb is None:
                continue
            reads = {(e.get("adt"), e.get("n")) for blk in gb.blocks for st in blk["stmts"] if st["s"] == "assign"
                     for key in ("place",) if st["rv"].get(key) for e in st["rv"][key]["p"] if isinstance(e, dict)}
            if ("acmed::identifier::Identifier", "value") in reads:
                ctx.ok(R1, "required names = identifiers[].value (%s)" % g.rsplit("::", 1)[1])
    sr = origins(hb, {"l": 0, "p": []})
    ctx.require(R1, sr.via_any("binop:Ne") or sr.via_any("binop:Gt"), "%s:%s" % (hb.file, hb.line), "has_missing_identifiers = (difference count != 0)", [CERT + "::has_missing_identifiers", "result"])

    # ------------------------------------------------------------------ R2
    R2 = ctx.rule("R2", "no undischarged panic/overflow in the expiry computation; saturating Duration arithmetic in the right order; time difference = not_after - now, clamped at 0")
    counts = enumerate_reach(ctx, R2, [CERT + "::renew_in", CERT + "::has_missing_identifiers"], crates=("acmed", "acme_common"))
    gen_range_guard(ctx, R2)
    rb = prog.must_body(CERT + "::renew_in")
    ss = rb.calls_to("core::time::Duration::saturating_sub")
    ctx.floor(R2, "Duration::saturating_sub in renew_in", len(ss), 2)
    first_ok = False
    for c in ss:
        a0 = arg_origins(c, 0)
        a1 = arg_origins(c, 1)
        from_exp = any(x.is_("acme_common::crypto::openssl_certificate::X509Certificate::expires_in") for x in a0.calls)
        if (CERT, "renew_delay") in a1.fields:
            first_ok = from_exp and (CERT, "renew_delay") not in a0.fields
            ctx.require(R2, first_ok, c.where(), "expires_in.saturating_sub(renew_delay): receiver is the expiry, argument the delay", [CERT + "::renew_in", "operand-order"])
        elif a1.via_any("rand::rng::Rng::gen_range", "rand::Rng::gen_range"):
            ctx.require(R2, from_exp, c.where(), "the jitter is subtracted (saturating) from the remaining time", [CERT + "::renew_in", "jitter-order"])
    ctx.require(R2, first_ok, "%s:%s" % (rb.file, rb.line), "renew_delay is subtracted from the expiry with saturating_sub", [CERT + "::renew_in", "renew-delay-used"])
    # returned value derives from those
    ret = origins(rb, {"l": 0, "p": []})
    ctx.require(R2, ret.via_any("core::time::Duration::saturating_sub"), "%s:%s" % (rb.file, rb.line), "renew_in returns the saturating result", [CERT + "::renew_in", "result"])
    eb = prog.must_body("acme_common::crypto::openssl_certificate::X509Certificate::expires_in")
    df = eb.calls_to("openssl::asn1::Asn1TimeRef::diff")
    ctx.floor(R2, "Asn1TimeRef::diff in expires_in", len(df), 1)
    for c in df:
        a0 = arg_origins(c, 0)
        a1 = arg_origins(c, 1)
        good = a0.via_any("openssl::asn1::Asn1Time::days_from_now") and a1.via_any("openssl::x509::X509Ref::not_after") \
            and not a0.via_any("openssl::x509::X509Ref::not_after")
        zero_days = any(cc.get("int") == 0 for cc in a0.consts)
        ctx.require(R2, good and zero_days, c.where(), "expiry = now.diff(not_after), now = days_from_now(0)", ["X509Certificate::expires_in", "diff-direction"])
    # unsigned conversion only on the positive edge
    for i in sorted(eb.live_blocks()):
        for st in eb.blocks[i]["stmts"]:
            if st["s"] == "assign" and st["rv"]["k"] == "cast" and st["rv"]["ck"] == "IntToInt" and st["rv"]["ty"] in ("u64", "u32", "usize"):
                src_l = op_local(st["rv"]["op"])
                src_ty = eb.local_ty(src_l) if src_l is not None else ""
                if not src_ty.startswith("i"):
                    continue
                # dominated by the true edge of `x > 0` / `x >= 0`
                guards = []
                for j in eb.live_blocks():
                    for s2 in eb.blocks[j]["stmts"]:
                        if s2["s"] == "assign" and s2["rv"]["k"] == "binop" and s2["rv"]["op"] in ("Gt", "Ge"):
                            cb = op_const(s2["rv"]["b"])
                            if cb is not None and cb.get("int") == 0:
                                from ..util import switches_on, bool_edges
                                for sbb, neg in switches_on(eb, s2["lhs"]["l"]):
                                    t, f = bool_edges(eb, sbb)
                                    guards.append((sbb, f if neg else t))
                ok, hit = unreachable_without(eb, [i], removed_edges=guards)
                ctx.require(R2, ok and guards, where(eb, i), "a signed difference is converted to unsigned only when it is positive (clamped at 0 otherwise)", ["X509Certificate::expires_in", "negative-clamp"])
    # ------------------------------------------------------------------ R3
    R3 = ctx.rule("R3", "subject_alt_names returns dNSName entries and 4-/16-byte iPAddress entries")
    sb = prog.must_body("acme_common::crypto::openssl_certificate::X509Certificate::subject_alt_names")
    clos = [x for x in prog.children(sb.key) if x.calls_to("openssl::x509::GeneralNameRef::ipaddress") and
            any(x.term(i)["t"] == "switch" and x.term(i)["dty"] == "usize" for i in x.live_blocks())]
    ctx.floor(R3, "closure of subject_alt_names converting an entry to text", len(clos), 1)
    for cb in clos:
        ctx.require(R3, bool(cb.calls_to("openssl::x509::GeneralNameRef::dnsname")) and bool(cb.calls_to("openssl::x509::GeneralNameRef::ipaddress")),
                    "%s:%s" % (cb.file, cb.line), "dnsname() and ipaddress() are both consulted", ["subject_alt_names", "kinds"])
        lens = set()
        for i in cb.live_blocks():
            t = cb.term(i)
            if t["t"] == "switch" and t["dty"] == "usize":
                for v, tg in t["arms"]:
                    lens.add(v)
        ctx.require(R3, {4, 16} <= lens, "%s:%s" % (cb.file, cb.line), "iPAddress entries of 4 and 16 bytes are handled (lengths matched: %s)" % sorted(lens), ["subject_alt_names", "ip-lengths"])
        for i, st in [(i, st) for i in cb.live_blocks() for st in cb.blocks[i]["stmts"] if st["s"] == "assign" and st["rv"]["k"] == "agg" and st["rv"].get("agg") == "array"]:
            n = len(st["rv"]["ops"])
            if n not in (4, 16):
                continue
            order = []
            for o in st["rv"]["ops"]:
                sl = origins(cb, o)
                ints = sorted({c.get("int") for c in sl.consts if "int" in c})
                order.append(ints[0] if len(ints) == 1 else None)
            ctx.require(R3, order == list(range(n)), where(cb, i), "the %d address bytes are taken in order 0..%d (%s)" % (n, n - 1, order), ["subject_alt_names", "byte-order", str(n)])
    # ------------------------------------------------------------------ R4
    R4 = ctx.rule("R4", "renew_certificate sleeps for the scheduled duration and then requests the certificate")
    rc = prog.async_body("acmed::main_event_loop::renew_certificate")
    from .c07 import sleep_sites
    sched = rc.calls_to(SR)
    ctx.floor(R4, "schedule_renewal call in renew_certificate", len(sched), 1)
    ok_sleep_polls = []
    for c, pbs, lb in sleep_sites(rc):
        sl = arg_origins(c, 0)
        if any(x.is_(SR) for x in sl.calls) or any(x.fn == POLL and x.res and x.res.startswith(SR) for x in sl.calls):
            ok_sleep_polls += pbs
            ctx.ok(R4, "sleep(%s) @%s fed by schedule_renewal()'s result" % ("duration", c.line))
    ctx.floor(R4, "sleep fed by the scheduled duration", len(ok_sleep_polls), 1)
    reqs = rc.calls_to("acmed::acme_proto::request_certificate")
    ok, hit = unreachable_without(rc, [c.bb for c in reqs], removed_nodes=ok_sleep_polls)
    ctx.require(R4, ok and reqs, reqs[0].where() if reqs else "-", "request_certificate is reached only after the scheduled sleep completed", ["renew_certificate", "request-before-sleep"])


def is_zero_duration(body, op):
    c = body.const_of(op) if op_const(op) is not None else None
    if c is None:
        sl = origins(body, op)
        return any("ZERO" in str(x.get("item", "")) for x in sl.consts) or (
            any(x.is_("core::time::Duration::new", "core::time::Duration::from_secs") for x in sl.calls) and all(cc.get("int", 0) == 0 for cc in sl.consts if "int" in cc))
    return "ZERO" in str(c.get("item", "")) or "secs: 0" in c.get("pp", "")
