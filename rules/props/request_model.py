"""request_certificate, EVALUATED along its success path and a few named failure points (abstract interpretation of the helper-
inlined coroutine; async helpers of acme_proto::certificate followed into their bodies; every other awaited future completes and
every other fallible call succeeds). Inputs that select the path are given concretely:

  kp_reuse x (is there a readable stored key)          -> which key signs the CSR, and is it written afterwards
  outcome  ok | download is not PEM | certificate is for another key

and the ordered events are read off the trace: gen_keypair / storage::get_keypair / Csr::new(key, domains, ips) /
has_public_key_of(key) / storage::set_keypair(key) / storage::write_certificate. Shared by C01 (CSR names and key), C02 and C03
(the key written is the CSR's key, only when new, only after the downloaded certificate was validated). The trace does not
depend on how the key-source code is organised (a `(KeyPair, bool)` pair, a struct with a flag, an `Option<&KeyPair>`)."""
from ..absint import NONE, Val, async_state, marker, ok, run, struct_val, success_model, variant, vbool, vstr

RC = "acmed::acme_proto::request_certificate"
CERT = "acmed::certificate::Certificate"
IDT = "acmed::identifier::IdentifierType"
IDS = [("Dns", "a.example"), ("Ip", "192.0.2.7"), ("Dns", "b.example"), ("Ip", "2001:db8::1"), ("Dns", "*.c.example")]
_cache = {}


def _err(msg):
    return Val("adt", [Val("unknown", "ERR(%s)" % msg)], ("core::result::Result", "Err"))


def request_traces(prog):
    """{(kp_reuse, stored_ok, outcome): {"result": "Ok"|"Err"|None, "events": [...]}} or None when the success path cannot be evaluated"""
    if id(prog) in _cache:
        return _cache[id(prog)]
    b = prog.async_body(RC)
    out = {}
    if b is None:
        _cache[id(prog)] = None
        return None
    try:
        def ident(t, v):
            return struct_val(prog, "acmed::identifier::Identifier", {"id_type": variant(IDT, t), "value": vstr(v), "challenge": variant("acmed::acme_proto::Challenge", "Http01")})
        for reuse in (False, True):
            for stored_ok in (True, False):
                for outcome in ("ok", "bad_pem", "key_mismatch", "key_check_error"):
                    def ov(cs, args, stored_ok=stored_ok, outcome=outcome):
                        n = cs.name or ""
                        if n.endswith("::get_error"):
                            return NONE
                        if cs.fn == "core::future::future::Future::poll" and cs.res and cs.res.startswith("acmed::storage::get_keypair::"):
                            inner = ok(marker("STOREDKEY")) if stored_ok else _err("unreadable key file")
                            return Val("adt", [inner], ("core::task::poll::Poll", "Ready"))
                        if cs.fn == "core::future::future::Future::poll" and cs.res and cs.res.startswith("acmed::acme_proto::http::pool_order::") and prog.adt("acmed::acme_proto::structs::order::Order") is not None \
                                and "certificate" in prog.adt_fields("acmed::acme_proto::structs::order::Order"):
                            # the finalised order names the certificate to download (a `match order.certificate {..}` must be decidable)
                            from ..absint import some as _some
                            od = struct_val(prog, "acmed::acme_proto::structs::order::Order", {"certificate": _some(vstr("https://ca.test/cert/1"))})
                            return Val("adt", [ok(od)], ("core::task::poll::Poll", "Ready"))
                        if cs.is_("std::path::Path::is_file", "std::path::Path::exists", "std::path::Path::try_exists"):
                            return vbool(True)                  # an older key / certificate file is on disk (readable or not)
                        if n.endswith("openssl_keys::gen_keypair"):
                            return ok(marker("NEWKEY"))
                        if n.endswith("X509Certificate::from_pem"):
                            return _err("not PEM") if outcome == "bad_pem" else ok(marker("NEWCERT"))
                        if n.endswith("::has_public_key_of"):
                            if outcome == "key_check_error":
                                return _err("public key comparison failed")        # an error of the comparison is not a match
                            return ok(vbool(outcome != "key_mismatch"))
                        if n.endswith("error::Error::prefix") and args:
                            return args[0].deref()
                        return None
                    cert = struct_val(prog, CERT, {"identifiers": Val("list", [ident(t, v) for t, v in IDS]), "kp_reuse": vbool(reuse), "file_manager": marker("FM"), "key_type": marker("KT"),
                                                   "csr_digest": marker("DG"), "subject_attributes": marker("SUBJ")})
                    st = async_state(prog, RC, lambda name, ty, i: Val("ref", cert) if ty.endswith("certificate::Certificate") else None)
                    r = run(b, {1: st}, success_model(b, ov, skip_unknown_loops=True), max_steps=600000,
                            follow=lambda cs: (cs.name or "").startswith("acmed::acme_proto::certificate::"))
                    rv = r.ret.deref() if r.kind == "return" and r.ret is not None else None
                    res = rv.extra[1] if rv is not None and rv.k == "adt" and rv.extra else None
                    ev = []
                    for c, a, rr in r.calls:
                        n = c.name or ""
                        d = [x.deref() for x in a]
                        if n.endswith("openssl_keys::gen_keypair"):
                            ev.append(("gen_keypair",))
                        elif n == "acmed::storage::get_keypair":
                            ev.append(("get_keypair",))
                        elif n.endswith("openssl_certificate::Csr::new"):
                            lst = lambda v: [x.deref().v for x in v.v] if v.k == "list" and all(x.deref().k == "str" for x in v.v) else None
                            ev.append(("csr", repr(d[0]), lst(d[2]) if len(d) > 2 else None, lst(d[3]) if len(d) > 3 else None))
                        elif n.endswith("X509Certificate::from_pem"):
                            ev.append(("from_pem", repr(d[0]) if d else None))
                        elif n.endswith("::has_public_key_of"):
                            ev.append(("match", repr(d[1]) if len(d) > 1 else None))
                        elif n == "acmed::storage::set_keypair":
                            ev.append(("set_keypair", repr(d[1]) if len(d) > 1 else None))
                        elif n == "acmed::storage::write_certificate":
                            ev.append(("write_certificate", repr(d[1]) if len(d) > 1 else None))
                        elif n.endswith("acme_proto::http::get_certificate"):
                            ev.append(("download",))
                        elif n.endswith("acme_proto::http::finalize_order"):
                            ev.append(("finalize",))
                    out[(reuse, stored_ok, outcome)] = {"result": res, "kind": r.kind, "events": ev}
    except Exception:
        out = None
    if out is not None and not all(v["result"] == "Ok" for k, v in out.items() if k[2] == "ok"):
        out = None                 # the success path itself did not evaluate: no verdict from this model
    _cache[id(prog)] = out
    return out


def expected_key(reuse, stored_ok):
    return "?STOREDKEY" if (reuse and stored_ok) else "?NEWKEY"


def names_rule(ctx, rid, tr):
    """the CSR's dNSName / iPAddress lists are the configured identifiers of that type, in configured order"""
    b = ctx.prog.async_body(RC)
    at = "%s:%s" % (b.file, b.line)
    dns = [v for t, v in IDS if t == "Dns"]
    ips = [v for t, v in IDS if t == "Ip"]
    for k, v in sorted(tr.items()):
        if k[2] != "ok":
            continue
        cs = [e for e in v["events"] if e[0] == "csr"]
        ctx.require(rid, len(cs) == 1 and cs[0][2] == dns and cs[0][3] == ips, at,
                    "identifiers %s (kp_reuse=%s, stored key %s): Csr::new(domains=%s, ips=%s) — expected %s / %s" % (IDS, k[0], "readable" if k[1] else "unreadable", cs[0][2] if cs else None, cs[0][3] if cs else None, dns, ips),
                    [RC, "csr-names", repr(k[:2])])


def key_rule(ctx, rid, tr):
    """one key per attempt: the stored key iff kp_reuse and it is readable, a fresh one otherwise; that key signs the CSR and is the
    one compared with the downloaded certificate"""
    b = ctx.prog.async_body(RC)
    at = "%s:%s" % (b.file, b.line)
    for k, v in sorted(tr.items()):
        if k[2] != "ok":
            continue
        ev = v["events"]
        want = expected_key(k[0], k[1])
        cs = [e for e in ev if e[0] == "csr"]
        mt = [e for e in ev if e[0] == "match"]
        gens = [e for e in ev if e[0] == "gen_keypair"]
        reads = [e for e in ev if e[0] == "get_keypair"]
        who = "kp_reuse=%s, stored key %s" % (k[0], "readable" if k[1] else "unreadable")
        ctx.require(rid, len(cs) == 1 and cs[0][1] == want, at, "%s: the CSR is signed with %s (expected %s)" % (who, cs[0][1] if cs else None, want), [RC, "csr-key", repr(k[:2])])
        ctx.require(rid, len(mt) == 1 and bool(cs) and mt[0][1] == cs[0][1], at, "%s: the downloaded certificate is compared with the CSR's key (%s)" % (who, mt[0][1] if mt else None), [RC, "same-key", repr(k[:2])])
        ctx.require(rid, len(gens) == (0 if want == "?STOREDKEY" else 1) and len(reads) == (1 if k[0] else 0), at,
                    "%s: key generations %d, stored-key reads %d (a stored key is read only when kp_reuse is set; exactly one key is obtained)" % (who, len(gens), len(reads)), [RC, "key-once", repr(k[:2])])


def store_rule(ctx, rid, tr):
    """a new key is written (once, the CSR's key) after the downloaded certificate was validated and before the certificate file; a
    reused key is not rewritten; a refused download writes nothing"""
    b = ctx.prog.async_body(RC)
    at = "%s:%s" % (b.file, b.line)
    for k, v in sorted(tr.items()):
        ev = v["events"]
        names = [e[0] for e in ev]
        who = "kp_reuse=%s, stored key %s, download %s" % (k[0], "readable" if k[1] else "unreadable", {"ok": "valid", "bad_pem": "not PEM", "key_mismatch": "for another key", "key_check_error": "whose key comparison fails with an error"}[k[2]])
        if k[2] != "ok":
            ctx.require(rid, v["result"] == "Err" and "set_keypair" not in names and "write_certificate" not in names, at,
                        "%s: the attempt fails and neither the key nor the certificate file is written (result %s, events %s)" % (who, v["result"], names), [RC, "refused-download", repr(k)])
            continue
        want = expected_key(k[0], k[1])
        sk = [e for e in ev if e[0] == "set_keypair"]
        cs = [e for e in ev if e[0] == "csr"]
        ctx.require(rid, len(sk) == (1 if want == "?NEWKEY" else 0) and all(e[1] == (cs[0][1] if cs else None) for e in sk), at,
                    "%s: key file writes %s (a new key is stored once, it is the CSR's key; a reused key is not rewritten)" % (who, [e[1] for e in sk]), [RC, "key-stored-iff-new", repr(k)])
        order_ok = names.count("write_certificate") == 1 and "from_pem" in names and "match" in names and names.index("from_pem") < names.index("match") < names.index("write_certificate") \
            and (not sk or names.index("match") < names.index("set_keypair") < names.index("write_certificate"))
        ctx.require(rid, order_ok, at, "%s: download -> parse -> key match -> [key file] -> certificate file (events %s)" % (who, names), [RC, "validated-before-written", repr(k)])
