"""C05 — each authorization is solved with the configured challenge and the right proof.

Decided:
  R1 the challenge-ready POST (URL = challenge.get_url()) is reached only on the success edge of call_challenge_hooks;
  R2 challenge hooks are reachable from a fetched authorization only when its status is neither Valid (skipped) nor
     anything but Pending (error); comparison `configured challenge == offered challenge` is the identity table;
  R3 call_challenge_hooks: challenge -> (hook type, clean type) table; the challenge hooks get .0, the caller gets .1;
     hook data fields come from the right sources; get_file_name: http-01 -> token, others empty;
  R4 proofs (evaluated for every challenge variant): http-01 = key authorization; dns-01 = b64(SHA-256(ka));
     tls-alpn-01 = acmeIdentifier text with raw proof b64(SHA-256(ka)); key authorization = token '.' b64(SHA-256(
     thumbprint JSON)); constants id-pe-acmeIdentifier 1.3.6.1.5.5.7.1.31, OCTET STRING 0x04, DER; proof computed with the
     account's current key;
  R5 the configured identifier is chosen with the authorization's wildcard flag (read, passed, compared) and the hooks
     receive that resolved identifier;
  R6 reverse-DNS names of IP identifiers: in-addr.arpa / ip6.arpa, reversed order, low nibble first;
  R9 what `hooks succeeded` means: call_challenge_hooks Ok <= hooks::call Ok <= every call_single Ok <= exit status success() or
     allow_failure (the status rule is shared with C10.R2);
  R7 clean-up: every validated challenge's hook data is handed to call_challenge_hooks_clean with only is_clean_hook
     changed, after the authorization poll succeeded.
  Evaluation-first: R3 (challenge -> hook types, from call_challenge_hooks per challenge), R4 (tls-alpn-01 extension text for a sample
  32-byte digest), R5 (identifier lookup table), R6 (reverse-DNS name of eight sample addresses, incl. leading zero nibbles), R8 (JWK
  thumbprint members per key type). W1: what the derived Deserialize impls accept for authorizations/challenges (props/wire_shape.py).
"""
import re

from ..absint import NONE, Interp, Val, marker, ok, run, some, struct_val, variant
from ..flow import arg_origins, origins
from ..mir import op_const, op_local, try_edges
from ..util import POLL, agg_assigns, enum_edges, call_true_false_edges, polls, result_return_kinds, unreachable_without, where
from . import crypto_tables as ct

LEVEL = "other"
TECHNIQUE = ("must-pass-through on request_certificate's CFG (hooks before the challenge POST, status gates), evaluation of the "
             "proof / file-name / hook-type / challenge-equality functions by abstract interpretation over every variant, "
             "information-flow rule on the wildcard flag, provenance of the hook data fields"
             '; evaluation of call_challenge_hooks / get_proof / get_tls_alpn_name / jwk_public_key_thumbprint on sample inputs; derived-serde shape tables')
LEVEL_TEXT = ("Decides for all challenge types, statuses and identifier sets the structure RFC 8555 section 8 / RFC 8737 require: "
              "ordering of hooks and the ready POST, skip/refuse by status, which hook types and which proof formula per "
              "challenge (whole tables), the wildcard flag reaching the identifier selection, and the clean-up pairing. "
              "Concrete proof bytes for a concrete key are OpenSSL results and not decided.")
LEVEL_NOTE = ("Not decided: proof bytes for concrete keys, what a CA offers. Trusted: rustc MIR, extractor, abstract interpreter, "
              "format! template decoding of this toolchain."
              ' Evaluated rules are (sample-based: evaluation on the listed sample family is not a proof for all inputs; the structural rule is the fallback when the interpreter cannot run the code)')

RC = "acmed::acme_proto::request_certificate"
CERT = "acmed::certificate::Certificate"
CCH = CERT + "::call_challenge_hooks"
CLEAN = CERT + "::call_challenge_hooks_clean"
SC = "acmed::acme_proto::structs::authorization::Challenge"
CH = "acmed::acme_proto::Challenge"
TC = "acmed::acme_proto::structs::authorization::TokenChallenge"
AUTH = "acmed::acme_proto::structs::authorization::Authorization"
AST = "acmed::acme_proto::structs::authorization::AuthorizationStatus"
HT = "acmed::config::HookType"
HOOK_TABLE = {"Http01": ("ChallengeHttp01", "ChallengeHttp01Clean"), "Dns01": ("ChallengeDns01", "ChallengeDns01Clean"),
              "TlsAlpn01": ("ChallengeTlsAlpn01", "ChallengeTlsAlpn01Clean")}


def sc_val(prog, v):
    if v == "Unknown":
        return variant(SC, "Unknown")
    return Val("adt", [struct_val(prog, TC, {"token": marker("TOKEN"), "url": marker("URL")})], (SC, v))


def challenge_hook_table(prog):
    """{challenge: (hook type handed to hooks::call, clean type returned)} evaluated from call_challenge_hooks, or None"""
    hb = prog.async_body(CCH)
    from ..absint import async_state, success_model
    table = {}
    evaluated = True
    for v in prog.adt_variants(CH):
        idv = struct_val(prog, "acmed::identifier::Identifier", {"challenge": variant(CH, v)})
        st = async_state(prog, CCH, lambda name, ty, i: Val("ref", idv) if ty.endswith("identifier::Identifier") else None)
        try:
            r = run(hb, {1: st}, success_model(hb, None, skip_unknown_loops=True), max_steps=60000)
        except Exception:
            r = None
        setup = clean = None
        if r is not None and r.kind == "return":
            for c, a, res in r.calls:
                if (c.name or "").endswith("hooks::call"):
                    ht = [x.deref() for x in a if x.deref().k == "variant" and (x.deref().extra or "").endswith("HookType")]
                    if len(ht) == 1 and setup is None:
                        setup = ht[0].v
                    else:
                        setup = "?"
            rv = r.ret.deref() if r.ret is not None else None
            if rv is not None and rv.k == "adt" and rv.extra and rv.extra[1] == "Ok" and rv.v and rv.v[0].deref().k == "tuple":
                cl = [x.deref() for x in rv.v[0].deref().v if x.deref().k == "variant" and (x.deref().extra or "").endswith("HookType")]
                if len(cl) == 1:
                    clean = cl[0].v
        if setup is None or clean is None:
            return None
        table[v] = (setup, clean)
    return table


def check(ctx):
    prog = ctx.prog
    W1 = ctx.rule("W1", "what the client can READ of an authorization and its challenges: member / type names per RFC 8555 7.1.4, 8 and RFC 8737, unknown members ignored")
    from .wire_shape import check_read_shapes
    check_read_shapes(ctx, W1, ["acmed::acme_proto::structs::authorization::Authorization", "acmed::acme_proto::structs::authorization::AuthorizationStatus",
                                "acmed::acme_proto::structs::authorization::Challenge", "acmed::acme_proto::structs::authorization::TokenChallenge",
                                "acmed::acme_proto::structs::authorization::ChallengeStatus", "acmed::acme_proto::structs::order::Identifier", "acmed::identifier::IdentifierType"])
    # the authorization's identifier is looked up among the configured ones BY VALUE: both sides must be in canonical form, i.e. the
    # configured value is normalised at load (C01.R4)
    from . import c01 as _c01
    ctx.shared("C01", lambda c_: _c01.normalisation_rule(c_, c_.rule("R4", "[shared with C01] configured identifiers are stored in canonical form (lower-case A-labels, canonical address text)")))
    b = prog.async_body(RC)
    R1 = ctx.rule("R1", "the CA is told a challenge is ready only after its challenge hooks succeeded")
    ready = [c for c in b.calls_to("acmed::acme_proto::http::post_jose_no_response") if any(x.is_(SC + "::get_url") for x in arg_origins(c, 2).calls)]
    hooks = b.calls_to(CCH)
    ctx.floor(R1, "challenge-ready POST", len(ready), 1)
    ctx.floor(R1, "call_challenge_hooks call", len(hooks), 1)
    ok_edges = []
    for c in hooks:
        for t in try_edges(b, [c.dest["l"]]):
            if not t["adt"].endswith("Poll"):
                ok_edges += [(t["bb"], tg) for tg in t["ok"]]
    # the ready POST sits in the per-authorization loop: it must not be reachable from the loop head without a hook success in this turn
    ga = b.calls_to("acmed::acme_proto::http::get_authorization")
    ctx.floor(R1, "get_authorization call", len(ga), 1)
    for c in ready:
        good, hit = unreachable_without(b, [c.bb], removed_edges=ok_edges)
        ctx.require(R1, bool(ok_edges) and good, c.where(), "the challenge-ready POST is reachable only through the success edge of call_challenge_hooks", [RC, "ready-before-hooks"])
        if ga:
            after = b.reachable_after(ga[0].bb, removed_edges=ok_edges)
            ctx.require(R1, c.bb not in after, c.where(), "… within the same authorization (not a hook success of an earlier one)", [RC, "ready-without-own-hooks"])
        # the URL posted belongs to the challenge whose proof was given to the hooks
        u = arg_origins(c, 2)
    for h in hooks:
        pr = arg_origins(h, 2)
        ctx.require(R1, any(x.is_(SC + "::get_proof") for x in pr.calls), h.where(), "the hooks receive challenge.get_proof(..)", [RC, "hook-proof"])

    R9 = ctx.rule("R9", "`the hooks succeeded` means every hook process exited successfully (or may fail): call_challenge_hooks -> hooks::call -> call_single's status test")
    hb0 = prog.async_body(CCH)
    okb0, errb0, fwd0 = result_return_kinds(hb0)
    hc0 = hb0.calls_to("acmed::hooks::call")
    oke0 = [(t["bb"], tg) for c in hc0 for t in try_edges(hb0, [c.dest["l"]]) if not t["adt"].endswith("Poll") for tg in t["ok"]]
    good, hit = unreachable_without(hb0, okb0, removed_edges=oke0)
    ctx.require(R9, bool(oke0) and good, hc0[0].where() if hc0 else "-", "call_challenge_hooks returns Ok only on the success edge of hooks::call", [CCH, "hook-result-ignored"])
    cb0 = prog.async_body("acmed::hooks::call")
    okb1, errb1, fwd1 = result_return_kinds(cb0)
    for c in cb0.calls_to("acmed::hooks::call_single"):
        errs = [tg for t in try_edges(cb0, [c.dest["l"]]) if not t["adt"].endswith("Poll") for tg in t["err"]]
        ctx.require(R9, bool(errs) and all(not (set(okb1) & cb0.reachable([e])) for e in errs), c.where(), "a failing hook makes hooks::call fail", ["acmed::hooks::call", "failure-swallowed"])
    from .c10 import status_rule
    status_rule(ctx, R9)
    # ... and `may fail` is what the configuration says: a hook without `allow_failure` gets the built-in default whatever its types
    from .hook_table import allow_failure_table
    aft = allow_failure_table(prog)
    dflt_af = prog.const("acmed::DEFAULT_HOOK_ALLOW_FAILURE").get("bool")
    if aft is not None and dflt_af is not None:
        for types_, got_ in aft:
            ctx.require(R9, got_ == dflt_af, "acmed/src/config.rs", "a hook of types %s without `allow_failure` resolves with allow_failure = %s (built-in default: %s)" % (types_, got_, dflt_af),
                        ["acmed::config::Config::get_hook", "allow-failure-default", ",".join(types_)])

    R2 = ctx.rule("R2", "no hook for an authorization that is already valid; other non-pending statuses are errors; challenge selection is the identity table")
    # the status tests are read per AuthorizationStatus variant, whatever their form (`==`/`!=` chains, `match`, `if let`):
    # keep only the edges consistent with `auth.status == v` and look at what stays reachable from the tests
    okb, errb, fwd = result_return_kinds(b)
    n_tests = 0
    for v in prog.adt_variants(AST):
        rem, nt = enum_edges(b, (AUTH, "status"), v)
        n_tests = max(n_tests, nt)
        tests = sorted({e[0] for e in rem})
        starts = sorted({s_ for t_ in tests for s_ in b.succ[t_] if (t_, s_) not in set(map(tuple, rem))})
        reach = b.reachable(starts, removed_edges=rem) if starts else set()
        hooks_hit = [h for h in hooks if h.bb in reach]
        ready_hit = [r_ for r_ in ready if r_.bb in reach]
        at = where(b, tests[0]) if tests else "%s:%s" % (b.file, b.line)
        if v == "Pending":
            ctx.require(R2, bool(tests) and bool(hooks_hit), at, "a pending authorization reaches the challenge hooks", [RC, "pending-test"])
        elif v == "Valid":
            ctx.require(R2, bool(tests) and not hooks_hit and not ready_hit, at, "hooks / ready POST are reachable only when the authorization is not already valid", [RC, "hooks-for-valid"])
            # ... and a valid authorization is SKIPPED, not the end of the loop: from the `valid` edge the loop takes its next
            # authorization (a `break` there leaves every authorization listed after a valid one unsolved)
            scc = b.scc_of(tests[0]) if tests else None
            if scc:
                sccset = set(scc)
                leaving = [(u, w) for u in scc for w in b.succ[u] if w not in sccset]
                nexts_ = [c_.bb for c_ in b.calls_to("core::iter::traits::iterator::Iterator::next") if c_.bb in sccset]
                inloop = b.reachable(starts, removed_edges=list(map(tuple, rem)) + leaving) if starts else set()
                ctx.require(R2, bool(nexts_) and any(n_ in inloop for n_ in nexts_), at, "after a valid authorization the loop goes on with the next authorization (it is not left)", [RC, "valid-ends-loop"])
        else:
            ctx.require(R2, bool(tests) and not hooks_hit, at, "hooks run only for a pending authorization (status %s)" % v, [RC, "hooks-non-pending"])
            r2 = b.reachable_flags(starts, removed_nodes=errb, removed_edges=rem) if starts else set()     # variant-tag sensitive
            ctx.require(R2, bool(tests) and not (set(b.return_blocks()) & r2), at, "any other status (%s) ends the attempt with an error" % v, [RC, "non-pending-not-error"])
    ctx.floor(R2, "tests of auth.status", n_tests, 1)
    # every pending authorization is solved: the loop body has no gate on what was solved BEFORE (a set / list of seen identifiers):
    # the authorizations of `example.org` and `*.example.org` carry the same identifier and are both to be solved
    SEEN = ("insert", "contains", "contains_key", "binary_search", "position", "any", "replace", "get", "entry", "push")
    scc_ = None
    for v_ in prog.adt_variants(AST):
        rem_, nt_ = enum_edges(b, (AUTH, "status"), v_)
        if rem_:
            scc_ = b.scc_of(sorted({e[0] for e in rem_})[0])
            break
    if scc_:
        sset = set(scc_)
        hk_in = {h.bb for h in hooks if h.bb in sset}
        nx_all = [c_ for c_ in b.calls_to("core::iter::traits::iterator::Iterator::next") if c_.bb in sset]
        nx_auth = [c_ for c_ in nx_all if ("acmed::acme_proto::structs::order::Order", "authorizations") in arg_origins(c_, 0).fields]
        nx_in = [c_.bb for c_ in (nx_auth or nx_all)]
        for u in sorted(sset):
            t_ = b.term(u)
            if t_["t"] != "switch" or not hk_in or not nx_in:
                continue
            dsl = origins(b, t_["discr"])
            mem = [x for x in dsl.calls if (x.name or "").rsplit("::", 1)[-1] in SEEN and any(k_ in (x.name or "") for k_ in ("HashSet", "BTreeSet", "HashMap", "BTreeMap", "alloc::vec::Vec", "slice"))
                   and x.args and not ({(AUTH, "challenges"), ("acmed::acme_proto::structs::order::Order", "authorizations")} & arg_origins(x, 0).fields)]
            if not mem:
                continue
            succs = [w for w in b.succ[u] if w in sset]
            to_hooks = [w for w in succs if hk_in & b.reachable([w], removed_nodes=nx_in)]
            skip = [w for w in succs if not (hk_in & b.reachable([w], removed_nodes=nx_in)) and set(nx_in) & b.reachable([w], removed_nodes=list(hk_in))]
            ctx.require(R2, not (to_hooks and skip), where(b, u), "no authorization is skipped because of a record of earlier ones (%s)" % sorted({x.name.rsplit("::", 2)[-2] + "::" + x.name.rsplit("::", 1)[-1] for x in mem}),
                        [RC, "authorization-skipped-as-seen"])
    eqk = [k for k in prog.bodies if k.startswith("<" + CH + " as core::cmp::PartialEq<" + SC + ">>::eq")]
    ctx.floor(R2, "PartialEq<structs::Challenge> for Challenge", len(eqk), 1)
    if eqk:
        eb = prog.body(eqk[0])
        for a in prog.adt_variants(CH):
            for o in prog.adt_variants(SC):
                r = run(eb, {1: Val("ref", variant(CH, a)), 2: Val("ref", sc_val(prog, o))})
                got = r.ret.v if r.kind == "return" and r.ret.k == "bool" else None
                ctx.require(R2, got == (a == o), "%s:%s" % (eb.file, eb.line), "configured %s vs offered %s -> %s" % (a, o, got), ["Challenge::eq", a, o])
    # the comparison in request_certificate uses the configured identifier's challenge
    sel = [c for c in b.calls if c.res and c.res.startswith("<" + CH + " as core::cmp::PartialEq<" + SC)]
    # the same selection written as an iterator filter: `challenges.iter().filter(|c| configured == **c)` — the comparison sits in the
    # predicate closure, the hooks run inside the loop over the filtered iterator
    sel_clos = []
    if not sel:
        from .guards import body_family
        from ..flow import closure_captures_of
        for fb in body_family(prog, b.key)[1:]:
            for c in fb.calls:
                if c.res and c.res.startswith("<" + CH + " as core::cmp::PartialEq<" + SC) and fb.kind == "Closure" and fb.local_ty(0) == "bool":
                    sel_clos.append((fb, c))
    ctx.floor(R2, "challenge selection comparison in request_certificate", len(sel) + len(sel_clos), 1)
    for fb, c in sel_clos:
        caps, cst = closure_captures_of(b, fb.key)
        srcs = [origins(b, o) for o in (caps or [])]
        inner = arg_origins(c, 0)
        ctx.require(R2, any(any(x.is_(CERT + "::get_identifier_from_str") for x in sl.calls) and (("acmed::identifier::Identifier", "challenge") in sl.fields or
                                                                                               (("acmed::identifier::Identifier", "challenge") in inner.fields and inner.has_leaf("upvar:"))) for sl in srcs), c.where(),
                    "the challenge compared is the configured identifier's", [RC, "selection-source"])
        # the predicate is what the loop around the hooks iterates over: every hook call sits in a loop whose iterator went through
        # filter(<this predicate>) (or find / skip_while+take_while are NOT accepted: only `filter` keeps exactly the matching offers)
        for h in hooks:
            scc = b.scc_of(h.bb)
            nxs = [x for x in b.calls_to("core::iter::traits::iterator::Iterator::next") if scc and x.bb in set(scc)]
            gated = any(("closure:" + fb.key) in arg_origins(x, 0).leaves and arg_origins(x, 0).via_any("core::iter::traits::iterator::Iterator::filter") for x in nxs)
            ctx.require(R2, gated, h.where(), "hooks run only for the offered challenge that equals the configured one (loop over `filter(configured == offered)`)", [RC, "selection-gate"])
    for c in sel:
        a0 = arg_origins(c, 0)
        ctx.require(R2, any(x.is_(CERT + "::get_identifier_from_str") for x in a0.calls) and ("acmed::identifier::Identifier", "challenge") in a0.fields, c.where(),
                    "the challenge compared is the configured identifier's", [RC, "selection-source"])
        t, f = call_true_false_edges(b, c)
        good, hit = unreachable_without(b, [h.bb for h in hooks], removed_edges=t, start=c.bb)
        ctx.require(R2, bool(t) and good, c.where(), "hooks run only for the offered challenge that equals the configured one", [RC, "selection-gate"])

    R3 = ctx.rule("R3", "challenge -> (hook type, clean type) table; hook data fields; http-01 file name = token")
    # the hooks the certificate carries: every configured hook with a challenge / post-operation type (also when the same hook has a
    # file type as well) — the family filter of MainEventLoop::new, shared with C10.R3
    from .c10 import HT as _HT, MEL as _MEL, hook_consumers_rule
    hook_consumers_rule(ctx, R3, prog.async_body(_MEL), set(prog.adt_variants(_HT)))
    hb = prog.async_body(CCH)
    # evaluation-first: call_challenge_hooks is interpreted for every configured challenge (every fallible call succeeds): the hook
    # type handed to hooks::call and the clean type returned next to the hook data are read off the trace
    table = challenge_hook_table(prog)
    evaluated = table is not None
    if table is None:
        table = {}
    if not evaluated:
        table = {}
        hb = prog.async_body(CCH)
        table = {}
        for i in sorted(hb.live_blocks()):
            t = hb.term(i)
            if t["t"] != "switch":
                continue
            dl = op_local(t["discr"])
            names = {}
            for kind, bb, j, st in hb.defs.get(dl, []):
                if kind == "stmt" and st["s"] == "assign" and st["rv"]["k"] == "discr" and st["rv"].get("adt") == CH:
                    names = {int(v[0]): v[1] for v in st["rv"].get("variants", [])}
            if not names:
                continue
            it = Interp(hb)
            for val, tg in t["arms"]:
                r = it.run({}, start_bb=tg)
                tup = [x for x in (r.env or {}).values() if isinstance(x, Val) and x.k == "tuple" and len(x.v) == 2 and all(y.k == "variant" for y in x.v)]
                if tup:
                    table[names.get(val)] = (tup[0].v[0].v, tup[0].v[1].v)
    for k, exp in HOOK_TABLE.items():
        ctx.require(R3, table.get(k) == exp, "%s:%s" % (hb.file, hb.line), "%s -> %s (expected %s)" % (k, table.get(k), exp), [CCH, "hook-table", k])
    hc = hb.calls_to("acmed::hooks::call")
    ctx.floor(R3, "hooks::call in call_challenge_hooks", len(hc), 1)
    for c in hc:
        tl = arg_origins(c, 3)
        al = op_local(c.args[3])
        if not evaluated:
            ctx.require(R3, field_of_tuple(hb, c.args[3]) == 0, c.where(), "the challenge hooks are called with the first element (challenge type) of the pair", [CCH, "hook-type-slot"])
        ctx.require(R3, (CERT, "hooks") in arg_origins(c, 1).fields, c.where(), "… over the certificate's hooks", [CCH, "hook-list"])
    for i, st in agg_assigns(hb, "core::result::Result", "Ok"):
        if st["lhs"]["l"] != 0:
            continue
        tup = op_local(st["rv"]["ops"][0])
        for kind, bb, j, s2 in hb.defs.get(tup, []):
            if not evaluated and kind == "stmt" and s2["s"] == "assign" and s2["rv"]["k"] == "agg" and s2["rv"].get("agg") == "tuple" and len(s2["rv"]["ops"]) == 2:
                ctx.require(R3, field_of_tuple(hb, s2["rv"]["ops"][1]) == 1, where(hb, bb), "the caller receives the second element (clean type) of the pair", [CCH, "clean-type-slot"])
    HD = "acmed::hooks::ChallengeHookData"
    srcs = {"file_name": "upvar:1", "proof": "upvar:2", "raw_proof": "upvar:3"}
    for i, st in agg_assigns(hb, HD):
        fs = st["rv"]["fields"]
        for fld, leaf in srcs.items():
            sl = origins(hb, st["rv"]["ops"][fs.index(fld)])
            ctx.require(R3, sl.has_leaf(leaf) and not [l for l in sl.leaves if l.startswith("upvar:") and not l.startswith(leaf)], where(hb, i), "hook data `%s` <- parameter `%s`" % (fld, fld), [CCH, "data", fld])
        sl = origins(hb, st["rv"]["ops"][fs.index("identifier")])
        ctx.require(R3, ("acmed::identifier::Identifier", "value") in sl.fields, where(hb, i), "hook data `identifier` <- identifier.value", [CCH, "data", "identifier"])
        sl = origins(hb, st["rv"]["ops"][fs.index("identifier_tls_alpn")], through=True)
        ctx.require(R3, any(x.is_("acmed::identifier::Identifier::get_tls_alpn_name") for x in sl.calls), where(hb, i), "hook data `identifier_tls_alpn` <- get_tls_alpn_name()", [CCH, "data", "identifier_tls_alpn"])
        sl = origins(hb, st["rv"]["ops"][fs.index("challenge")])
        ctx.require(R3, ("acmed::identifier::Identifier", "challenge") in sl.fields, where(hb, i), "hook data `challenge` <- identifier.challenge", [CCH, "data", "challenge"])
        c0 = op_const(st["rv"]["ops"][fs.index("is_clean_hook")])
        ctx.require(R3, c0 is not None and c0.get("bool") is False, where(hb, i), "is_clean_hook = false for challenge hooks", [CCH, "data", "is_clean_hook"])
    gf = prog.must_body(SC + "::get_file_name")
    for v in prog.adt_variants(SC):
        r = run(gf, {1: Val("ref", sc_val(prog, v))})
        got = repr(r.ret) if r.kind == "return" else r.kind
        exp_token = v == "Http01"
        ctx.require(R3, ("TOKEN" in got) == exp_token and (exp_token or "String::new" in got or got == "str('')"), "%s:%s" % (gf.file, gf.line), "get_file_name(%s) = %s" % (v, got), [SC + "::get_file_name", v])
    for h in hooks:
        fn = arg_origins(h, 1)
        ctx.require(R3, any(x.is_(SC + "::get_file_name") for x in fn.calls), h.where(), "file_name handed to the hooks = challenge.get_file_name()", [RC, "file-name"])

    proofs(ctx)
    R8 = ctx.rule("R8", "the key-authorization thumbprint is the RFC 7638 form with fixed-width EC coordinates (shared with C15: a short coordinate yields a wrong proof for that key)")
    ct.padding_rules(ctx, R8)
    from .c15 import thumbprint_members
    thumbprint_members(ctx, R8)
    # ... and its members are serialised in lexicographic order: serde_json's map is a BTreeMap unless the `preserve_order` feature
    # is enabled anywhere in the build (feature unification) — then RSA thumbprints come out as kty,e,n (shared with C15.K6)
    from .c15 import serde_json_features
    feats = serde_json_features(ctx.repo)
    ctx.require(R8, feats is not None and "preserve_order" not in feats, "Cargo.lock / cargo metadata", "serde_json features = %s (no preserve_order)" % (feats,), ["serde_json", "preserve_order"])
    wildcard(ctx)
    reverse_dns(ctx)
    cleanup(ctx)


def field_of_tuple(body, op):
    """index f when the operand is (a move/copy of) `_t.f` of a tuple local, else None"""
    from ..mir import op_place
    p = op_place(op)
    seen = 0
    while p is not None and seen < 6:
        seen += 1
        for e in p["p"]:
            if isinstance(e, dict) and "tuple" in e:
                return e["f"]
        ds = body.defs.get(p["l"], [])
        if len(ds) == 1 and ds[0][0] == "stmt" and ds[0][3]["s"] == "assign" and ds[0][3]["rv"]["k"] in ("use",):
            p = op_place(ds[0][3]["rv"]["op"])
        elif len(ds) == 1 and ds[0][0] == "call" and ds[0][3].get("fn", "").endswith("::to_owned") or (len(ds) == 1 and ds[0][0] == "call" and "Clone" in ds[0][3].get("fn", "")):
            from ..mir import CallSite
            cs = CallSite(body, ds[0][1], ds[0][3])
            p = op_place(cs.args[0])
            # &_t.f
            if p is not None and not p["p"]:
                d2 = body.defs.get(p["l"], [])
                if len(d2) == 1 and d2[0][0] == "stmt" and d2[0][3]["rv"]["k"] == "ref":
                    p = d2[0][3]["rv"]["place"]
        else:
            return None
    return None


def proofs(ctx):
    prog = ctx.prog
    R4 = ctx.rule("R4", "proof formulas per challenge (RFC 8555 section 8.1/8.3/8.4, RFC 8737 section 3), evaluated for every variant; SHA-256 everywhere; current account key")
    gp = prog.must_body(SC + "::get_proof")

    def model(cs, args):
        n = cs.name
        if n.endswith("::key_authorization"):
            return ok(marker("KA"))
        if n.endswith("::hash") and "HashFunction" in n or n.endswith("BaseHashFunction>::hash"):
            return Val("unknown", "HASH[%r](%r)" % (args[0].deref(), args[1].deref()))
        if n.endswith("b64_encode"):
            return Val("unknown", "B64(%r)" % (args[0].deref(),))
        if cs.fn == "core::iter::traits::iterator::Iterator::next":
            # a loop over the digest's bytes (hex rendering): its text is not decided here, the loop is stepped over
            return NONE
        return None

    exp = {"Http01": (r"^\?KA$", "None"), "Dns01": (r"^\?B64\(\?HASH\[BaseHashFunction::Sha256\]\(\?KA\)\)$", "None"),
           "TlsAlpn01": (r"must_use|format", r"B64\(\?HASH\[BaseHashFunction::Sha256\]\(\?KA\)\)"), "Unknown": (r"String::new|^str\(''\)$", "None")}
    for v in prog.adt_variants(SC):
        r = run(gp, {1: Val("ref", sc_val(prog, v)), 2: Val("ref", marker("KEY"))}, model)
        good = False
        desc = r.kind
        if r.kind == "return":
            rv = r.ret.deref()
            if rv.k == "adt" and rv.extra[1] == "Ok" and rv.v and rv.v[0].deref().k == "tuple":
                t0, t1 = [repr(x.deref()) for x in rv.v[0].deref().v]
                desc = "(%s, %s)" % (t0, t1)
                good = re.search(exp[v][0], t0) is not None and re.search(exp[v][1], t1) is not None
            if v != "Unknown":
                ka = [c for c, a, res in r.calls if c.name.endswith("key_authorization")]
                good = good and len(ka) == 1
        ctx.require(R4, good, "%s:%s" % (gp.file, gp.line), "get_proof(%s) = %s" % (v, desc), [SC + "::get_proof", v])
        if v == "TlsAlpn01" and r.kind == "return":
            hashes = [a for c, a, res in r.calls if c.name.endswith("hash")]
            ctx.require(R4, len(hashes) == 1, "%s:%s" % (gp.file, gp.line), "the extension value and raw_proof use one and the same SHA-256 digest", [SC + "::get_proof", "single-digest"])
    consts = {"ACME_OID": "1.3.6.1.5.5.7.1", "ID_PE_ACME_ID": 31, "DER_OCTET_STRING_ID": 4, "DER_STRUCT_NAME": "DER"}
    for nm, val in consts.items():
        c = prog.const("acmed::acme_proto::structs::authorization::" + nm)
        got = c.get("str", c.get("int"))
        ctx.require(R4, got == val, "acmed/src/acme_proto/structs/authorization.rs", "%s = %r (RFC 8737: id-pe-acmeIdentifier 1.3.6.1.5.5.7.1.31, DER OCTET STRING 0x04)" % (nm, got), ["authorization", nm])
    used = {c.get("item") for blk in gp.blocks for st in blk["stmts"] if st["s"] == "assign" for o in [st["rv"].get("op")] if isinstance(o, dict) for c in [o.get("const")] if c}
    # the tls-alpn-01 text, EVALUATED for a concrete 32-byte digest (values below 0x10 included, so the zero padding shows)
    digest = [(i * 37 + 5) & 0xff for i in range(32)]
    from ..absint import vint

    def model_c(cs, args):
        n = cs.name
        if n.endswith("::hash") and "HashFunction" in n or n.endswith("BaseHashFunction>::hash"):
            return Val("list", [vint(x) for x in digest])
        if cs.fn == "core::iter::traits::iterator::Iterator::next":
            return None
        return model(cs, args)
    text = None
    try:
        r = run(gp, {1: Val("ref", sc_val(prog, "TlsAlpn01")), 2: Val("ref", marker("KEY"))}, model_c, max_steps=60000)
        if r.kind == "return":
            rv = r.ret.deref()
            if rv.k == "adt" and rv.extra[1] == "Ok" and rv.v and rv.v[0].deref().k == "tuple" and rv.v[0].deref().v[0].deref().k == "str":
                text = rv.v[0].deref().v[0].deref().v
    except Exception:
        text = None
    if text is not None:
        want = "1.3.6.1.5.5.7.1.31=critical,DER:04:%02x:%s" % (len(digest), ":".join("%02x" % x for x in digest))
        ctx.require(R4, text == want, "%s:%s" % (gp.file, gp.line), "tls-alpn-01 extension text for a sample digest evaluates to the RFC 8737 form (got %s)" % text[:60],
                    [SC + "::get_proof", "text"])
    else:
        pieces = format_literals(gp)
        ctx.require(R4, "critical," in "".join(pieces) and "=" in pieces or any("=" == p for p in pieces), "%s:%s" % (gp.file, gp.line),
                    "tls-alpn-01 text = <oid>=critical,DER:04:<len>:<hex> (format literals %s)" % pieces, [SC + "::get_proof", "template"])
    ka = prog.must_body(TC + "::key_authorization")

    def model2(cs, args):
        n = cs.name
        if n.endswith("jwk_public_key_thumbprint"):
            return ok(marker("THUMB"))
        if n.endswith("::hash"):
            return Val("unknown", "HASH[%r](%r)" % (args[0].deref(), args[1].deref()))
        if n.endswith("b64_encode"):
            return Val("unknown", "B64(%r)" % (args[0].deref(),))
        return None

    r = run(ka, {1: Val("ref", struct_val(prog, TC, {"token": marker("TOKEN")})), 2: Val("ref", marker("KEY"))}, model2)
    hs = [a for c, a, res in r.calls if c.name.endswith("::hash")]
    ctx.require(R4, r.kind == "return" and len(hs) == 1 and repr(hs[0][0].deref()).endswith("Sha256") and "THUMB" in repr(hs[0][1]), "%s:%s" % (ka.file, ka.line),
                "key authorization hashes the thumbprint JSON with SHA-256 (%s)" % [repr(h) for h in hs][:1], [TC + "::key_authorization", "digest"])
    tp = [c for c, a, res in r.calls if c.name.endswith("jwk_public_key_thumbprint")]
    ctx.require(R4, len(tp) == 1, "%s:%s" % (ka.file, ka.line), "… of the key's RFC 7638 thumbprint form", [TC + "::key_authorization", "thumbprint"])
    lit = format_literals(ka)
    sl = origins(ka, {"l": 0, "p": []}, through=True)
    ctx.require(R4, "." in lit and (TC, "token") in sl.fields and any("b64_encode" in x.name for x in sl.calls), "%s:%s" % (ka.file, ka.line),
                "key authorization = token '.' b64(digest) (literals %s)" % lit, [TC + "::key_authorization", "format"])
    b = prog.async_body(RC)
    for c in b.calls_to(SC + "::get_proof"):
        k = arg_origins(c, 1)
        ctx.require(R4, ("acmed::account::Account", "current_key") in k.fields and ("acmed::account::AccountKey", "key") in k.fields
                    and ("acmed::account::Account", "past_keys") not in k.fields, c.where(), "the proof is computed with the account's current key (and no other)", [RC, "proof-key"])


def format_literals(body):
    """literal pieces of the format! templates used in a body (this toolchain encodes templates as length-prefixed byte strings)"""
    out = []
    for blk in body.blocks + [bb for p in body.promoted for bb in p["blocks"]]:
        for st in blk["stmts"]:
            if st["s"] != "assign":
                continue
            ops = [st["rv"].get("op")] + st["rv"].get("ops", [])
            for o in ops:
                c = o.get("const") if isinstance(o, dict) else None
                if c and "bytes" in c:
                    out += decode_template(bytes(c["bytes"]))
                elif c and c.get("ty", "").startswith("&[u8;") and str(c.get("pp", "")).startswith('b"'):
                    import ast
                    try:
                        out += decode_template(ast.literal_eval(c["pp"]))
                    except Exception:
                        pass
        t = blk["term"]
        for o in t.get("args", []):
            c = o.get("const") if isinstance(o, dict) else None
            if c and "bytes" in c:
                out += decode_template(bytes(c["bytes"]))
    return out


def strings_in_blocks(body, blocks):
    """string constants and format-template literals used by the given blocks (promoted constants they reference included)"""
    import ast
    out = []

    def from_const(c, depth=0):
        if not c:
            return
        if "str" in c:
            out.append(c["str"])
        if "bytes" in c:
            out.extend(decode_template(bytes(c["bytes"])))
        elif c.get("ty", "").startswith("&[u8;") and str(c.get("pp", "")).startswith('b"'):
            try:
                out.extend(decode_template(ast.literal_eval(c["pp"])))
            except Exception:
                pass
        if c.get("promoted") is not None and depth < 2 and c["promoted"] < len(body.promoted):
            for pb in body.promoted[c["promoted"]]["blocks"]:
                scan(pb, depth + 1)

    def scan(blk, depth=0):
        for st in blk["stmts"]:
            if st["s"] != "assign":
                continue
            for o in [st["rv"].get("op"), st["rv"].get("a"), st["rv"].get("b")] + list(st["rv"].get("ops", [])):
                if isinstance(o, dict):
                    from_const(o.get("const"), depth)
        for o in blk["term"].get("args", []):
            if isinstance(o, dict):
                from_const(o.get("const"), depth)

    for i in blocks:
        scan(body.blocks[i])
    return out


def decode_template(bs):
    out = []
    i = 0
    n = len(bs)
    while i < n:
        b = bs[i]
        if b == 0:
            break
        if b < 0x80:
            out.append(bs[i + 1:i + 1 + b].decode("utf-8", "replace"))
            i += 1 + b
        else:
            # placeholder: 0xc0 plain; other values carry option bytes — skip conservatively to the next plausible literal
            i += 1
            if b != 0xc0:
                extra = bin(b & 0x3f).count("1")
                i += 0
                # options are encoded in following bytes; resync on next byte < 0x80 that delimits printable text
                while i < n and not (bs[i] == 0 or bs[i] >= 0x80 or (bs[i] < 0x80 and i + 1 + bs[i] <= n and all(32 <= x < 127 for x in bs[i + 1:i + 1 + bs[i]]) and bs[i] > 0)):
                    i += 1
    return out


def wildcard(ctx):
    prog = ctx.prog
    R5 = ctx.rule("R5", "the wildcard flag of the authorization selects between a name and its wildcard; the hooks get the resolved identifier")
    b = prog.async_body(RC)
    gi = b.calls_to(CERT + "::get_identifier_from_str")
    ctx.floor(R5, "get_identifier_from_str call", len(gi), 1)
    for c in gi:
        ctx.require(R5, len(c.args) >= 3 and (AUTH, "wildcard") in arg_origins(c, 2).fields, c.where(), "the lookup receives authorization.wildcard", [RC, "wildcard-passed"])
        ctx.require(R5, (AUTH, "identifier") in arg_origins(c, 1).fields, c.where(), "… and authorization.identifier.value", [RC, "identifier-passed"])
        # the VALUE of the flag, not its presence: `"wildcard": false` is an ordinary authorization (RFC 8555 7.1.4: absent = false)
        wsl = arg_origins(c, 2)
        presence = sorted(v.rsplit("::", 1)[-1] for v in wsl.via if v.rsplit("::", 1)[-1] in ("is_some", "is_none", "is_some_and", "is_none_or") and "option::Option" in v)
        ctx.require(R5, not presence, c.where(), "the lookup receives the value of authorization.wildcard (absent = false), not whether the member is present (%s)" % presence, [RC, "wildcard-presence"])
    # the lookup itself is EVALUATED on concrete identifier lists (abstract interpretation with concrete strings and lists, iterator
    # chains and closures included): a name and its wildcard in both configuration orders x both values of the flag, each alone,
    # an unrelated name, an IP identifier, and an absent identifier — whatever the shape of the code
    fb = prog.must_body(CERT + "::get_identifier_from_str")
    IDENT = "acmed::identifier::Identifier"
    IDT = "acmed::identifier::IdentifierType"
    from ..absint import vbool, vstr

    def ident(v, t="Dns"):
        return struct_val(prog, IDENT, {"id_type": variant(IDT, t), "value": vstr(v), "challenge": marker("CH:" + v), "env": marker("ENV")})

    def lookup(values, name, flag):
        ids = Val("list", [ident(v, "Ip" if v[0].isdigit() else "Dns") for v in values])
        r = run(fb, {1: Val("ref", struct_val(prog, CERT, {"identifiers": ids})), 2: Val("ref", vstr(name)), 3: vbool(flag)}, None, max_steps=40000)
        if r.kind != "return" or r.ret is None:
            return "?" + r.kind
        ret = r.ret.deref()
        if ret.k == "adt" and ret.extra and ret.extra[1] == "Ok":
            iv = ret.v[0].deref()
            if iv.k == "adt":
                x = iv.v[prog.adt_fields(IDENT).index("value")].deref()
                return x.v if x.k == "str" else "?" + repr(x)
            return "?" + repr(iv)
        if ret.k == "adt" and ret.extra and ret.extra[1] == "Err":
            return "Err"
        return "?" + repr(ret)
    N, W = "example.org", "*.example.org"
    table = [([N, W], N, True, W), ([N, W], N, False, N), ([W, N], N, True, W), ([W, N], N, False, N),
             ([N], N, True, N), ([N], N, False, N), ([W], N, False, W), ([W], N, True, W),
             (["a.example.org", N, W], N, True, W), (["a.example.org", W, N], N, False, N), ([W, "other.org"], "other.org", False, "other.org"),
             (["192.0.2.1", N], "192.0.2.1", False, "192.0.2.1"), ([N, W], "absent.org", False, "Err"), ([], N, False, "Err")]
    for values, name, flag, want in table:
        got = lookup(values, name, flag)
        ctx.require(R5, got == want, "%s:%s" % (fb.file, fb.line), "identifiers %s, authorization for %s with wildcard=%s -> %s (expected %s)" % (values, name, flag, got, want),
                    [CERT + "::get_identifier_from_str", "lookup", ",".join(values), name, str(flag)])
    for h in b.calls_to(CCH):
        idl = arg_origins(h, 4)
        ctx.require(R5, any(x.is_(CERT + "::get_identifier_from_str") for x in idl.calls), h.where(), "call_challenge_hooks receives the identifier resolved with the flag", [RC, "hooks-identifier"])
    hb = prog.async_body(CCH)
    ctx.require(R5, not hb.calls_to(CERT + "::get_identifier_from_str"), "%s:%s" % (hb.file, hb.line), "call_challenge_hooks does not look the identifier up again by name (which would lose the flag)", [CCH, "second-lookup"])


def reverse_dns(ctx):
    prog = ctx.prog
    R6 = ctx.rule("R6", "IP identifiers are validated under their reverse-DNS names (RFC 8738): in-addr.arpa / ip6.arpa, reversed, nibble order")
    gb = prog.must_body("acmed::identifier::Identifier::get_tls_alpn_name")
    # evaluation-first: the name is COMPUTED by the interpreter for sample addresses of both families (every octet distinct, both
    # nibbles distinct) and compared with RFC 8738's reverse-DNS name; whatever the shape of the code
    import ipaddress
    from ..absint import Val, run as arun, struct_val, variant as avariant, vstr
    IDK = "acmed::identifier::Identifier"
    samples = ["192.0.2.7", "10.200.30.4", "2001:db8:85a3::8a2e:370:7334", "fe80::1c2d:3e4f:a7b6:95d8", "64:ff9b::102:304", "::1", "::ffff:192.0.2.7", "0.0.0.9"]
    results = {}
    for a in samples:
        idv = struct_val(prog, IDK, {"id_type": avariant("acmed::identifier::IdentifierType", "Ip"), "value": vstr(a)})
        try:
            r = arun(gb, {1: Val("ref", idv)}, None, max_steps=60000, follow=lambda cs: (cs.name or "").startswith("acmed::identifier::"))
        except Exception:
            r = None
        got = None
        if r is not None and r.kind == "return" and r.ret is not None:
            rv = r.ret.deref()
            if rv.k == "adt" and rv.extra and rv.extra[1] == "Ok" and rv.v and rv.v[0].deref().k == "str":
                got = rv.v[0].deref().v
        results[a] = got
    if all(v is not None for v in results.values()):
        for a, got in results.items():
            want = ipaddress.ip_address(a).reverse_pointer
            ctx.require(R6, got == want, "%s:%s" % (gb.file, gb.line), "get_tls_alpn_name(%s) evaluates to %s (RFC 8738: %s)" % (a, got, want), ["get_tls_alpn_name", "value", a])
    else:
        gb = prog.must_body("acmed::identifier::Identifier::get_tls_alpn_name")
        # per address family: the text used on the V4 arm names in-addr.arpa (and not ip6.arpa), on the V6 arm ip6.arpa; the labels
        # and the zone are joined with '.'
        arms = {}
        for i in sorted(gb.live_blocks()):
            t = gb.term(i)
            if t["t"] != "switch":
                continue
            dl = op_local(t["discr"])
            for kind, bb_, j, st in gb.defs.get(dl, []):
                if kind == "stmt" and st["s"] == "assign" and st["rv"]["k"] == "discr" and (st["rv"].get("adt") or "").endswith("IpAddr"):
                    names = {int(v[0]): v[1] for v in st["rv"].get("variants", [])}
                    tg = {names.get(v): x for v, x in t["arms"]}
                    rest = [n for n in names.values() if n not in tg]
                    if len(rest) == 1:
                        tg[rest[0]] = t["otherwise"]
                    arms = tg
        zone = {}
        if set(arms) >= {"V4", "V6"}:
            r4, r6 = gb.reachable([arms["V4"]]), gb.reachable([arms["V6"]])
            zone["V4"] = "".join(strings_in_blocks(gb, sorted(r4 - r6)))
            zone["V6"] = "".join(strings_in_blocks(gb, sorted(r6 - r4)))
        lit = format_literals(gb)
        good = "in-addr.arpa" in zone.get("V4", "") and "ip6.arpa" not in zone.get("V4", "") and "ip6.arpa" in zone.get("V6", "") and "in-addr.arpa" not in zone.get("V6", "")
        dotted = any(x.startswith(".") for x in lit) or "." in lit
        ctx.require(R6, good and dotted, "%s:%s" % (gb.file, gb.line), "IPv4 -> <labels>.in-addr.arpa, IPv6 -> <labels>.ip6.arpa (V4 arm: %r, V6 arm: %r, format literals %s)" % (zone.get("V4"), zone.get("V6"), lit),
                    ["get_tls_alpn_name", "suffixes"])
        revs = gb.calls_to("core::iter::traits::iterator::Iterator::rev")
        ctx.require(R6, len(revs) >= 2, "%s:%s" % (gb.file, gb.line), "octets are reversed for both address families (%d rev())" % len(revs), ["get_tls_alpn_name", "reversed"])
        nb = prog.must_body("acmed::identifier::u8_to_nibbles_string")
        ops = [(st["lhs"]["l"], st["rv"]["op"], op_const(st["rv"]["b"])) for i in sorted(nb.live_blocks()) for st in nb.blocks[i]["stmts"] if st["s"] == "assign" and st["rv"]["k"] == "binop" and st["rv"]["op"] in ("BitAnd", "Shr")]
        # the two values printed, in print order (the argument array of the format!): first the low nibble (& 0x0f, no shift), then
        # the high nibble (>> 4) — found through the formatting arguments, not through the names of the locals
        good = False
        for i in sorted(nb.live_blocks()):
            for st in nb.blocks[i]["stmts"]:
                if st["s"] == "assign" and st["rv"]["k"] == "agg" and st["rv"].get("agg") == "array" and len(st["rv"]["ops"]) == 2 and "fmt::rt::Argument" in nb.local_ty(st["lhs"]["l"]):
                    f = origins(nb, st["rv"]["ops"][0])
                    s_ = origins(nb, st["rv"]["ops"][1])
                    good = "binop:BitAnd" in f.via and "binop:Shr" not in f.via and "binop:Shr" in s_.via
        ctx.require(R6, good, "%s:%s" % (nb.file, nb.line), "IPv6 nibbles: low nibble first, then the high nibble", ["u8_to_nibbles_string", "order"])
    sup = prog.must_body("acmed::identifier::IdentifierType::supported_challenges")


def cleanup(ctx):
    prog = ctx.prog
    R7 = ctx.rule("R7", "validated challenges are followed by their clean hooks with identical data except is_clean_hook, after the authorization poll succeeded")
    b = prog.async_body(RC)
    cl = b.calls_to(CLEAN)
    ctx.floor(R7, "call_challenge_hooks_clean call", len(cl), 1)
    pa = b.calls_to("acmed::acme_proto::http::pool_authorization")
    ok_edges = []
    for c in pa:
        for t in try_edges(b, [c.dest["l"]]):
            if not t["adt"].endswith("Poll"):
                ok_edges += [(t["bb"], tg) for tg in t["ok"]]
    pushes = [c for c in b.calls_to("alloc::vec::Vec::push") if any(x.is_or_polls(CCH) for x in arg_origins(c, 1).calls)]
    ctx.floor(R7, "hook data pushed for later clean-up", len(pushes), 1)
    for c in cl:
        good, hit = unreachable_without(b, [c.bb], removed_edges=ok_edges)
        ctx.require(R7, bool(ok_edges) and good, c.where(), "clean hooks run after the authorization poll returned successfully", [RC, "clean-before-validation"])
        d = arg_origins(c, 1)
        ctx.require(R7, any(x.bb in {p.bb for p in pushes} for x in d.calls) or any(x.is_or_polls(CCH) for x in d.calls), c.where(), "clean hooks receive the data returned by call_challenge_hooks", [RC, "clean-data"])
    # every successful hook call is followed by a push before the ready POST
    hooks = b.calls_to(CCH)
    for h in hooks:
        oke = [(t["bb"], tg) for t in try_edges(b, [h.dest["l"]]) if not t["adt"].endswith("Poll") for tg in t["ok"]]
        for (sb, tg) in oke:
            # every way from a successful hook call to the clean-up phase passes the recording of its data (whether that happens
            # before or after the CA is notified makes no observable difference: an error in between ends the attempt)
            r = b.reachable_flags([tg], removed_nodes=[p.bb for p in pushes])
            ctx.require(R7, not ({c.bb for c in cl} & r) and not (set(b.return_blocks()) & b.reachable_flags([tg], removed_nodes=[p.bb for p in pushes] + result_return_kinds(b)[1])),
                        h.where(), "the hook data is recorded for clean-up on every path that goes on after the hooks succeeded", [RC, "data-not-recorded"])
    # field writes on the data: only is_clean_hook = true
    HD = "acmed::hooks::ChallengeHookData"
    writes = []
    for i in b.live_blocks():
        for st in b.blocks[i]["stmts"]:
            if st["s"] == "assign":
                for e in st["lhs"]["p"]:
                    if isinstance(e, dict) and e.get("adt") == HD:
                        writes.append((i, e["n"], op_const(st["rv"].get("op")) if st["rv"]["k"] == "use" else None))
    ctx.require(R7, bool(writes) and all(n == "is_clean_hook" and c is not None and c.get("bool") is True for i, n, c in writes), "%s:%s" % (b.file, b.line),
                "between the challenge hooks and the clean hooks only is_clean_hook is changed, to true (%s)" % [(n, c) for i, n, c in writes], [RC, "data-modified"])
    cb = prog.async_body(CLEAN)
    for c in cb.calls_to("acmed::hooks::call"):
        ctx.require(R7, arg_origins(c, 2).has_leaf("upvar:1") and arg_origins(c, 3).has_leaf("upvar:2"), c.where(), "call_challenge_hooks_clean forwards its data and hook type unchanged", [CLEAN, "forward"])
    for c in cl:
        ht = arg_origins(c, 2)
        ctx.require(R7, any(p.bb in {x.bb for x in ht.calls} for p in pushes) or any(x.is_or_polls(CCH) for x in ht.calls), c.where(), "the clean hook type is the one returned with the data", [RC, "clean-type"])
