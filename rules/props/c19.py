"""C19 — any configuration either loads or is rejected with an error, never a crash.

Decided:
  R1 every configuration struct rejects unknown keys (the serde-derived field visitor has no `__ignore` variant — the
     type-checked consequence of `deny_unknown_fields`; the ACME protocol structs, which have one, are the control);
  R2 no undischarged panic source on the load path (MainEventLoop::new and everything it reaches) nor in the limiter
     reached by the first request; arithmetic on configuration-derived values is never allow-listed;
  R3 every recursive cycle of the load path is cut by a visited-set test that dominates the recursive call, with the
     insertion before it (hook groups, includes);
  R4 a configured number used as divisor / admission bound is stored only on the non-zero edge of a test against 0;
     an unrepresentable window start (huge period) counts every logged request instead of denying forever;
  R5 period grammar: accepted units = multiplier table = {s:1, m:60, h:3600, d:86400, w:604800}; parts are summed with
     checked arithmetic, an overflow or trailing input is an error (whole-string match).
  Evaluation-first: R3 for hook groups (cycles of length 1-3, repeated groups; props/hook_table.py — the structural visited-set rule
  stays armed when its shape is present), R4 zero numbers / windows before the clock's origin (props/rate_model.py).
"""
import re

from ..absint import Interp, UNKNOWN, Val, run, vstr
from ..flow import arg_origins, origins
from ..loops import recursive_sccs
from ..mir import op_const, op_local, try_edges
from ..panic_allow import enumerate_reach
from ..util import (agg_assigns, call_true_false_edges, result_return_kinds, unreachable_without, where)
from .guards import nonzero_limit_guard

LEVEL = "other"
TECHNIQUE = ("type-level fact extraction (serde field visitors), panic-source enumeration over the load path's call graph, "
             "call-graph SCC + dominating visited-set rule for recursion, guard-dominance rules for configured divisors, "
             "table extraction of the period grammar"
             '; evaluation of hook-name resolution on cyclic sample configurations and of the limiter on degenerate limits')
LEVEL_TEXT = ("Decides for all configurations at once the crash classes named by the property: unknown keys are rejected by "
              "construction, no panic-capable operation on the load path is left unexplained, recursion is cut by visited "
              "sets, configured numbers cannot reach a division or an admission bound as zero, period arithmetic is checked "
              "and its unit table equals the manual's. Totality of the TOML parser/serde and memory exhaustion are trusted.")
LEVEL_NOTE = ("Not decided: toml/serde totality, memory exhaustion, filesystem errors. Trusted: rustc MIR, extractor, frozen "
              "panicking-API list and allow-table reasons, nom combinators."
              ' R3/R4 by evaluation are (sample-based: evaluation on the listed sample family is not a proof for all inputs; the structural rule is the fallback when the interpreter cannot run the code)')

NEW = "acmed::main_event_loop::MainEventLoop::new"
UNITS = {"s": 1, "m": 60, "h": 3600, "d": 86400, "w": 604800}
REC_TABLE = {
    "acmed::config::Config::do_get_hook": {"set_param": "parents", "test": ("core::iter::traits::iterator::Iterator::any", "alloc::vec::Vec::contains",
                                                                            "core::slice::<impl [T]>::contains"),
                                           "insert": ("alloc::vec::Vec::push", "std::collections::hash::set::HashSet::insert"), "member_is_positive": True},
    "acmed::config::read_cnf": {"set_param": "loaded_files", "test": ("alloc::collections::btree::set::BTreeSet::contains", "std::collections::hash::set::HashSet::contains"),
                                "insert": ("alloc::collections::btree::set::BTreeSet::insert", "std::collections::hash::set::HashSet::insert"), "member_is_positive": True},
}


def check(ctx):
    prog = ctx.prog
    R1 = ctx.rule("R1", "every serde-deserialised configuration struct rejects unknown fields (no `__ignore` field-visitor variant)")
    n = 0
    ctrl = 0
    for k, a in prog.adts.items():
        m = re.match(r"acmed::config::_::<impl (?:serde::de::Deserialize<'de> for )?acmed::config::(\w+)>::deserialize::__Field$", k)
        if m:
            name = m.group(1)
            target = prog.adts.get("acmed::config::" + name)
            if target is None or target["kind"] != "Struct":
                continue
            n += 1
            vs = [v["name"] for v in a["variants"]]
            ctx.require(R1, "__ignore" not in vs, "%s:%s" % (target["file"], target["line"]),
                        "config::%s: unknown keys are %s" % (name, "rejected" if "__ignore" not in vs else "silently ignored (no deny_unknown_fields)"),
                        ["config::" + name, "unknown-fields"])
        elif k.startswith("acmed::acme_proto::structs") and k.endswith("__Field") and "__ignore" in [v["name"] for v in a["variants"]]:
            ctrl += 1
    ctx.floor(R1, "configuration structs with a derived Deserialize", n, 12)
    ctx.floor(R1, "positive control: protocol structs that DO ignore unknown fields", ctrl, 3)

    R2 = ctx.rule("R2", "every panic source on the configuration load path and in the limiter is discharged (A1-A5) or allow-listed; none is arithmetic on configured values")
    entries = [NEW, NEW + "::{closure#0}", "acmed::endpoint::RateLimit::block_until_allowed::{closure#0}",
               "acmed::endpoint::RateLimit::block_until_allowed"]
    counts = enumerate_reach(ctx, R2, entries, crates=("acmed", "acme_common"))
    # conditional: read_cnf's unwrap under is_none() false edge
    rc = prog.must_body("acmed::config::read_cnf")
    uw = [c for c in rc.calls_to("core::option::Option::unwrap")]
    for c in uw:
        sl = arg_origins(c, 0)
        isn = [x for x in rc.calls_to("core::option::Option::is_none") if ("acmed::config::Config", "global") in arg_origins(x, 0).fields]
        edges = []
        for x in isn:
            t, f = call_true_false_edges(rc, x)
            edges += f
        ok, hit = unreachable_without(rc, [c.bb], removed_edges=edges)
        ctx.require(R2, ("acmed::config::Config", "global") in sl.fields and ok and edges, c.where(),
                    "config.global.clone().unwrap() is reached only on the false edge of config.global.is_none()", ["config::read_cnf", "unwrap-guard"])

    R3 = ctx.rule("R3", "each recursive cycle on the load path tests a visited set before recursing and records the current element first")
    reach = prog.reach(entries)
    rec = recursive_sccs(prog, reach)
    ctx.floor(R3, "recursive functions on the load path", len(rec), 2)
    # do_get_hook: evaluation-first — the function is interpreted on a sample configuration with cycles of length 1, 2 and 3 (the
    # last one entered after resolvable members), the same group included twice (not a cycle) and nested groups; a run that does
    # not come back within the interpreter's depth/step limits is `None`
    from .hook_table import EXPECT_ERR, EXPECT_OK, evaluated, hook_table, resolver
    ht = hook_table(prog)
    RES = resolver(prog).key
    hook_reach = set(prog.reach(["acmed::config::Config::get_hook"]))
    hook_eval = evaluated(ht)
    if hook_eval:
        hb_ = prog.must_body(RES)
        for nm, why in sorted(EXPECT_ERR.items()):
            if why == "cycle":
                got = ht.get(nm)
                ctx.require(R3, got is not None and got[0] == "Err", "%s:%s" % (hb_.file, hb_.line), "group cycle through `%s` is refused with an error, not followed (evaluated: %s)" % (nm, got),
                            ["acmed::config::Config::do_get_hook", "cycle", nm])
        for nm in ("D", "H"):
            ctx.require(R3, ht.get(nm) == ("Ok", EXPECT_OK[nm]), "%s:%s" % (hb_.file, hb_.line), "a group or hook used twice without a cycle still resolves (`%s`: %s)" % (nm, ht.get(nm)),
                        ["acmed::config::Config::do_get_hook", "no-false-cycle", nm])
    # read_cnf's visited set is keyed by CANONICAL paths, for the test as well as for the record (shared with C14.R4): a cycle spelled
    # through `..` or a symlink is a cycle
    from .guards import visited_guard as _vg2
    rc_ = prog.must_body("acmed::config::read_cnf")
    pl2 = [i for i in range(1, rc_.arg_count + 1) if rc_.local_ty(i).startswith("&mut ") and any(t in rc_.local_ty(i) for t in ("Vec<", "HashSet<", "BTreeSet<"))]
    if pl2:
        _neg, ins2, tests2, _rev = _vg2(rc_, lambda sl: sl.has_leaf("param:%d" % pl2[0]))
        for c in tests2:
            ctx.require(R3, arg_origins(c, 1).via_any("std::path::Path::canonicalize"), c.where(), "read_cnf: the visited test uses the canonical path", ["acmed::config::read_cnf", "test-canonical"])
        for c in ins2:
            ctx.require(R3, arg_origins(c, 1).via_any("std::path::Path::canonicalize"), c.where(), "read_cnf: the recorded path is the canonical path", ["acmed::config::read_cnf", "insert-canonical"])
    for scc in rec:
        if hook_eval and len(scc) > 1 and all(k in hook_reach or k.split("::{closure")[0] in hook_reach for k in scc):
            ctx.ok(R3, "hook resolution (recursing through %s): recursion bounded on the evaluated sample family" % sorted(k.rsplit("::", 1)[-1] for k in scc))
            continue
        for k in scc:
            b = prog.body(k)
            ent = REC_TABLE.get(k)
            if ent is None and k == RES:
                ent = REC_TABLE["acmed::config::Config::do_get_hook"]
            if hook_eval and k == RES and len(scc) == 1:
                # the structural visited-set rule below still applies when its shape is recognised; when the visited collection is
                # not a `&mut` parameter any more (or is tested in an unfamiliar way) the evaluation above decides
                rec_calls_ = b.calls_to(k)
                pl_ = [i for i in range(1, b.arg_count + 1) if b.local_ty(i).startswith("&mut ") and any(t in b.local_ty(i) for t in ("Vec<", "HashSet<", "BTreeSet<"))]
                from .guards import visited_guard as _vg
                shape = bool(pl_) and bool(rec_calls_) and bool(_vg(b, lambda sl: sl.has_leaf("param:%d" % pl_[0]))[2])
                if not shape:
                    ctx.ok(R3, "do_get_hook: recursion bounded on the evaluated sample family (structural visited-set shape not present)")
                    continue
            if len(scc) > 1 or ent is None:
                ctx.fail(R3, "%s:%s" % (b.file, b.line), "recursion without a known termination argument: %s" % scc, [k, "recursion"])
                continue
            rec_calls = b.calls_to(k)
            # the visited set: the `&mut` collection parameter that is passed down to the recursive call (named `%s` today; found
            # by role), tested (`contains`/`any`, or the bool returned by `insert`) and extended before recursing
            from .guards import visited_guard
            pl = [i for i in range(1, b.arg_count + 1) if b.local_ty(i).startswith("&mut ") and any(t in b.local_ty(i) for t in ("Vec<", "HashSet<", "BTreeSet<"))
                  and rec_calls and all(any(origins(b, a).has_leaf("param:%d" % i) for a in c.args) for c in rec_calls)]
            if not pl or not rec_calls:
                ctx.fail(R3, "%s:%s" % (b.file, b.line), "visited-set parameter `%s` of %s not found" % (ent["set_param"], k), [k, "visited-param"])
                continue
            for c in rec_calls:
                ctx.ok(R3, "the recursive call @%s passes the same visited set" % c.line)
            neg_edges, inserts, tests, _rev = visited_guard(b, lambda sl: sl.has_leaf("param:%d" % pl[0]))
            ok, hit = unreachable_without(b, [c.bb for c in rec_calls], removed_edges=neg_edges)
            ctx.require(R3, bool(tests) and bool(neg_edges) and ok, rec_calls[0].where(),
                        "%s: the recursive call is reachable only when the current element is not yet in `%s`" % (k.rsplit("::", 1)[1], ent["set_param"]),
                        [k, "visited-test"])
            ok2, hit = unreachable_without(b, [c.bb for c in rec_calls], removed_nodes=[c.bb for c in inserts])
            ctx.require(R3, bool(inserts) and ok2, rec_calls[0].where(),
                        "%s: the current element is recorded in `%s` before recursing" % (k.rsplit("::", 1)[1], ent["set_param"]), [k, "visited-insert"])
            # the element stays recorded while its descendants are expanded: once an element is taken out of the set (pop/remove/
            # clear/truncate) no further recursive call is reachable without a new insertion — an ancestor stack popped inside
            # the member loop forgets the group for its later members, and a cycle through them recurses without bound
            removers = [c for c in b.calls if c.bb in b.live_blocks() and (c.name or "").rsplit("::", 1)[-1] in ("pop", "remove", "clear", "truncate", "retain", "drain", "swap_remove", "take", "split_off")
                        and c.args and arg_origins(c, 0).has_leaf("param:%d" % pl[0])]
            for rmv in removers:
                after = b.reachable_after(rmv.bb, removed_nodes=[c.bb for c in inserts])
                bad = [c for c in rec_calls if c.bb in after]
                ctx.require(R3, not bad, rmv.where(), "%s: after `%s` on `%s` no recursive call follows without a new insertion" % (k.rsplit("::", 1)[1], rmv.name.rsplit("::", 1)[-1], ent["set_param"]),
                            [k, "visited-removed-early"])
            # the membership test is about the element being expanded (derives from the name/path parameter)
            for c in tests:
                a = c.args[1] if len(c.args) > 1 else None
                srcs = origins(b, a) if a is not None else None
                clos = [prog.body(g) for g in c.gbodies if prog.body(g)]
                ok3 = (srcs is not None and (srcs.has_leaf("param:") or srcs.leaves)) or bool(clos)
                ctx.require(R3, ok3, c.where(), "the membership test compares against the element being expanded", [k, "visited-element"])

    R4 = ctx.rule("R4", "configured numbers reach divisions / admission bounds only when non-zero; a window start before the clock's origin does not deny forever")
    nonzero_limit_guard(ctx, R4)
    from .guards import body_family
    # evaluation-first: a period reaching before the clock's origin (now - period not representable) still admits while the log is
    # below the bound — block_until_allowed interpreted on such limiters (rate_model.py)
    from .rate_model import NOW, entry_table
    et = entry_table(prog)
    huge = [r for r in (et or []) if any(p_ > NOW for _n, p_ in r[0])]
    if huge:
        bu = prog.async_body("acmed::endpoint::RateLimit::block_until_allowed")
        for limits, lg, got, want in huge:
            ctx.require(R4, got[0] == want[0], "%s:%s" % (bu.file, bu.line), "limits %s (a window starting before the clock's origin), log %s: the request %s (definition: %s)" % (limits, lg, got[0], want[0]),
                        ["RateLimit::request_allowed", "huge-period-denies-forever", repr(limits), repr(lg)])
    fam = [] if huge else body_family(prog, "acmed::endpoint::RateLimit::request_allowed")
    n_cs = 0
    for ra in fam:
        cs = ra.calls_to("std::time::Instant::checked_sub")
        n_cs += len(cs)
        rets = set(ra.return_blocks())
        for c in cs:
            for t in try_edges(ra, [c.dest["l"]]):
                for tg in t["err"]:
                    # from the None edge, the answer must still depend on the log (its length), not be a constant refusal
                    r = ra.reachable([tg])
                    uses_log = any(x.bb in r for x in ra.calls if x.is_("alloc::vec::Vec::len", "core::slice::<impl [T]>::len", "core::iter::traits::iterator::Iterator::count")
                                   and ("acmed::endpoint::RateLimit", "query_log") in arg_origins(x, 0).fields)
                    const_false = [i for i in r for st in ra.blocks[i]["stmts"] if st["s"] == "assign" and st["lhs"]["l"] == 0 and not st["lhs"]["p"]
                                   and st["rv"]["k"] == "use" and (op_const(st["rv"]["op"]) or {}).get("bool") is False]
                    direct = [i for i in const_false if i in ra.reachable([tg], removed_nodes=[x.bb for x in ra.calls if x.is_("alloc::vec::Vec::len", "core::slice::<impl [T]>::len")])]
                    ctx.require(R4, uses_log and not direct, c.where(),
                                "when now - period is not representable the request is still compared with the log size (not denied unconditionally, which hangs the first request)",
                                ["RateLimit::request_allowed", "huge-period-denies-forever"])
    if not huge:
        ctx.floor(R4, "checked_sub in the admission test", n_cs, 1)
    # limiter loop makes progress only if admission is possible: number >= 1 (guard above) — and MIN sleep > 0
    mn = prog.const("acmed::MIN_RATE_LIMIT_SLEEP_MILISEC").get("int", 0)
    mx = prog.const("acmed::MAX_RATE_LIMIT_SLEEP_MILISEC").get("int", 0)
    ctx.require(R4, 1 <= mn <= mx, "acmed/src/main.rs", "limiter sleep bounds: %s..%s ms" % (mn, mx), ["const", "sleep-bounds"])

    check_period_grammar(ctx)


def body_family_(prog, key):
    from .guards import body_family
    return body_family(prog, key)


PERIOD_SAMPLES = ["10s", "1m", "1h", "1d", "1w", "90m", "1h30m", "2w3d", "1d2h3m4s", "5m5m", "4s3m2h1d", "0s", "007s", "1w1w1w", "18446744073709551615s", "30500568904943w",
                  "", "10", "s", "m10", "10x", "10ms", "1hd", "2ww", "1h d", " 1h", "1h ", "10S", "1H", "+5s", "-5s", "1.5h", "1h30", "1h,30m", "1y", "ten s", "\u0661s",
                  "18446744073709551616s", "99999999999999999999s", "18446744073709551615s1s", "30500568904943w1w", "30500568904944w", "307445734561825861m", "9223372036854775807s9223372036854775807s2s",
                  "18446744073709551615s1s1s", "18446744073709551615s5m10s", "30500568904943w1w1s", "18446744073709551615s0s", "18446744073709551615s0s1s"]


def period_oracle(t):
    """the documented grammar: one or more <decimal number><unit>, unit in s m h d w, the whole string; seconds fit u64 at every step"""
    import re as _re
    if not _re.fullmatch(r"(?:[0-9]+[smhdw])+", t):
        return None
    total = 0
    for nb, u in _re.findall(r"([0-9]+)([smhdw])", t):
        n = int(nb)
        if n >= 2 ** 64:
            return None
        v = n * UNITS[u]
        if v >= 2 ** 64:
            return None
        total += v
        if total >= 2 ** 64:
            return None
    return total


def period_table(prog):
    """parse_duration EVALUATED on the sample strings (nom combinators modelled in the interpreter): [(text, got, want)] or None"""
    pd = prog.body("acmed::duration::parse_duration")
    if pd is None:
        return None
    from ..absint import vstr
    rows = []
    for t in PERIOD_SAMPLES:
        try:
            r = run(pd, {1: Val("ref", vstr(t))}, None, max_steps=400000, follow=lambda cs: (cs.name or "").startswith("acmed::duration::"))
        except Exception:
            return None
        rv = r.ret.deref() if r.kind == "return" and r.ret is not None else None
        if rv is None or rv.k != "adt" or not rv.extra:
            return None
        if rv.extra[1] == "Ok":
            v = rv.v[0].deref() if rv.v else None
            if v is None or v.k != "int":
                return None
            got = v.v
        else:
            got = None
        rows.append((t, got, period_oracle(t)))
    return rows


def check_period_grammar(ctx):
    prog = ctx.prog
    R5 = ctx.rule("R5", "period grammar: unit set = multiplier table = {s:1,m:60,h:3600,d:86400,w:604800}; checked arithmetic; whole-string match; parts summed")
    tab = period_table(prog)
    if tab is not None:
        pd_ = prog.must_body("acmed::duration::parse_duration")
        ctx.floor(R5, "evaluated period strings", len(tab), 40)
        for t, got, want in tab:
            ctx.require(R5, got == want, "%s:%s" % (pd_.file, pd_.line), "parse_duration(%r) = %s (documented grammar: %s)" % (t, "%ss" % got if got is not None else "error", "%ss" % want if want is not None else "error"),
                        ["acmed::duration::parse_duration", "evaluated", t])
        return
    # accepted unit characters
    ic = prog.must_body("acmed::duration::is_duration_chr")
    acc = set()
    for code in range(32, 127):
        r = run(ic, {1: Val("char", chr(code))})
        if r.kind != "return" or r.ret.k != "bool":
            ctx.fail(R5, "%s:%s" % (ic.file, ic.line), "is_duration_chr cannot be evaluated for %r" % chr(code), ["is_duration_chr", "eval"])
            return
        if r.ret.v:
            acc.add(chr(code))
    ctx.require(R5, acc == set(UNITS), "%s:%s" % (ic.file, ic.line), "accepted unit characters = %s (expected %s)" % (sorted(acc), sorted(UNITS)), ["is_duration_chr", "unit-set"])
    # multiplier table: the switch on a `char`
    gm = prog.must_body("acmed::duration::get_multiplicator")
    table = {}
    default = None
    for i in sorted(gm.live_blocks()):
        t = gm.term(i)
        if t["t"] == "switch" and t["dty"] == "char":
            it = Interp(gm)
            for v, tg in t["arms"]:
                r = it.run({}, start_bb=tg)
                table[chr(v)] = first_int(r)
            r = it.run({}, start_bb=t["otherwise"])
            default = first_int(r)
    ctx.require(R5, table == UNITS, "%s:%s" % (gm.file, gm.line), "multiplier table = %s (expected %s)" % (table, UNITS), ["get_multiplicator", "table"])
    # the unit is exactly ONE character: a run of unit letters (`10ms`, `1hd`) is not in the documented grammar, and the table above only
    # looks at the first character
    takers = [c for fb in body_family_(prog, "acmed::duration::get_multiplicator") for c in fb.calls if c.bb in fb.live_blocks() and (c.name or "").startswith("nom::bytes::")
              and (c.name or "").rsplit("::", 1)[-1] in ("take_while_m_n", "take_while", "take_while1", "take", "take_till", "take_till1", "take_until", "is_a", "is_not")]
    greedy = [c for c in takers if not ((c.name or "").endswith("take_while_m_n") and [(op_const(a) or {}).get("int") for a in c.args[:2]] == [1, 1])
              and not ((c.name or "").endswith("::take") and (op_const(c.args[0]) or {}).get("int") == 1)]
    ctx.require(R5, not greedy, greedy[0].where() if greedy else "%s:%s" % (gm.file, gm.line), "the unit of a period part is read as exactly one character (%s)" % [c.name.rsplit("::", 1)[-1] for c in greedy],
                ["get_multiplicator", "unit-length"])
    gp = prog.must_body("acmed::duration::get_duration_part")
    # number * multiplier with checked_mul, overflow -> error
    cm = gp.calls_to("core::num::<impl u64>::checked_mul")
    ctx.require(R5, len(cm) >= 1, "%s:%s" % (gp.file, gp.line), "number x multiplier uses u64::checked_mul", ["get_duration_part", "checked-mul"])
    for c in cm:
        a0, a1 = arg_origins(c, 0), arg_origins(c, 1)
        good = any(x.is_("acmed::duration::get_multiplicator") for x in a0.calls + a1.calls)
        ctx.require(R5, good, c.where(), "the multiplied operands are the parsed number and get_multiplicator()'s value", ["get_duration_part", "operands"])
    fs = gp.calls_to("core::time::Duration::from_secs")
    for c in fs:
        sl = arg_origins(c, 0)
        ctx.require(R5, any(x.is_("core::num::<impl u64>::checked_mul") for x in sl.calls), c.where(), "the part's seconds come from the checked product", ["get_duration_part", "from-secs"])
    # sum: the fold closure adds with checked_add (both parameters)
    gd = prog.must_body("acmed::duration::get_duration")
    folds = gd.calls_to("nom::multi::fold_many1", "nom::multi::fold_many0")
    ctx.require(R5, bool(folds) and any(c.is_("nom::multi::fold_many1") for c in folds), "%s:%s" % (gd.file, gd.line), "one or more parts are folded (fold_many1)", ["get_duration", "fold"])
    summed = False
    for ch in [x for x in prog.bodies.values() if x.root == gd.key and x.key != gd.key]:
        for c in ch.calls:
            if c.is_("core::time::Duration::checked_add", "core::time::Duration::saturating_add"):
                summed = c.is_("core::time::Duration::checked_add")
            if c.res and c.res.startswith("<core::time::Duration as core::ops::arith::Add"):
                summed = False
                ctx.fail(R5, c.where(), "parts are summed with the panicking `+`", ["get_duration", "unchecked-add"])
    ctx.require(R5, summed, "%s:%s" % (gd.file, gd.line), "parts are summed with Duration::checked_add (overflow = error)", ["get_duration", "checked-add"])
    # the overflow is STICKY: the folding step, evaluated on an accumulator that already overflowed (None), answers None whatever
    # follows; on Some(d) it answers checked_add(d, part)
    from ..absint import NONE as _NONE, Val as _Val, marker as _marker, run as _run, some as _some
    steps = []
    for c in folds:
        for g in c.gbodies:
            cb = prog.body(g)
            if cb is not None and cb.kind == "Closure" and cb.arg_count == 3:
                steps.append(cb)
    ctx.floor(R5, "folding step closure of get_duration", len(steps), 1)
    for cb in steps:
        def add_model(cs_, args_):
            if cs_.is_("core::time::Duration::checked_add"):
                return _Val("unknown", "CHECKED_ADD(%r,%r)" % (args_[0].deref(), args_[1].deref()))
            return None
        r0 = _run(cb, {1: _Val("ref", _Val("adt", [], ("closure", cb.key))), 2: _NONE, 3: _marker("PART")}, add_model)
        v0 = r0.ret.deref() if r0.kind == "return" and r0.ret is not None else None
        ctx.require(R5, v0 is not None and v0.k == "variant" and v0.v == "None", "%s:%s" % (cb.file, cb.line), "an overflowed sum stays rejected when further parts follow (step(None, part) = %r)" % (v0,),
                    ["get_duration", "overflow-not-sticky"])
        r1 = _run(cb, {1: _Val("ref", _Val("adt", [], ("closure", cb.key))), 2: _some(_marker("ACC")), 3: _marker("PART")}, add_model)
        v1 = repr(r1.ret.deref()) if r1.kind == "return" and r1.ret is not None else None
        ctx.require(R5, v1 is not None and "CHECKED_ADD(?ACC,?PART)" in v1.replace(" ", ""), "%s:%s" % (cb.file, cb.line), "step(Some(acc), part) = acc.checked_add(part) (%s)" % v1, ["get_duration", "step-sum"])
    # whole-string match
    pd = prog.must_body("acmed::duration::parse_duration")
    ie = pd.calls_to("core::str::<impl str>::is_empty")
    okb, errb, fwd = result_return_kinds(pd)
    edges = []
    for c in ie:
        t, f = call_true_false_edges(pd, c)
        edges += t
    ok, hit = unreachable_without(pd, okb + fwd, removed_edges=edges)
    ctx.require(R5, bool(ie) and bool(okb) and ok, "%s:%s" % (pd.file, pd.line), "Ok(duration) only when the remaining input is empty (whole-string match)", ["parse_duration", "trailing-input"])
    # and Ok only when the fold produced Some(duration)
    ctx.require(R5, len(errb) >= 1, "%s:%s" % (pd.file, pd.line), "an Err result exists for invalid / overflowing input", ["parse_duration", "error-path"])


def first_int(res):
    if res.env is None:
        return None
    for l, v in sorted(res.env.items()):
        if isinstance(v, Val) and v.k == "int":
            return v.v
    return None
