"""C17 — no hostile or failed connection stops tacd (release profile, panic=abort).

Decided (T8 + loop-exit rule, sound over-approximation of all paths):
  R1 the per-connection code (every closure handed to thread::spawn inside the accept loops of
     tacd::openssl_server::start, and every workspace function reachable from it) contains no panic source and no
     process-terminating call;
  R2 the accept loops themselves contain no panic source other than thread::spawn (OS refusal only);
  R3 an accept loop is left only when the listener's iterator ends (a failed accept()/stream is skipped, never `?`/break);
  R4 the TLS handshake runs in the spawned thread, never inline in the accept loop (a stalled peer cannot block accepts).
Premise read from the repository: [profile.release] panic and the Makefile's --release.
  R4 also: between accepting a connection and spawning its thread only the accepted item itself is tested (no cap / quota that
  stalled clients could keep exhausted).
"""
import os
import re
import tomllib

from ..flow import arg_origins, origins
from ..util import where
from ..mir import CallSite, op_local
from ..panics import sources_in

LEVEL = "proof"
TECHNIQUE = "panic-source enumeration over the MIR call graph of the per-connection thread + accept-loop exit-edge rule (SCC)"
LEVEL_TEXT = ("Sound over-approximation of all paths: every Assert terminator and every call to a frozen list of panicking / "
              "process-terminating APIs in the spawned per-connection closure (and all workspace code it reaches) and in the "
              "accept loops is an obligation; all must be absent (thread::spawn excepted). This is the property's defect "
              "class itself (a panic under panic=abort kills tacd), decided for every connection behaviour at once.")
LEVEL_NOTE = ("Trusted: rustc MIR, the extractor, the frozen panicking-API list (rules/panics.py); openssl/std calls return "
              "errors instead of panicking; not decided: resource exhaustion by stalled connections (threads are unbounded).")
START = "tacd::openssl_server::start"


def check(ctx):
    prog = ctx.prog
    start = prog.must_body(START)
    cargo = tomllib.load(open(os.path.join(ctx.repo, "Cargo.toml"), "rb"))
    panic_mode = cargo.get("profile", {}).get("release", {}).get("panic", "unwind")
    mk = open(os.path.join(ctx.repo, "Makefile")).read()
    ships_release = bool(re.search(r"cargo build --bin tacd --release", mk))
    ctx.notes.append("release profile panic=%s; Makefile builds tacd --release: %s" % (panic_mode, ships_release))
    abort = panic_mode == "abort"

    R1 = ctx.rule("R1", "no panic source / process exit in the per-connection thread code (closure given to thread::spawn "
                        "in the accept loop and everything it reaches in the workspace)")
    R2 = ctx.rule("R2", "no panic source in the accept loop other than thread::spawn")
    R3 = ctx.rule("R3", "the accept loop is left only when the listener iterator returns None")
    R4 = ctx.rule("R4", "SslAcceptor::accept is called only inside the spawned per-connection closure")

    # accept loops: Iterator::next on a listener's Incoming — recognised by the resolved iterator type or, when the loop lives in a
    # generic helper (inlined here, its calls unresolved), by the provenance of the iterator: a `listener.incoming()` call
    def over_incoming(c):
        if c.res and "Incoming" in c.res:
            return True
        sl = arg_origins(c, 0)
        return any((x.name or "").endswith("Listener::incoming") for x in sl.calls) or any(v.endswith("Listener::incoming") for v in sl.via)
    nexts = [c for c in start.calls_to("core::iter::traits::iterator::Iterator::next") if over_incoming(c)]
    # the same loop written with internal iteration: `listener.incoming()[.filter_map(Result::ok)].for_each(|stream| ..)`
    foreach = [c for c in start.calls if c.fn == "core::iter::traits::iterator::Iterator::for_each" and c.bb in start.live_blocks() and over_incoming(c)]
    ctx.floor(R3, "accept loops (Iterator::next / for_each on a listener's Incoming) in %s" % START, len(nexts) + len(foreach), 2)
    spawn_closures = []
    EARLY = ("map_while", "take_while", "take", "scan", "step_by", "fuse", "zip", "try_for_each", "try_fold")
    BLOCKING_ = ("join", "recv", "recv_timeout", "lock", "wait", "wait_while", "wait_timeout", "sleep", "park", "read", "read_exact", "read_to_end", "read_line", "accept_hdr")
    for fe in foreach:
        chain = arg_origins(fe, 0)
        early = sorted(v for v in chain.via if v.rsplit("::", 1)[-1] in EARLY)
        ctx.require(R3, not early, fe.where(), "the listener's iterator is not cut short by an early-terminating adaptor (%s)" % [v.rsplit("::", 1)[-1] for v in early],
                    [START, "loop-exit-adaptor"])
        ctx.ok(R3, "for_each over %s: runs until the listener's iterator ends" % [v.rsplit("::", 1)[-1] for v in sorted(chain.via) if "Listener::incoming" in v])
        for g in fe.gbodies[:-1]:
            # closures of the adaptors between incoming() and for_each (`filter_map(|c| c.ok())`) run in the accept loop as well
            ab = prog.body(g)
            if ab is None or ab.kind != "Closure":
                continue
            for s_ in sources_in(ab):
                ctx.fail(R2, s_.where(), "panic source in the accept loop (iterator adaptor): %s %s" % (s_.kind, s_.what), [START, "loop", s_.kind, s_.what])
        for g in fe.gbodies[-1:]:       # for_each::<Self, F>: the last closure among the generic arguments is F (earlier ones belong to adaptors in Self)
            cb = prog.body(g)
            if cb is None or cb.kind != "Closure":
                continue
            srcs = [s_ for s_ in sources_in(cb)]
            for s_ in srcs:
                if s_.kind == "spawn":
                    continue
                ctx.fail(R2, s_.where(), "panic source in the accept loop: %s %s" % (s_.kind, s_.what), [START, "loop", s_.kind, s_.what])
            blk = [c for c in cb.calls if c.bb in cb.live_blocks() and (c.name or "").rsplit("::", 1)[-1] in BLOCKING_
                   and any(p_ in (c.name or "") for p_ in ("std::thread", "std::sync", "std::io", "crossbeam", "parking_lot", "openssl::ssl"))]
            ctx.require(R4, not blk, blk[0].where() if blk else fe.where(), "the accept loop does not block on anything but the listener (%s)" % [c.name for c in blk], [START, "accept-loop-blocks"])
            for c in cb.calls_to("*SslAcceptor::accept"):
                ctx.fail(R4, c.where(), "TLS handshake performed inline in the accept loop", [START, "inline-accept"])
            sp = [c for c in cb.calls_to("std::thread::functions::spawn", "std::thread::spawn") if c.bb in cb.live_blocks()]
            if not sp:
                ctx.fail(R4, fe.where(), "no thread::spawn in the accept loop: connections are handled inline", [START, "no-spawn", "for_each"])
            for c in sp:
                for g2 in c.gbodies:
                    spawn_closures.append((c, g2))
    for nx in nexts:
        # the accepted connections are iterated directly: an adaptor that ends the iteration early (map_while/take_while/take/scan..)
        # turns the first failed accept into the end of the server
        chain = arg_origins(nx, 0)
        early = sorted(v for v in chain.via if v.rsplit("::", 1)[-1] in ("map_while", "take_while", "take", "scan", "step_by", "fuse", "zip", "try_for_each", "try_fold"))
        ctx.require(R3, not early, nx.where(), "the listener's iterator is not cut short by an early-terminating adaptor (%s)" % [v.rsplit("::", 1)[-1] for v in early],
                    [START, "loop-exit-adaptor"])
        scc = start.scc_of(nx.bb)
        if scc is None:
            ctx.fail(R3, nx.where(), "listener.incoming().next() is not inside a loop", [START, "no-loop", nx.res])
            continue
        sccset = set(scc)
        # R3: exit edges
        disc_blocks = set()
        # the block after next() that switches on its discriminant
        tgt = nx.target
        if tgt is not None and start.term(tgt)["t"] == "switch":
            disc_blocks.add(tgt)
        bad = []
        for u in scc:
            for v in start.succ[u]:
                if v not in sccset and u not in disc_blocks:
                    if start.term(v)["t"] == "unreachable":
                        continue        # the `otherwise` of an exhaustive match: not an exit
                    bad.append((u, v))
        if bad:
            u, v = bad[0]
            ctx.fail(R3, "%s:%s (%s bb%d)" % (start.file_of(u), start.term(u).get("line"), START, u),
                     "the accept loop over %s can be left from bb%d (not the end-of-iterator test): a failed "
                     "accept/stream ends the server" % (nx.res, u), [START, "loop-exit", nx.res.split(" as ")[0]],
                     {"exit_edges": bad})
        else:
            ctx.ok(R3, "loop of %s @bb%d: %d blocks, only exit = None arm of next() (bb%s)" % (nx.res, nx.bb, len(scc), sorted(disc_blocks)))
        # R2: sources in the loop
        srcs = [s for s in sources_in(start, sccset)]
        for s in srcs:
            if s.kind == "spawn":
                ctx.ok(R2, "allowed: thread::spawn @bb%d (panics only when the OS refuses a thread)" % s.bb)
                continue
            ctx.fail(R2, s.where(), "panic source in the accept loop: %s %s" % (s.kind, s.what),
                     [START, "loop", s.kind, s.what])
        if not [s for s in srcs if s.kind != "spawn"]:
            ctx.ok(R2, "accept loop @bb%d: no panic source besides spawn (%d blocks)" % (nx.bb, len(scc)))
        # the accept loop never waits for a connection: no join / channel receive / lock / condvar / sleep / read inside it — a stalled
        # client must only ever occupy its own thread
        BLOCKING = ("join", "recv", "recv_timeout", "lock", "wait", "wait_while", "wait_timeout", "sleep", "park", "read", "read_exact", "read_to_end", "read_line", "accept_hdr")
        blk = [c for c in start.calls if c.bb in sccset and (c.name or "").rsplit("::", 1)[-1] in BLOCKING
               and any(p_ in (c.name or "") for p_ in ("std::thread", "std::sync", "std::io", "crossbeam", "parking_lot", "openssl::ssl"))]
        ctx.require(R4, not blk, blk[0].where() if blk else nx.where(), "the accept loop does not block on anything but the listener (%s)" % [c.name for c in blk],
                    [START, "accept-loop-blocks"])
        # spawn inside loop
        sp = [c for c in start.calls_to("std::thread::functions::spawn", "std::thread::spawn") if c.bb in sccset]
        if not sp:
            ctx.fail(R4, nx.where(), "no thread::spawn in the accept loop: connections are handled inline",
                     [START, "no-spawn", nx.res.split(" as ")[0]])
        for c in sp:
            for g in c.gbodies:
                spawn_closures.append((c, g))
        # every accepted connection gets its thread: a branch of the loop body that decides between "spawn" and "next iteration"
        # may only test the accepted item itself (`Ok(stream)` vs `Err`), never a count of live threads, a quota or any other state —
        # tacd has no timeouts, so stalled clients would keep such a cap exhausted and the CA's connection would be dropped unanswered
        spb = {c.bb for c in sp}
        for u in sorted(sccset):
            t = start.term(u)
            if t["t"] != "switch" or not spb:
                continue
            succs = [v for v in start.succ[u] if v in sccset]
            to_spawn = [v for v in succs if spb & start.reachable([v], removed_nodes=[nx.bb])]
            skips = [v for v in succs if nx.bb in start.reachable([v], removed_nodes=list(spb)) and not (spb & {v})]
            if not to_spawn or not [v for v in skips if v not in to_spawn or True]:
                continue
            only_skip = [v for v in skips if not (spb & start.reachable([v], removed_nodes=[nx.bb]))]
            if not only_skip:
                continue
            dsl = origins(start, t["discr"])
            upstream = {x.bb for x in arg_origins(nx, 0).calls}
            foreign = [x for x in dsl.calls if x.bb != nx.bb and x.bb not in upstream and not (x.fn or "").startswith(("core::ops::try_trait", "core::result::Result", "core::option::Option", "core::convert", "core::iter"))]
            ctx.require(R4, any(x.bb == nx.bb for x in dsl.calls) and not foreign, where(start, u),
                        "the only test between accepting a connection and spawning its thread is on the accepted item itself (also tested: %s)" % sorted({x.name for x in foreign}),
                        [START, "connection-dropped-by-policy"])
    # callbacks registered on the acceptor run INSIDE every handshake, i.e. in the connection threads, and OpenSSL calls them through
    # `extern "C"` frames that cannot unwind: a panic there aborts the process whatever the panic strategy. They are enumerated like the
    # per-connection closures.
    for c in start.calls:
        if c.bb in start.live_blocks() and "callback" in (c.name or "").rsplit("::", 1)[-1] and c.gbodies:
            for g in c.gbodies:
                spawn_closures.append((c, g))
    # the connection threads log (`debug!`): whatever the installed logger runs per record runs in them too. A formatter / filter closure
    # handed to the logger builder in acme_common::logs is enumerated like per-connection code (the `log` facade is dynamic dispatch: the
    # call graph has no edge from `debug!` to it)
    for k_, lb_ in prog.bodies.items():
        if lb_.crate != "acme_common" or not k_.startswith("acme_common::logs::") or lb_.kind == "Closure":
            continue
        for c in prog.body(k_).calls:
            if c.bb in prog.body(k_).live_blocks() and c.gbodies and any(s_ in (c.name or "") for s_ in ("env_logger", "syslog", "log::set_")) \
                    and (c.name or "").rsplit("::", 1)[-1] in ("format", "filter", "set_boxed_logger", "set_logger", "parse_write_style", "target"):
                for g in c.gbodies:
                    spawn_closures.append((c, g))
    ctx.floor(R1, "per-connection closures passed to thread::spawn", len(spawn_closures), 2)
    # R4: accept only within closures
    for c in start.calls_to("*SslAcceptor::accept"):
        ctx.fail(R4, c.where(), "TLS handshake performed inline in tacd::openssl_server::start", [START, "inline-accept"])
    handshake_in_closure = 0
    for sp, g in spawn_closures:
        reach = prog.reach([g])
        n_src = 0
        for k in sorted(reach):
            if prog.absorbed(k):
                continue   # new helper, examined inside its callers' inlined views
            b = prog.body(k)
            if b.crate not in ("tacd", "acme_common"):
                continue
            handshake_in_closure += len(b.calls_to("*SslAcceptor::accept"))
            for s in sources_in(b):
                n_src += 1
                if not abort and s.kind != "exit":
                    ctx.notes.append("panic source %r tolerated only because panic=%s" % (s, panic_mode))
                    continue
                ctx.fail(R1, s.where(),
                         "%s `%s` in per-connection code: under panic=%s a failed/hostile connection terminates tacd"
                         % (s.kind, s.what, panic_mode), [START if k == g else k, "connection-thread", s.kind, s.what])
        if n_src == 0:
            ctx.ok(R1, "closure %s (+%d reachable workspace bodies): 0 panic sources" % (g, len(reach) - 1))
    # R5: a connection thread holds no lock while it waits for its client — a stalled client must not block the other connections
    R5 = ctx.rule("R5", "no lock guard (Mutex/RwLock, std or other) is alive across the blocking TLS handshake of a connection thread")
    GUARDS = ("MutexGuard<", "RwLockReadGuard<", "RwLockWriteGuard<", "MappedMutexGuard<", "ReentrantLockGuard<")
    n_hs = 0
    for sp, g in spawn_closures:
        for k in sorted(prog.reach([g])):
            if prog.absorbed(k):
                continue
            b = prog.body(k)
            if b.crate not in ("tacd", "acme_common"):
                continue
            hs = b.calls_to("*SslAcceptor::accept")
            n_hs += len(hs)
            if not hs:
                continue
            held = []
            for l, d in enumerate(b.locals):
                if not any(gname in d["ty"] for gname in GUARDS):
                    continue
                defs = [bb for kind, bb, j, x in b.defs.get(l, [])]
                ends = set()
                for i in b.live_blocks():
                    t = b.term(i)
                    if t["t"] == "drop" and t["place"]["l"] == l and not t["place"]["p"]:
                        ends.add(i)
                    if t["t"] == "call" and any(op_local(a) == l and "move" in a for a in t.get("args", [])):
                        ends.add(i)
                    for st in b.blocks[i]["stmts"]:
                        if st["s"] == "dead" and st["l"] == l:
                            ends.add(i)
                        if st["s"] == "assign" and st["rv"]["k"] == "use" and "move" in st["rv"]["op"] and op_local(st["rv"]["op"]) == l:
                            ends.add(i)
                for dbb in defs:
                    after = b.reachable_after(dbb, removed_nodes=sorted(ends))
                    for h in hs:
                        if h.bb in after:
                            held.append((l, d["ty"], h))
            for l, ty, h in held:
                ctx.fail(R5, h.where(), "the handshake runs while a `%s` is alive: one client that stalls blocks every other connection" % ty[:80], [START, "guard-across-handshake"])
            if not held:
                ctx.ok(R5, "%s: no guard-typed local alive at the handshake" % k)
    ctx.floor(R5, "handshake sites examined for held guards", n_hs, 2)
    ctx.require(R4, handshake_in_closure >= 2, START, "SslAcceptor::accept call inside each spawned closure (found %d)" %
                handshake_in_closure, [START, "accept-count"])
    ctx.assumptions.append("openssl::ssl::SslAcceptor::accept returns Err (does not panic) on a failed handshake; "
                           "log macros do not panic; allocation failure is out of scope")
