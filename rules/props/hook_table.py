"""Hook-name resolution, EVALUATED: the public Config::get_hook (whatever private helpers it uses today: do_get_hook) is interpreted (absint, every Config/Hook method followed, recursion
included) on one concrete sample configuration that contains every situation the properties talk about:

  hooks   A, B, C
  groups  G = [A, B]            plain group, declaration order
          H = [G, C, A]         nested group, expanded in place; a hook may appear twice
          D = [G, G]            the same group twice is not a cycle
          L = [L]               includes itself
          P = [Q], Q = [P]      cycle of length 2
          T = [A, U], U = [B, V], V = [C, T]   cycle of length 3 reached after resolvable members
          M = [A, nope]         unknown member
          E = []                empty group

The table {name: ("Ok", [hook names]) | ("Err", message) | None} is shared by C10 (order / in-place expansion), C14 (unknown
names are errors that are not swallowed inside a group) and C19 (cycles are refused instead of recursing without bound: a run that
does not come back — interpreter depth or step limit — is reported as None). Rules use it FIRST and fall back to their
structural form when the interpreter cannot run the function (result None for a name that must resolve)."""
from ..absint import NONE, Interp, Val, _FRAME_SEQ, struct_val, success_model, vstr

CFG = "acmed::config::Config"
ENTRY = CFG + "::get_hook"
HOOKS = ["A", "B", "C"]
GROUPS = [("G", ["A", "B"]), ("H", ["G", "C", "A"]), ("D", ["G", "G"]), ("L", ["L"]), ("P", ["Q"]), ("Q", ["P"]),
          ("T", ["A", "U"]), ("U", ["B", "V"]), ("V", ["C", "T"]), ("M", ["A", "nope"]), ("E", [])]
EXPECT_OK = {"A": ["A"], "B": ["B"], "C": ["C"], "G": ["A", "B"], "H": ["A", "B", "C", "A"], "D": ["A", "B", "A", "B"], "E": []}
EXPECT_ERR = {"L": "cycle", "P": "cycle", "Q": "cycle", "T": "cycle", "M": "unknown", "zz": "unknown"}

_cache = {}


def hook_table(prog):
    if id(prog) in _cache:
        return _cache[id(prog)]
    b = prog.body(ENTRY)
    out = {}
    if b is None or prog.adt("acmed::config::Hook") is None or prog.adt("acmed::config::Group") is None:
        _cache[id(prog)] = None
        return None
    try:
        def hook(n):
            return struct_val(prog, "acmed::config::Hook", {"name": vstr(n), "hook_type": Val("list", []), "allow_failure": NONE, "args": NONE, "stdin": NONE, "stdin_str": NONE,
                                                             "stdout": NONE, "stderr": NONE, "cmd": vstr("true")})

        def group(n, hs):
            return struct_val(prog, "acmed::config::Group", {"name": vstr(n), "hooks": Val("list", [vstr(h) for h in hs])})
        cfg = struct_val(prog, CFG, {"hook": Val("list", [hook(n) for n in HOOKS]), "group": Val("list", [group(n, hs) for n, hs in GROUPS])})
        follow = lambda cs: (cs.name or "").startswith(CFG + "::") or (cs.name or "").startswith("acmed::config::get_") or (cs.name or "").startswith("acmed::config::Hook::") or (cs.name or "").startswith("acmed::config::Group::")
        # the visited collection parameter (a `&mut` Vec/set today): an empty collection living in the entry frame
        mut_params = [i for i in range(1, b.arg_count + 1) if b.local_ty(i).startswith("&mut ")]
        name_params = [i for i in range(2, b.arg_count + 1) if b.local_ty(i) in ("&str", "&alloc::string::String", "&alloc::string::String")]
        if len(name_params) != 1:
            _cache[id(prog)] = None
            return None
        for name in list(EXPECT_OK) + list(EXPECT_ERR):
            it = Interp(b, success_model(b, None), 200000)
            it.follow = follow
            env = {1: Val("ref", cfg), name_params[0]: Val("ref", vstr(name))}
            for k, i in enumerate(mut_params):
                env[9000 + k] = Val("list", [])
                env[i] = Val("ref", Val("list", []), ("place", 9000 + k, _FRAME_SEQ[0] + 1))
            r = it.run(env)
            res = None
            rv = r.ret.deref() if r.kind == "return" and r.ret is not None else None
            if rv is not None and rv.k == "adt" and rv.extra:
                if rv.extra[1] == "Ok" and rv.v and rv.v[0].deref().k == "list":
                    names = []
                    for x in rv.v[0].deref().v:
                        xd = x.deref()
                        nm = None
                        if xd.k == "adt" and xd.extra and xd.extra[0] == "acmed::hooks::Hook":
                            fs = prog.adt_fields("acmed::hooks::Hook")
                            nv = xd.v[fs.index("name")].deref()
                            nm = nv.v if nv.k == "str" else None
                        names.append(nm)
                    res = ("Ok", names)
                elif rv.extra[1] == "Err":
                    ev = rv.v[0].deref() if rv.v else None
                    res = ("Err", ev.v if ev is not None and ev.k == "str" else repr(ev))
            out[name] = res
    except Exception as e:                                                      # the interpreter is best effort
        out = None
    _cache[id(prog)] = out
    return out


def resolver(prog):
    """the function that does the (recursive) resolution behind Config::get_hook: the recursive member of its call tree inside
    acmed::config (do_get_hook today), or get_hook itself"""
    from ..loops import recursive_sccs
    reach = [k for k in prog.reach([ENTRY]) if k.startswith("acmed::config::")]
    rec = recursive_sccs(prog, reach)
    for scc in rec:
        for k in scc:
            bk = prog.body(k)
            if bk is not None and bk.kind in ("Fn", "AssocFn"):
                return bk
    return prog.must_body(ENTRY)


def evaluated(table):
    """the table is usable when every name that must resolve did evaluate (to anything)"""
    return table is not None and all(table.get(n) is not None for n in EXPECT_OK) and table.get("zz") is not None


CONSUMER_SAMPLES = [(["A", "G", "C"], ("Ok", ["A", "A", "B", "C"])), (["H"], ("Ok", ["A", "B", "C", "A"])), ([], ("Ok", [])), (["A", "zz"], "Err"), (["zz", "A"], "Err"),
                    (["A", "M"], "Err"), (["L"], "Err"), (["B", "A"], ("Ok", ["B", "A"])),
                    (["A", "A"], ("Ok", ["A", "A"])), (["G", "B", "C"], ("Ok", ["A", "B", "B", "C"])), (["C", "C", "G"], ("Ok", ["C", "C", "A", "B"]))]


def consumer_table(prog, key):
    """`key` = config::Certificate::get_hooks / config::Account::get_hooks, interpreted on the sample configuration with several
    hook-name lists: [(names, got, want)] or None. An account without a `hooks` key resolves to no hook."""
    b = prog.body(key)
    if b is None:
        return None
    owner = key.rsplit("::", 1)[0]
    fs = prog.adt_fields(owner)
    if "hooks" not in fs:
        return None
    fty = [f for f in prog.adt(owner)["variants"][0]["fields"] if f["name"] == "hooks"][0]["ty"]
    optional = fty.startswith("core::option::Option<")
    rows = []
    try:
        def hook(n):
            return struct_val(prog, "acmed::config::Hook", {"name": vstr(n), "hook_type": Val("list", []), "allow_failure": NONE, "args": NONE, "stdin": NONE, "stdin_str": NONE,
                                                             "stdout": NONE, "stderr": NONE, "cmd": vstr("true")})

        def group(n, hs):
            return struct_val(prog, "acmed::config::Group", {"name": vstr(n), "hooks": Val("list", [vstr(h) for h in hs])})
        cfg = struct_val(prog, CFG, {"hook": Val("list", [hook(n) for n in HOOKS]), "group": Val("list", [group(n, hs) for n, hs in GROUPS])})
        follow = lambda cs: (cs.name or "").startswith("acmed::config::")
        samples = list(CONSUMER_SAMPLES) + ([(None, ("Ok", []))] if optional else [])
        for names, want in samples:
            from ..absint import some
            lst = Val("list", [vstr(n) for n in (names or [])])
            hv = (some(lst) if names is not None else NONE) if optional else lst
            me = struct_val(prog, owner, {"hooks": hv})
            it = Interp(b, success_model(b, None), 200000)
            it.follow = follow
            r = it.run({1: Val("ref", me), 2: Val("ref", cfg)})
            rv = r.ret.deref() if r.kind == "return" and r.ret is not None else None
            got = None
            if rv is not None and rv.k == "adt" and rv.extra:
                if rv.extra[1] == "Err":
                    got = "Err"
                elif rv.extra[1] == "Ok" and rv.v and rv.v[0].deref().k == "list":
                    hf = prog.adt_fields("acmed::hooks::Hook")
                    nm = []
                    for x in rv.v[0].deref().v:
                        xd = x.deref()
                        nv = xd.v[hf.index("name")].deref() if xd.k == "adt" and xd.extra and xd.extra[0] == "acmed::hooks::Hook" else None
                        nm.append(nv.v if nv is not None and nv.k == "str" else None)
                    got = ("Ok", nm)
            if got is None:
                return None
            rows.append((names, got, want))
    except Exception:
        return None
    return rows


def allow_failure_table(prog):
    """the `allow_failure` of resolved hooks whose configuration does not set it, for several type lists (challenge only, clean only,
    both, file + post-operation): [(types, got)] or None. Expected: the built-in default (DEFAULT_HOOK_ALLOW_FAILURE) every time."""
    from ..absint import variant
    b = prog.body(ENTRY)
    if b is None:
        return None
    HT = "acmed::config::HookType"
    rows = []
    try:
        for types in (["ChallengeDns01"], ["ChallengeDns01Clean"], ["ChallengeDns01", "ChallengeDns01Clean"], ["FilePostCreate", "PostOperation"], ["ChallengeTlsAlpn01Clean", "ChallengeHttp01Clean"]):
            hk = struct_val(prog, "acmed::config::Hook", {"name": vstr("X"), "hook_type": Val("list", [variant(HT, t) for t in types], "set"), "allow_failure": NONE, "args": NONE, "stdin": NONE,
                                                           "stdin_str": NONE, "stdout": NONE, "stderr": NONE, "cmd": vstr("true")})
            cfg = struct_val(prog, CFG, {"hook": Val("list", [hk]), "group": Val("list", [])})
            it = Interp(b, success_model(b, None), 200000)
            it.follow = lambda cs: (cs.name or "").startswith("acmed::config::")
            name_params = [i for i in range(2, b.arg_count + 1) if b.local_ty(i) in ("&str", "&alloc::string::String")]
            r = it.run({1: Val("ref", cfg), name_params[0]: Val("ref", vstr("X"))})
            rv = r.ret.deref() if r.kind == "return" and r.ret is not None else None
            if rv is None or rv.k != "adt" or not rv.extra or rv.extra[1] != "Ok" or rv.v[0].deref().k != "list" or len(rv.v[0].deref().v) != 1:
                return None
            h = rv.v[0].deref().v[0].deref()
            fs = prog.adt_fields("acmed::hooks::Hook")
            af = h.v[fs.index("allow_failure")].deref() if h.k == "adt" and "allow_failure" in fs else None
            if af is None or af.k != "bool":
                return None
            rows.append((types, af.v))
    except Exception:
        return None
    return rows
