"""C02 — stored files hold exactly what was issued, with no residue of older content.

Decided:
  R1 typestate of the OpenOptions value in storage::write_file: on every path to each `open`, the same builder received
     write(true) and either truncate(true) or create_new(true) (nothing can survive from an older, longer file), and
     never append(true); the non-unix arm (File::create, which truncates) is pruned as a constant branch;
  R2 the `data` parameter is written whole, once, by write_all; its error and the error of the following flush (tokio
     writes in a background task: without it the file may still be empty and errors are lost) are propagated; Ok(()) is
     returned only after both;
  R3 what is written is what was issued: write_certificate receives the body returned by http::get_certificate through
     representation-preserving conversions only; set_keypair writes private_key_to_pem() of its argument; do_save writes
     bincode::serialize of the AccountStorage built from the account;
  R4 files are opened for writing only in write_file (allowed elsewhere: hook stdout/stderr, pid file).
"""
from ..flow import arg_origins, origins
from ..mir import op_const, try_edges
from ..util import POLL, effective_callers, effective_owner, polls, result_return_kinds, unreachable_without, where

LEVEL = "other"
TECHNIQUE = ("typestate over the OpenOptions builder (must-pass-through per open site), must-follow on write_all/flush success "
             "edges, verbatim provenance (whitelisted representation-preserving chain) of the written bytes, who-may-open")
LEVEL_TEXT = ("Decides for every write of every storage file, on all paths: the file is truncated or freshly created, the whole "
              "buffer is written and flushed with errors propagated before success is reported, the buffer is the issued "
              "object through value-preserving conversions only, and no other code opens storage files for writing. Byte "
              "equality with a concrete CA answer is not decided.")
LEVEL_NOTE = ("Not decided: concrete bytes, durability across a crash (no fsync), tokio/OS semantics beyond documented "
              "OpenOptions flags. Trusted: rustc MIR, extractor, tokio::fs::OpenOptions/File documentation.")

WF = "acmed::storage::write_file"
OO = "tokio::fs::open_options::OpenOptions"
STD_OO = "std::fs::OpenOptions"
TRANSPARENT_OK = ("as_bytes", "deref", "branch", "map_err", "into_future", "new_unchecked", "poll", "get_context", "as_ref", "borrow",
                  "clone", "to_vec", "to_owned", "as_slice", "as_str", "into_bytes", "from_residual", "into", "from", "as_mut", "deref_mut", "must_use")


def true_arg_calls(body, name):
    out = []
    for c in body.calls_to(name):
        cst = op_const(c.args[1]) if len(c.args) > 1 else None
        if cst is not None and cst.get("bool") is True:
            out.append(c)
    return out


MEL_NEW = "acmed::main_event_loop::MainEventLoop::new"
GET_ID = "acmed::certificate::Certificate::get_id"


def one_writer_per_path(ctx, R7):
    """File paths depend on the certificate's name and key type only; two certificate objects with equal get_id() would write the
    same two files from concurrent renewals (key of one beside the chain of the other). The start-up duplicate test is what excludes
    it: every map/set operation keyed by get_id() in MainEventLoop::new must be keyed by get_id() ALONE — a key that also carries
    the endpoint or account lets equal ids through."""
    prog = ctx.prog
    b = prog.async_body(MEL_NEW) or prog.body(MEL_NEW)
    if b is None:
        ctx.fail(R7, "acmed/src/main_event_loop.rs", "MainEventLoop::new not found", [MEL_NEW, "missing"])
        return
    keyed = []
    for c in b.calls:
        n = (c.name or c.fn or "")
        if n.rsplit("::", 1)[-1] not in ("contains_key", "contains", "insert", "entry", "get") or not ("HashMap" in n or "HashSet" in n or "BTreeMap" in n or "BTreeSet" in n):
            continue
        sl = arg_origins(c, 1)
        if any(x.is_(GET_ID) for x in sl.calls):
            keyed.append((c, sl))
    ctx.floor(R7, "map/set operations keyed by Certificate::get_id() in MainEventLoop::new", len(keyed), 2)
    for c, sl in keyed:
        extra = sorted(l for l in sl.leaves if l != "call:" + GET_ID)
        ctx.require(R7, not extra, c.where(), "%s is keyed by get_id() alone%s" % ((c.name or c.fn).rsplit("::", 1)[-1], (" (also: %s)" % ", ".join(extra[:3])) if extra else ""),
                    [MEL_NEW, "certificate-id-key", (c.name or c.fn).rsplit("::", 1)[-1]])
    tests = [c for c, sl in keyed if (c.name or c.fn).rsplit("::", 1)[-1] in ("contains_key", "contains", "get", "entry")]
    ctx.require(R7, bool(tests) or any((c.name or c.fn).endswith("HashSet::insert") for c, _ in keyed), "%s:%s" % (b.file, b.line), "the certificate id is tested for presence before the certificate is accepted", [MEL_NEW, "duplicate-test"])


def check(ctx):
    prog = ctx.prog
    # key and certificate are different files: the two configured extensions survive the merge of included [global] tables (C14.R2)
    from .c14 import merge_pairing as _mp
    _mp(ctx, ctx.rule("M1", "[shared with C14] pk_file_ext / cert_file_ext of an included [global] table are merged into the same-named option"), only=("pk_file_ext", "cert_file_ext"))
    one_writer_per_path(ctx, ctx.rule("R7", "one certificate per pair of files: MainEventLoop::new refuses a second certificate with the same Certificate::get_id() — the id (name + key type) the file names derive from — whatever else differs (endpoint, account)"))
    b = prog.async_body(WF)
    R1 = ctx.rule("R1", "every open() of a storage file is preceded on all paths by write(true) and truncate(true)|create_new(true) on the same builder, never append(true)")
    open_rule(ctx, R1)

    R2 = ctx.rule("R2", "write_all(data) once, whole, then flush; both errors propagated; Ok(()) only after both succeeded")
    wa = b.calls_to("tokio::io::util::async_write_ext::AsyncWriteExt::write_all", "std::io::Write::write_all")
    ctx.floor(R2, "write_all call in write_file", len(wa), 1)
    ctx.require(R2, len(wa) == 1, wa[0].where() if wa else "-", "exactly one write_all site (found %d)" % len(wa), [WF, "write-count"])
    fl = b.calls_to("tokio::io::util::async_write_ext::AsyncWriteExt::flush", "tokio::io::util::async_write_ext::AsyncWriteExt::shutdown",
                    "tokio::fs::file::File::sync_all", "tokio::fs::file::File::sync_data", "std::io::Write::flush")
    okb, errb, fwd = result_return_kinds(b)
    for c in wa:
        sl = arg_origins(c, 1)
        ctx.require(R2, sl.has_leaf("upvar:2"), c.where(), "the buffer written is the `data` parameter", [WF, "written-buffer"])
        shr = sorted(v for v in sl.via if v.rsplit("::", 1)[-1] in ("index", "get", "split_at", "take", "truncate", "first", "last", "chunks", "split", "trim", "trim_end")
                     or "Index" in v)
        ctx.require(R2, not shr, c.where(), "the whole buffer is written (no slicing: %s)" % shr, [WF, "partial-write"])
        ctx.require(R2, b.scc_of(c.bb) is None or c.bb not in b.reachable_after(c.bb, removed_nodes=[x.bb for x in b.calls if x.fn == POLL]),
                    c.where(), "write_all is not repeated", [WF, "write-loop"])
        # success edges of write_all and of flush
        ok_edges = []
        for t in try_edges(b, [c.dest["l"]]):
            if not t["adt"].endswith("Poll"):
                ok_edges += [(t["bb"], tg) for tg in t["ok"]]
        good, hit = unreachable_without(b, okb + fwd, removed_edges=ok_edges)
        ctx.require(R2, bool(ok_edges) and good, c.where(), "Ok(()) is returned only on the success edge of write_all (error propagated)", [WF, "write-error-dropped"])
    fl_edges = []
    for c in fl:
        for t in try_edges(b, [c.dest["l"]]):
            if not t["adt"].endswith("Poll"):
                fl_edges += [(t["bb"], tg) for tg in t["ok"]]
    good, hit = unreachable_without(b, okb + fwd, removed_edges=fl_edges)
    ctx.require(R2, bool(fl) and bool(fl_edges) and good, wa[0].where() if wa else "-",
                "the file is flushed (pending background write awaited, its error propagated) before write_file reports success", [WF, "no-flush"])
    if fl and wa:
        ok, hit = unreachable_without(b, [c.bb for c in fl], removed_nodes=[p.bb for p in b.calls if p.fn == POLL and p.res and "write_all" in p.res.lower()])
        ctx.require(R2, ok, fl[0].where(), "flush follows the completed write_all", [WF, "flush-order"])
        # owner change and post hooks come after the flush
        so = b.calls_to("acmed::storage::set_owner")
        post = [c for c in b.calls_to("acmed::hooks::call") if is_post_hook(b, c)]
        fl_polls = [p.bb for p in b.calls if p.fn == POLL and p.res and "flush" in p.res.lower()]
        for c in so + post:
            ok, hit = unreachable_without(b, [c.bb], removed_nodes=fl_polls)
            ctx.require(R2, ok and fl_polls, c.where(), "%s runs after the data has been flushed" % c.name.rsplit("::", 1)[1], [WF, "before-flush", c.name.rsplit("::", 1)[1]])

    R3 = ctx.rule("R3", "the bytes written are the issued object: certificate body verbatim, private_key_to_pem() of the key, bincode of the AccountStorage")
    rc = prog.async_body("acmed::acme_proto::request_certificate")
    wcs = rc.calls_to("acmed::storage::write_certificate")
    ctx.floor(R3, "write_certificate call in request_certificate", len(wcs), 1)
    from .request_model import request_traces as _rt0
    rtr0 = _rt0(prog)
    if rtr0 is not None:
        # evaluation first (request traces): on every successful attempt the bytes written are the download itself — the value parsed
        # and matched against the key, which is http::get_certificate's answer
        for k_, v_ in sorted(rtr0.items()):
            if k_[2] != "ok":
                continue
            wr_ = [e for e in v_["events"] if e[0] == "write_certificate"]
            fp_ = [e for e in v_["events"] if e[0] == "from_pem"]
            good_ = len(wr_) == 1 and len(fp_) >= 1 and wr_[0][1] is not None and wr_[0][1] == fp_[-1][1] and "get_certificate" in wr_[0][1]
            ctx.require(R3, good_, "%s:%s" % (rc.file, rc.line), "kp_reuse=%s, stored key %s: the certificate bytes written (%s) are the validated download (%s)" % (
                k_[0], "readable" if k_[1] else "unreadable", wr_[0][1] if wr_ else None, fp_[-1][1] if fp_ else None), ["request_certificate", "cert-bytes-evaluated", repr(k_)])
        wcs = []
    for c in wcs:
        sl = arg_origins(c, 1)
        src = [x for x in sl.calls if x.is_or_polls("acmed::acme_proto::http::get_certificate")]
        ctx.require(R3, bool(src), c.where(), "the certificate bytes derive from http::get_certificate's result", ["request_certificate", "cert-source"])
        other = sorted(v for v in sl.via if v.rsplit("::", 1)[-1] not in TRANSPARENT_OK)
        ctx.require(R3, not other, c.where(), "only representation-preserving conversions between download and write (%s)" % other, ["request_certificate", "cert-transformed"])
        extra = sorted(l for l in sl.leaves if l.startswith("call:") and "get_certificate" not in l)
        ctx.require(R3, not extra, c.where(), "nothing else flows into the certificate bytes (%s)" % extra, ["request_certificate", "cert-mixed"])
    for c in rc.calls_to("acmed::storage::write_certificate"):
        src = [x for x in arg_origins(c, 1).calls if x.is_or_polls("acmed::acme_proto::http::get_certificate")]
        # what is written is the very download that was VALIDATED (parsed and matched against the key), not another response
        src_bbs = {x.bb for x in src}
        for v_ in rc.calls_to("acme_common::crypto::openssl_certificate::X509Certificate::from_pem", "acme_common::crypto::openssl_certificate::X509Certificate::from_pem_native"):
            vsl = arg_origins(v_, 0)
            vsrc = {x.bb for x in vsl.calls if x.is_or_polls("acmed::acme_proto::http::get_certificate")}
            if vsrc and v_.bb in rc.live_blocks() and c.bb in rc.reachable_after(v_.bb):
                ctx.require(R3, vsrc == src_bbs, c.where(), "the bytes written come from the same download that was parsed and checked (validated: get_certificate @bb%s, written: @bb%s)" % (sorted(vsrc), sorted(src_bbs)),
                            ["request_certificate", "validated-is-written"])
    gc = prog.async_body("acmed::acme_proto::http::get_certificate")
    okb2, errb2, fwd2 = result_return_kinds(gc)
    from ..util import agg_assigns
    for i, st in agg_assigns(gc, "core::result::Result", "Ok"):
        if st["lhs"]["l"] == 0:
            sl = origins(gc, st["rv"]["ops"][0])
            ctx.require(R3, ("acmed::http::ValidHttpResponse", "body") in sl.fields and any(x.is_or_polls("acmed::http::post") for x in sl.calls), where(gc, i),
                        "get_certificate returns response.body of its POST", ["get_certificate", "body"])
            other = sorted(v for v in sl.via if v.rsplit("::", 1)[-1] not in TRANSPARENT_OK + ("to_string",))
            ctx.require(R3, not other, where(gc, i), "get_certificate hands the body on unchanged (only representation-preserving conversions; found %s)" % other,
                        ["get_certificate", "body-transformed"])
    fr = prog.async_body("acmed::http::ValidHttpResponse::from_response")
    for i, st in agg_assigns(fr, "acmed::http::ValidHttpResponse"):
        idx = st["rv"]["fields"].index("body")
        sl = origins(fr, st["rv"]["ops"][idx])
        ctx.require(R3, any("Response::text" in (x.name or "") or "text::{closure" in (x.name or "") for x in sl.calls), where(fr, i),
                    "ValidHttpResponse.body = response.text()", ["from_response", "body-text"])
        other = sorted(v for v in sl.via if v.replace("::{closure#0}", "").rsplit("::", 1)[-1] not in TRANSPARENT_OK + ("to_string", "text"))
        ctx.require(R3, not other, where(fr, i), "the response text is stored unchanged (found %s)" % other, ["from_response", "body-transformed"])
    sk = prog.async_body("acmed::storage::set_keypair")
    for c in sk.calls_to(WF):
        sl = arg_origins(c, 2)
        pem = [x for x in sl.calls if x.is_("acme_common::crypto::openssl_keys::KeyPair::private_key_to_pem")]
        ctx.require(R3, bool(pem) and all(arg_origins(x, 0).has_leaf("upvar:1") for x in pem), c.where(),
                    "set_keypair writes key_pair.private_key_to_pem() of its argument", ["set_keypair", "key-bytes"])
        ft = arg_origins(c, 1)
        ctx.require(R3, any("PrivateKey" in str(x.get("variant", x.get("pp", ""))) for x in ft.consts) or "const:acmed::storage::FileType::PrivateKey" in ft.leaves, c.where(),
                    "… into the PrivateKey file", ["set_keypair", "file-type"])
    # the key file holds the key of the CSR: a generated key is flagged new (constant of the generating path) and a flagged key is stored
    from .c03 import new_key_flag_rule
    new_key_flag_rule(ctx, R3)
    pk = prog.must_body("acme_common::crypto::openssl_keys::KeyPair::private_key_to_pem")
    ctx.require(R3, bool(pk.calls_to("openssl::pkey::PKeyRef::private_key_to_pem_pkcs8")), "%s:%s" % (pk.file, pk.line), "private_key_to_pem = PKCS#8 PEM of inner_key", ["private_key_to_pem", "pkcs8"])
    ds = prog.async_body("acmed::account::storage::do_save")
    for c in ds.calls_to("acmed::storage::set_account_data"):
        sl = arg_origins(c, 1)
        ctx.require(R3, sl.via_any("bincode::serialize") or any(x.is_("bincode::serialize") for x in sl.calls), c.where(), "do_save writes bincode::serialize(&AccountStorage)", ["do_save", "bincode"])
    for key, ft in (("acmed::storage::write_certificate", "Certificate"), ("acmed::storage::set_account_data", "Account")):
        wb = prog.async_body(key)
        for c in wb.calls_to(WF):
            a = arg_origins(c, 1)
            ctx.require(R3, any(ft == x.get("variant") or str(x.get("pp", "")).endswith("::" + ft) for x in a.consts), c.where(), "%s writes the %s file" % (key.rsplit("::", 1)[1], ft), [key, "file-type"])
            d = arg_origins(c, 2)
            ctx.require(R3, d.has_leaf("upvar:1") and not [v for v in d.via if v.rsplit("::", 1)[-1] not in TRANSPARENT_OK], c.where(),
                        "%s forwards its data argument unchanged" % key.rsplit("::", 1)[1], [key, "forward"])

    R5 = ctx.rule("R5", "the key, the certificate and the account each have their own path: per-type extension from the like-named option, file type given to the name template")
    from .storage_common import file_identity_rules
    file_identity_rules(ctx, R5)

    writers_rule(ctx)


def writers_rule(ctx):
    """shared with C03 (nothing but write_file creates, replaces, renames or removes the installed key / certificate files)"""
    prog = ctx.prog
    R4 = ctx.rule("R4", "files are opened for writing only in storage::write_file (hook stdout/stderr and the pid file excepted)")
    allowed = {"acmed::storage::write_file::{closure#0}": "storage files", "acmed::hooks::call_single::{closure#0}": "hook stdout/stderr redirection",
               "acme_common::write_pid_file": "pid file"}
    sites = prog.all_calls_to(OO + "::open", STD_OO + "::open", "tokio::fs::file::File::create", "std::fs::File::create", "std::fs::write", "tokio::fs::write::write",
                              "std::fs::File::create_new", "std::fs::copy", "std::fs::rename", "tokio::fs::rename::rename", "std::fs::remove_file", "tokio::fs::remove_file::remove_file",
                              "std::fs::hard_link", "std::os::unix::fs::symlink", crates=("acmed",), include_derive=True) + \
        prog.all_calls_to(OO + "::open", STD_OO + "::open", "std::fs::File::create", "std::fs::write", crates=("acme_common",), include_derive=True)
    ctx.floor(R4, "file-creation sites in acmed/acme_common", len(sites), 3)
    allowed_fns = {k.split("::{closure")[0] for k in allowed}
    for c in sites:
        owners = effective_owner(prog, c.body.key)   # a new helper counts as part of the original functions that reach it
        ctx.require(R4, bool(owners) and owners <= allowed_fns, c.where(), "%s in %s (%s)" % (c.name.rsplit("::", 2)[-2] + "::" + c.name.rsplit("::", 1)[-1], c.body.key, allowed.get(c.body.key, "NOT an allowed writer")),
                    [c.body.key.split("::{closure")[0], "foreign-writer"])
    callers = sorted(effective_callers(prog, WF))
    ctx.require(R4, set(callers) <= {"acmed::storage::set_account_data", "acmed::storage::set_keypair", "acmed::storage::write_certificate"},
                "acmed/src/storage.rs", "write_file is called only by set_account_data, set_keypair, write_certificate (%s)" % callers, [WF, "callers"])


def is_post_hook(b, c):
    a = arg_origins(c, 3)
    return any(str(x.get("variant", x.get("pp", ""))).endswith(("FilePostCreate", "FilePostEdit")) for x in a.consts)


def open_rule(ctx, R1):
    """shared with C03 (a rewritten certificate file must hold the new chain only, or it no longer parses)"""
    prog = ctx.prog
    b = prog.async_body(WF)
    from .storage_common import write_file_traces, index_of
    traces = write_file_traces(prog)
    ctx.floor(R1, "write_file success-path traces (file exists x file type)", len(traces), 6)
    for (exists, ft), tr in sorted(traces.items()):
        ev = tr["events"]
        who = "%s file, %s" % (ft, "already exists" if exists else "new")
        i_open = index_of(ev, lambda e: e[0] in ("oo.open", "create"))
        if tr["kind"] != "return" or i_open < 0:
            ctx.fail(R1, "%s:%s" % (b.file, b.line), "write_file's success path could not be evaluated or never opens the file (%s): %s" % (who, tr["kind"]), [WF, "trace", ft, str(exists)])
            continue
        if ev[i_open][0] == "create":
            ctx.ok(R1, "%s: File::create (truncates)" % who)
            continue
        news = [i for i, e in enumerate(ev[:i_open]) if e[0] == "oo.new"]
        flags = {e[0][3:]: e[1] for e in ev[(news[-1] if news else 0):i_open] if e[0].startswith("oo.")}
        ctx.require(R1, flags.get("write") is True, "%s:%s" % (b.file, b.line), "%s: opened with write(true) (%s)" % (who, flags), [WF, "open-without-write", ft, str(exists)])
        ctx.require(R1, flags.get("truncate") is True or flags.get("create_new") is True, "%s:%s" % (b.file, b.line),
                    "%s: opened with truncate(true) or create_new(true) — older, longer content cannot survive (%s)" % (who, flags), [WF, "open-without-truncate", ft, str(exists)])
        ctx.require(R1, flags.get("append") is not True, "%s:%s" % (b.file, b.line), "%s: never opened in append mode" % who, [WF, "append", ft, str(exists)])
        # the path opened: the storage path helper's result (answered `PATH` by the trace model) or, when that helper was folded into
        # other code, a path evaluated from the file manager's directory for this file type
        want_dir = "FM.account_directory" if ft == "Account" else "FM.crt_directory"
        opened = str(ev[i_open][1])
        ctx.require(R1, "PATH" in opened or (want_dir in opened and ("FM.account_directory" if ft != "Account" else "FM.crt_directory") not in opened), "%s:%s" % (b.file, b.line),
                    "%s: the opened path is the storage path of this file type (%s)" % (who, ev[i_open][1]), [WF, "path", ft, str(exists)])
        i_w = index_of(ev, lambda e: e[0] == "write_all", i_open)
        ctx.require(R1, i_w > i_open and "DATA" in str(ev[i_w][1]), "%s:%s" % (b.file, b.line), "%s: the data parameter is written after the open" % who, [WF, "write-after-open", ft, str(exists)])
    # no append(true) anywhere in the function (any path)
    ap = true_arg_calls(b, OO + "::append") + true_arg_calls(b, STD_OO + "::append")
    ctx.require(R1, not ap, ap[0].where() if ap else "%s:%s" % (b.file, b.line), "append(true) is never used in write_file", [WF, "append-any-path"])

