"""C09 — configured HTTP rate limits are never exceeded on any path.

Decided (structure that is necessary for the behaviour; not the wall-clock guarantee itself):
  R1 who-may-send: the only `RequestBuilder::send` / `Client::execute` sites of the workspace are in `http::get` and
     `http::post`; every send is preceded on every path (from entry and from the previous send) by a completed
     `http::rate_limit(endpoint)`, which awaits `RateLimit::block_until_allowed` on the endpoint's own `rl`.
  R2 admission structure of the limiter: a request is logged exactly when admitted, admission needs every limit to have
     fewer than `max` log entries younger than now - period (`>=` denies), the log is pruned with the longest period.
  R3 one limiter per endpoint: certificate tasks share `Arc` clones of one `RwLock<Endpoint>`; `Endpoint`/`RateLimit`
     values are deep-cloned only while the event loop is being built.
  Evaluation-first (props/rate_model.py): R2a/R2b/R2c are decided by interpreting `RateLimit::new` on several configured limit
  lists and `block_until_allowed` on concrete logs (clock = integers): admitted iff every window has fewer entries than its number,
  entries kept iff still inside the LONGEST window, exactly one entry logged with the clock read after the wait; zero numbers are
  refused. The structural forms of R2 run only when the interpreter cannot evaluate the limiter.
"""
from ..flow import origins, arg_origins
from ..mir import CallSite, op_local, strip_generics
from ..util import (assigns_const_to, bool_edges, call_true_false_edges, polls, switches_on, unreachable_without,
                    where)

LEVEL = "other"
TECHNIQUE = ("who-may-call over resolved callees + must-pass-through (dominance on the CFG minus the limiter await) + "
             "admission-structure rules on the limiter's MIR (comparison operator/operand provenance, log-push placement)"
             '; abstract interpretation of RateLimit::new / block_until_allowed on sample limit lists and logs (admission, pruning, logging tables)')
LEVEL_TEXT = ("Decides, for all paths and call sites at once, that every HTTP transmission is admitted by the endpoint's own "
              "limiter and that the limiter's admission test has the sliding-window shape the property needs; these are "
              "necessary conditions of the behaviour (breaking any one lets some schedule exceed a limit). The wall-clock "
              "guarantee at the server is not decided.")
LEVEL_NOTE = ("Not decided: observed request timing (send latency, clock behaviour), liveness timing. Trusted: rustc MIR, "
              "the extractor, tokio::time::sleep, Instant monotonicity."
              ' R2 by evaluation is (sample-based: evaluation on the listed sample family is not a proof for all inputs; the structural rule is the fallback when the interpreter cannot run the code)')

SEND = ("reqwest::async_impl::request::RequestBuilder::send", "reqwest::async_impl::client::Client::execute",
        "reqwest::blocking::request::RequestBuilder::send", "reqwest::blocking::client::Client::execute")
RL = "acmed::http::rate_limit"
GET_K = "acmed::http::get"
POST_K = "acmed::http::post"
BUA = "acmed::endpoint::RateLimit::block_until_allowed"
CMP_OPS = ("Ge", "Gt", "Le", "Lt", "Eq", "Ne")


def limiter_wrappers(prog):
    """async fns whose every return is preceded by a completed RateLimit::block_until_allowed on the rl field of their
    first parameter (http::rate_limit today; discovered, not named)"""
    out = []
    for k, b in prog.bodies.items():
        if b.crate != "acmed" or not k.endswith("::{closure#0}") or not b.is_coroutine:
            continue
        bp = polls(b, BUA)
        if not bp:
            continue
        rets = b.return_blocks()
        ok, hit = unreachable_without(b, rets, removed_nodes=[p.bb for p in bp])
        args_ok = all(("acmed::endpoint::Endpoint", "rl") in arg_origins(c, 0).fields and arg_origins(c, 0).has_leaf("upvar:0") for c in b.calls_to(BUA))
        if ok and args_ok and b.calls_to(BUA) and len([c for c in b.calls if c.bb in b.live_blocks() and not c.exp]) <= 12:
            out.append(k[:-len("::{closure#0}")])
    return out


def admission_polls(prog, body, wrappers):
    """blocks of `body` where a limiter admission for this function's endpoint completes"""
    out = []
    for w in wrappers:
        out += [p.bb for p in polls(body, w)]
    if body.key[:-len("::{closure#0}")] not in wrappers:
        for c in body.calls_to(BUA):
            a = arg_origins(c, 0)
            if ("acmed::endpoint::Endpoint", "rl") in a.fields and a.has_leaf("upvar:0"):
                out += [p.bb for p in polls(body, BUA)]
    return sorted(set(out))


def check(ctx):
    prog = ctx.prog
    R1a = ctx.rule("R1a", "only http::get and http::post transmit HTTP requests (RequestBuilder::send / Client::execute)")
    R1b = ctx.rule("R1b", "every send is reached only after a completed rate_limit(endpoint) await — from entry and from the previous send")
    R1c = ctx.rule("R1c", "rate_limit awaits RateLimit::block_until_allowed on the rl field of its endpoint parameter")
    allowed = {"acmed::http::get::{closure#0}", "acmed::http::post::{closure#0}"}
    sends = prog.all_calls_to(*SEND, include_derive=True)
    ctx.floor(R1a, "HTTP transmission sites", len(sends), 2)
    by_body = {}
    for c in sends:
        if c.body.key in allowed:
            ctx.ok(R1a, "send in %s @%s" % (c.body.key, c.line))
        else:
            ctx.fail(R1a, c.where(), "HTTP request sent outside http::get/http::post: `%s` in %s bypasses the limiter layering"
                     % (c.name, c.body.key), [c.body.key, "send-outside"])
        by_body.setdefault(c.body.key, []).append(c)
    # any other way to put bytes on the wire from the workspace: a second HTTP client type
    for c in prog.all_calls_to("*hyper::client", "*ureq::", "*attohttpc::", "std::net::tcp::TcpStream::connect", include_derive=True):
        if c.body.crate == "acmed":
            ctx.fail(R1a, c.where(), "network client other than reqwest used in acmed: %s" % c.name, [c.body.key, "other-client"])
    wrappers = limiter_wrappers(prog)
    ctx.notes.append("limiter wrappers discovered: %s" % wrappers)
    for key, cs in by_body.items():
        body = cs[0].body
        rl_polls = admission_polls(prog, body, wrappers)
        send_bbs = [c.bb for c in cs]
        if not rl_polls:
            ctx.fail(R1b, cs[0].where(), "%s sends without awaiting rate_limit at all" % key, [key, "no-rate-limit"])
            continue
        ok, hit = unreachable_without(body, send_bbs, removed_nodes=rl_polls)
        if ok:
            ctx.ok(R1b, "%s: send @bb%s unreachable from entry without rate_limit await @bb%s" % (key, send_bbs, rl_polls))
        else:
            ctx.fail(R1b, where(body, hit[0]), "a path reaches `send` in %s without passing rate_limit(endpoint)" % key,
                     [key, "send-before-limit"])
        for c in cs:
            after = body.reachable_after(c.bb, removed_nodes=rl_polls)
            again = sorted(set(send_bbs) & after)
            if again:
                ctx.fail(R1b, c.where(), "a path leads from one `send` to the next in %s without a new rate_limit admission "
                         "(retry loop)" % key, [key, "send-to-send"])
            else:
                ctx.ok(R1b, "%s: no send→send path avoiding rate_limit (send @bb%d)" % (key, c.bb))
        # the endpoint given to the limiter (wrapper) is this function's own endpoint parameter
        for w in wrappers:
            for c in body.calls_to(w):
                sl = arg_origins(c, 0)
                ctx.require(R1b, sl.has_leaf("upvar:0"), c.where(),
                            "the limiter is called on this function's endpoint parameter (origins %s)" % sorted(sl.leaves),
                            [key, "rate-limit-arg"])
    # R1c: every function that LOOKS like a limiter wrapper (named rate_limit today) really is one
    for k, b in prog.bodies.items():
        if b.crate == "acmed" and b.is_coroutine and b.calls_to(BUA) and k.startswith("acmed::http::") and k.endswith("::{closure#0}"):
            name = k[:-len("::{closure#0}")]
            if name in (GET_K, POST_K) or prog.absorbed(name) or prog.absorbed(k):
                continue            # a new helper of get/post is examined inside them (inlined view)
            ctx.require(R1c, name in wrappers, "%s:%s" % (b.file, b.line),
                        "%s awaits block_until_allowed on `endpoint.rl` of its parameter on every path before returning" % name, [name, "not-a-wrapper"])
    ctx.require(R1c, bool(wrappers) or all(admission_polls(prog, cs[0].body, wrappers) for cs in by_body.values()), "acmed/src/http.rs",
                "the limiter is reached through %s" % (wrappers or "direct awaits of block_until_allowed"), ["http", "limiter-reachable"])
    limits_attached_rule(ctx, R1c)
    check_limiter(ctx)
    check_sharing(ctx)
    check_periods(ctx)


def limits_attached_rule(ctx, rid):
    """every rate limit an endpoint names is attached to it: config::Endpoint::to_generic EVALUATED on an endpoint naming three of four
    configured limits — Endpoint::new must receive exactly those three (number, period) pairs, in the order named"""
    from ..absint import NONE, Interp, Val, marker, ok, struct_val, success_model, vbool, vint, vstr
    prog = ctx.prog
    tg = prog.body("acmed::config::Endpoint::to_generic")
    ECFG, CCFG, RL = "acmed::config::Endpoint", "acmed::config::Config", "acmed::config::RateLimit"
    if tg is None or any(x not in prog.adts for x in (ECFG, CCFG, RL)) or "rate_limits" not in prog.adt_fields(ECFG) or "rate_limit" not in prog.adt_fields(CCFG):
        return
    defs = [("slow", 3, "1h"), ("fast", 20, "1s"), ("mid", 7, "10m"), ("unused", 1, "1d")]
    cnf = struct_val(prog, CCFG, {"rate_limit": Val("list", [struct_val(prog, RL, {"name": vstr(n), "number": vint(k), "period": vstr(p)}) for n, k, p in defs]), "global": NONE})
    for names in (["fast", "slow", "mid"], ["mid"], [], ["slow", "fast"]):
        selfv = struct_val(prog, ECFG, {"name": vstr("ep"), "url": vstr("u"), "tos_agreed": vbool(True), "rate_limits": Val("list", [vstr(n) for n in names]), "root_certificates": NONE})

        def model(cs_, args_):
            if cs_.is_("acmed::endpoint::Endpoint::new"):
                return ok(marker("EP"))
            return None
        try:
            it = Interp(tg, success_model(tg, model), 100000)
            it.follow = lambda cs_: (cs_.name or "").startswith(("acmed::config::", "<acmed::config::"))
            r = it.run({1: Val("ref", selfv), 2: Val("ref", cnf), 3: Val("ref", Val("list", []))})
        except Exception:
            return
        a_ = [x for c_, x, res_ in r.calls if c_.is_("acmed::endpoint::Endpoint::new")]
        lim = None
        for cand in (a_[0] if a_ else []):
            cd = cand.deref()
            if cd.k == "list" and all(x.deref().k == "tuple" and len(x.deref().v) == 2 for x in cd.v) and (cd.v or not names):
                lim = cd
        if r.kind != "return" or not a_ or lim is None:
            ctx.ok(rid, "Endpoint::to_generic not evaluable for rate limits %s (%s): structural rules only" % (names, r.kind))
            return
        got = [(x.deref().v[0].deref().v, x.deref().v[1].deref().v) for x in lim.v]
        want = [(k, p) for n in names for (n2, k, p) in defs if n2 == n]
        ctx.require(rid, got == want, "%s:%s" % (tg.file, tg.line), "endpoint naming the rate limits %s gets %s attached (expected every one of them: %s)" % (names, got, want),
                    ["config::Endpoint::to_generic", "limits-attached", repr(names)])


def check_limiter(ctx):
    prog = ctx.prog
    R2a = ctx.rule("R2a", "block_until_allowed: query_log.push(Instant::now()) happens exactly on the admitted path (true edge of request_allowed) and the function returns only after it (or when no limit is configured)")
    R2b = ctx.rule("R2b", "request_allowed: visits every limit; denies when count(entries younger than now-period) >= max; true only after the loop")
    R2c = ctx.rule("R2c", "the log is pruned with the longest period")
    b = prog.async_body(BUA)
    # evaluation-first, at the entry point: block_until_allowed is interpreted on limiters built by RateLimit::new for several
    # configured lists and on concrete logs (rate_model.py). One round decides: the request is admitted (the function returns, the
    # log is the pruned log plus exactly one entry read from the clock AFTER the wait) or it waits again (no entry added).
    from .rate_model import entry_table
    et = entry_table(prog)
    if et is not None:
        ctx.floor(R2b, "evaluated (limits, log) samples at block_until_allowed", len(et), 30)
        for limits, lg, got, want in et:
            at = "%s:%s" % (b.file, b.line)
            key = [repr(limits), repr(lg)]
            ctx.require(R2b, got[0] == want[0], at, "limits %s, log %s at t=1000: the request %s (definition: %s)" % (limits, lg, got[0], want[0]), [BUA, "admission"] + key)
            kept_g = [t for t in got[1] if t in lg]
            kept_w = [t for t in want[1] if t in lg]
            ctx.require(R2c, kept_g == kept_w, at, "limits %s, log %s: entries kept %s (still inside the longest window: %s)" % (limits, lg, kept_g, kept_w), [BUA, "pruning"] + key)
            new_g = [t for t in got[1] if t not in lg]
            new_w = [t for t in want[1] if t not in lg]
            ctx.require(R2a, got[0] != want[0] or new_g == new_w, at, "limits %s, log %s: entries logged %s (an admitted request is logged once, with the clock read after the wait: %s)" % (limits, lg, new_g, new_w),
                        [BUA, "logging"] + key)
        return
    ra = b.calls_to("acmed::endpoint::RateLimit::request_allowed")
    pushes = [c for c in b.calls_to("alloc::vec::Vec::push")
              if ("acmed::endpoint::RateLimit", "query_log") in arg_origins(c, 0).fields]
    ctx.floor(R2a, "request_allowed call in block_until_allowed", len(ra), 1)
    ctx.floor(R2a, "query_log.push site", len(pushes), 1)
    if ra and pushes:
        tr, fl = call_true_false_edges(b, ra[0])
        if not tr:
            ctx.fail(R2a, ra[0].where(), "the result of request_allowed is not branched on", [BUA, "untested"])
        else:
            ok, hit = unreachable_without(b, [p.bb for p in pushes], removed_edges=tr)
            ctx.require(R2a, ok, pushes[0].where(), "query_log.push is reachable only through the true edge of request_allowed()",
                        [BUA, "push-without-admission"])
            # pushed value is Instant::now()
            for p in pushes:
                sl = arg_origins(p, 1)
                ctx.require(R2a, sl.via_any("std::time::Instant::now"), p.where(),
                            "the logged instant is Instant::now()", [BUA, "push-value"])
                # ... read at admission time: no wait (await of a sleep / of anything that suspends) lies between reading the
                # clock and logging it — a request that waited must be logged with the time it was SENT, not the time it arrived
                waits = [c2.bb for c2 in b.calls if c2.fn == "core::future::future::Future::poll" and c2.bb in b.live_blocks()]
                for n in [x for x in sl.calls if x.is_("std::time::Instant::now")]:
                    fwd = b.reachable_after(n.bb)
                    stale = [w for w in waits if w in fwd and p.bb in b.reachable_after(w)]
                    ctx.require(R2a, not stale, n.where(), "the logged instant is read after the last wait of the admission loop (not a stale arrival time)",
                                [BUA, "push-stale-instant"])
            # returns: only via is_empty true edge or after a push
            ie = b.calls_to("alloc::vec::Vec::is_empty")
            ie_edges = []
            for c in ie:
                if ("acmed::endpoint::RateLimit", "limits") in arg_origins(c, 0).fields:
                    t, f = call_true_false_edges(b, c)
                    ie_edges += t
            ok, hit = unreachable_without(b, b.return_blocks(), removed_nodes=[p.bb for p in pushes], removed_edges=ie_edges)
            ctx.require(R2a, ok, where(b, hit[0]) if hit else "-",
                        "block_until_allowed returns only after logging the admitted request (or with no limit configured)",
                        [BUA, "return-without-log"])
            # admitted path does not loop back: after push no second request_allowed (one log entry per admission)
            after = b.reachable_after(pushes[0].bb)
            ctx.require(R2a, ra[0].bb not in after, pushes[0].where(), "one log entry per admission (push is followed by return)",
                        [BUA, "push-in-loop"])
    # R2b / R2c evaluation-first: RateLimit::new builds the limiter for several configured lists (in several orders), the log is
    # filled with concrete instants and request_allowed / prune_log are interpreted (rate_model.py); the expected answers follow
    # the property's definition. The structural rules below are the fallback when the interpreter cannot run this code.
    from .rate_model import admission_table
    tab = admission_table(prog)
    if tab is not None:
        rb = prog.must_body("acmed::endpoint::RateLimit::request_allowed")
        pb = prog.must_body("acmed::endpoint::RateLimit::prune_log")
        ctx.floor(R2b, "evaluated (limits, log) samples", len(tab), 20)
        for limits, lg, a, wa, pr, wp in tab:
            ctx.require(R2b, a == wa, "%s:%s" % (rb.file, rb.line), "limits %s, log %s (now=1000): request_allowed = %s (definition: %s)" % (limits, lg, a, wa),
                        ["request_allowed", "evaluated", repr(limits), repr(lg)])
            ctx.require(R2c, pr == wp, "%s:%s" % (pb.file, pb.line), "limits %s, log %s (now=1000): prune_log keeps %s (entries still inside the longest window: %s)" % (limits, lg, pr, wp),
                        ["prune_log", "evaluated", repr(limits), repr(lg)])
        return
    # R2b — the admission predicate, wherever it lives: request_allowed, its (inlined) helpers and their closures
    rb = prog.must_body("acmed::endpoint::RateLimit::request_allowed")
    fam = [rb]
    seen = {rb.key}
    i = 0
    while i < len(fam):
        for c in fam[i].calls:
            for g in c.gbodies:
                gb = prog.body(g)
                if gb is not None and g not in seen:
                    seen.add(g)
                    fam.append(gb)
        i += 1
    QL = ("acmed::endpoint::RateLimit", "query_log")
    LIM = ("acmed::endpoint::RateLimit", "limits")
    # (a) every limit is examined: loop idiom or all()/any() idiom
    conj = None
    nexts = [c for c in rb.calls_to("core::iter::traits::iterator::Iterator::next") if LIM in arg_origins(c, 0).fields]
    alls = [c for c in rb.calls_to("core::iter::traits::iterator::Iterator::all", "core::iter::traits::iterator::Iterator::any") if LIM in arg_origins(c, 0).fields]
    true_blocks = assigns_const_to(rb, 0, lambda c: c.get("bool") is True)
    false_blocks = assigns_const_to(rb, 0, lambda c: c.get("bool") is False)
    from ..mir import try_edges
    if nexts:
        conj = "loop"
        nx = nexts[0]
        tests = try_edges(rb, [nx.dest["l"]])
        none_edges = [(t["bb"], tg) for t in tests for tg in t["err"]]
        ok, hit = unreachable_without(rb, true_blocks, removed_edges=none_edges)
        ctx.require(R2b, ok and true_blocks, where(rb, (hit or true_blocks or [0])[0]),
                    "`true` is returned only once every limit was examined (end of the loop over self.limits)", ["request_allowed", "true-before-all-limits"])
    elif alls:
        conj = "all" if alls[0].name.endswith("::all") else "any"
        ret = origins(rb, {"l": 0, "p": []})
        negated = "unop:Not" in ret.via
        ok = any(x.bb == alls[0].bb for x in ret.calls) and ((conj == "all" and not negated) or (conj == "any" and negated))
        ctx.require(R2b, ok, alls[0].where(), "request_allowed = limits.iter().%s(per-limit predicate)%s" % (conj, " negated" if negated else ""), ["request_allowed", "conjunction"])
    else:
        ctx.fail(R2b, "%s:%s" % (rb.file, rb.line), "request_allowed does not visit every element of self.limits (no loop / all / any over it)", ["request_allowed", "limits-not-visited"])
    # (b) the comparison count vs max
    found = 0
    for body in fam:
        for i in sorted(body.live_blocks()):
            for st in body.blocks[i]["stmts"]:
                if st["s"] != "assign" or st["rv"]["k"] != "binop" or st["rv"]["op"] not in CMP_OPS:
                    continue
                a = origins(body, st["rv"]["a"])
                bb_ = origins(body, st["rv"]["b"])
                fa, fb = QL in a.fields, QL in bb_.fields
                ma = ("tuple", 0) in a.fields and not fa
                mb = ("tuple", 0) in bb_.fields and not fb
                if not ((fa and mb) or (fb and ma)):
                    continue
                found += 1
                op = st["rv"]["op"]
                norm = op if fa else {"Ge": "Le", "Gt": "Lt", "Le": "Ge", "Lt": "Gt", "Eq": "Eq", "Ne": "Ne"}[op]
                maxside = bb_ if fa else a
                ctx.require(R2b, ("tuple", 1) not in maxside.fields, where(body, i), "the admission bound is the limit's number (tuple field 0)", ["request_allowed", "bound-field"])
                good = False
                if body is rb and conj == "loop":
                    for sbb, neg in switches_on(rb, st["lhs"]["l"]):
                        t, f = bool_edges(rb, sbb)
                        if neg:
                            t, f = f, t
                        deny_from = t if norm == "Ge" else f if norm == "Lt" else None
                        if deny_from is not None:
                            r = rb.reachable([deny_from], removed_nodes=false_blocks)
                            if not (r & set(rb.return_blocks())) or deny_from in false_blocks:
                                good = True
                else:
                    # predicate closure: its value is the closure's result, with the polarity the combinator needs
                    ret = origins(body, {"l": 0, "p": []})
                    flows = st["lhs"]["l"] in ret.locals
                    negated = "unop:Not" in ret.via
                    allow = (norm == "Lt" and not negated) or (norm == "Ge" and negated)
                    deny = (norm == "Ge" and not negated) or (norm == "Lt" and negated)
                    good = flows and ((conj == "all" and allow) or (conj == "any" and deny))
                ctx.require(R2b, good, where(body, i),
                            "a limit admits only while count < max (operator `%s` on (count,max) in %s, combined by %s)" % (norm, body.key.rsplit("::", 2)[-2] if "closure" in body.key else body.key.rsplit("::", 1)[1], conj),
                            ["request_allowed", "count-vs-max"])
    ctx.floor(R2b, "comparison between the log count and the limit's number", found, 1)
    # (c) window start and the `younger than` filter
    n_cs = 0
    n_f = 0
    for body in fam:
        for c in body.calls_to("std::time::Instant::checked_sub"):
            n_cs += 1
            a0 = arg_origins(c, 0)
            a1 = arg_origins(c, 1)
            per = ("tuple", 1) in a1.fields or (a1.has_leaf("param:") and not a1.via_any("std::time::Instant::now"))
            ctx.require(R2b, a0.via_any("std::time::Instant::now") and per, c.where(), "window start = Instant::now() - the limit's period", ["request_allowed", "window-start"])
        for c in body.calls_to("core::iter::traits::iterator::Iterator::filter"):
            if QL in arg_origins(c, 0).fields and c.gbodies:
                n_f += 1
                check_younger_closure(ctx, R2b, prog.must_body(c.gbodies[-1]), "request_allowed")
    ctx.floor(R2b, "checked_sub(now, period)", n_cs, 1)
    ctx.floor(R2b, "filter over query_log", n_f, 1)
    # R2c prune with longest
    pb = prog.must_body("acmed::endpoint::RateLimit::prune_log")
    nb = prog.must_body("acmed::endpoint::RateLimit::new")
    order = sort_order_of_limits(prog, nb)
    sel = None
    for c in pb.calls:
        if c.bb not in pb.live_blocks():
            continue
        if c.is_("core::slice::<impl [T]>::first") and ("acmed::endpoint::RateLimit", "limits") in arg_origins(c, 0).fields:
            sel = "first"
        elif c.is_("core::slice::<impl [T]>::last") and ("acmed::endpoint::RateLimit", "limits") in arg_origins(c, 0).fields:
            sel = "last"
        elif c.is_("core::iter::traits::iterator::Iterator::max", "core::iter::traits::iterator::Iterator::max_by_key",
                   "core::iter::traits::iterator::Iterator::max_by"):
            sel = "max"
    if order == "not-by-period" and sel in ("first", "last"):
        ctx.fail(R2c, "%s:%s" % (nb.file, nb.line), "RateLimit::new does not order the limits by period, yet prune_log takes `%s()` as the longest period: "
                 "entries still needed by a longer window are pruned" % sel, ["RateLimit::new", "sort-key"])
    elif order is None or sel is None:
        ctx.notes.append("R2c undecided: unrecognised sort/selection idiom (order=%s, selection=%s)" % (order, sel))
    else:
        longest = sel == "max" or (order == "desc" and sel == "first") or (order == "asc" and sel == "last")
        ctx.require(R2c, longest, "%s:%s" % (pb.file, pb.line),
                    "prune_log uses the longest period (limits sorted %s, selection `%s`)" % (order, sel),
                    ["prune_log", "period-selection"])
    for c in pb.calls_to("alloc::vec::Vec::retain"):
        if c.gbodies:
            check_younger_closure(ctx, R2c, prog.must_body(c.gbodies[0]), "prune_log")


def check_younger_closure(ctx, rid, cb, role):
    """closure(x) keeps entries younger than the captured date: x > date (or date < x)"""
    ok = False
    seen = None
    for c in cb.calls:
        if c.fn and c.fn.startswith("core::cmp::PartialOrd::"):
            m = c.fn.rsplit("::", 1)[1]
            a0 = arg_origins(c, 0)
            a1 = arg_origins(c, 1)
            x_left = a0.has_leaf("param:2") and a1.has_leaf("upvar:0")
            x_right = a1.has_leaf("param:2") and a0.has_leaf("upvar:0")
            seen = (m, "x-left" if x_left else "x-right" if x_right else "?")
            if (x_left and m in ("gt", "ge")) or (x_right and m in ("lt", "le")):
                ok = True
    for i in cb.live_blocks():
        for st in cb.blocks[i]["stmts"]:
            if st["s"] == "assign" and st["rv"]["k"] == "binop" and st["rv"]["op"] in CMP_OPS:
                a0 = origins(cb, st["rv"]["a"])
                a1 = origins(cb, st["rv"]["b"])
                x_left = a0.has_leaf("param:2") and a1.has_leaf("upvar:0")
                x_right = a1.has_leaf("param:2") and a0.has_leaf("upvar:0")
                m = st["rv"]["op"]
                seen = (m, "x-left" if x_left else "x-right" if x_right else "?")
                if (x_left and m in ("Gt", "Ge")) or (x_right and m in ("Lt", "Le")):
                    ok = True
    ctx.require(rid, ok, "%s:%s" % (cb.file, cb.line),
                "%s keeps/counts log entries YOUNGER than the window start (entry > date); saw %s" % (role, seen),
                [role, "younger-than"])


def sort_order_of_limits(prog, nb):
    """'asc' / 'desc' / None for the final order of `limits` by period in RateLimit::new"""
    order = None
    sort_bb = None
    for c in nb.calls:
        if c.bb not in nb.live_blocks():
            continue
        if c.is_("alloc::slice::<impl [T]>::sort_by", "alloc::slice::<impl [T]>::sort_unstable_by", "core::slice::<impl [T]>::sort_unstable_by") and c.gbodies:
            cb = prog.body(c.gbodies[0])
            for cc in cb.calls:
                if cc.fn in ("core::cmp::PartialOrd::partial_cmp", "core::cmp::Ord::cmp"):
                    a0 = arg_origins(cc, 0)
                    a1 = arg_origins(cc, 1)
                    if ("tuple", 1) in a0.fields and ("tuple", 1) in a1.fields and ("tuple", 0) not in a0.fields | a1.fields:
                        if a0.has_leaf("param:2") and a1.has_leaf("param:3"):
                            order = "asc"
                        elif a0.has_leaf("param:3") and a1.has_leaf("param:2"):
                            order = "desc"
                    elif (a0.has_leaf("param:2") or a0.has_leaf("param:3")) and (a1.has_leaf("param:2") or a1.has_leaf("param:3")):
                        # the comparator orders the (number, period) tuples by something else than the period alone
                        order = "not-by-period"
            sort_bb = c.bb
        elif c.is_("alloc::slice::<impl [T]>::sort_by_key", "alloc::slice::<impl [T]>::sort_unstable_by_key", "core::slice::<impl [T]>::sort_unstable_by_key", "alloc::slice::<impl [T]>::sort_by_cached_key") and c.gbodies:
            kb = prog.body(c.gbodies[0])
            ks = origins(kb, {"l": 0, "p": []}) if kb else None
            order = "asc" if ks is not None and ("tuple", 1) in ks.fields and ("tuple", 0) not in ks.fields else "not-by-period"
            sort_bb = c.bb
        elif c.is_("alloc::slice::<impl [T]>::sort", "core::slice::<impl [T]>::sort_unstable") and \
                ("acmed::endpoint::RateLimit", "limits") in arg_origins(c, 0).fields | {("acmed::endpoint::RateLimit", "limits")}:
            order = "not-by-period"
            sort_bb = c.bb
    if order is None or order == "not-by-period":
        return order
    for c in nb.calls:
        if c.is_("core::slice::<impl [T]>::reverse") and c.bb in nb.live_blocks() and sort_bb is not None \
                and nb.dominates(sort_bb, c.bb):
            order = "desc" if order == "asc" else "asc"
    return order


def check_periods(ctx):
    """a limit's period is read with the documented period grammar (shared with C19.R5): `10ms` must not silently mean ten minutes"""
    from .c19 import check_period_grammar
    check_period_grammar(ctx)


def check_sharing(ctx):
    prog = ctx.prog
    R3 = ctx.rule("R3", "one limiter per endpoint name: tasks share Arc clones of one RwLock<Endpoint>; Endpoint/RateLimit deep clones and RwLock<Endpoint> creations only while MainEventLoop::new builds the maps")
    build = "acmed::main_event_loop::MainEventLoop::new"
    n_deep = 0
    for b in prog.user_bodies(("acmed",)):
        for c in b.calls:
            if c.bb not in b.live_blocks():
                continue
            if c.fn in ("core::clone::Clone::clone", "alloc::borrow::ToOwned::to_owned") and c.gargs:
                t = c.gargs[0]
                if t in ("acmed::endpoint::Endpoint", "acmed::endpoint::RateLimit"):
                    n_deep += 1
                    ok = b.key.startswith(build)
                    ctx.require(R3, ok, c.where(), "deep clone of %s in %s (a cloned limiter has its own, separate log)" % (t, b.key),
                                [b.key.split("::{closure")[0], "deep-clone", t])
            if c.is_("async_lock::rwlock::RwLock::new") and c.gargs and c.gargs[0] == "acmed::endpoint::Endpoint":
                ctx.require(R3, b.key.startswith(build), c.where(), "RwLock<Endpoint> created in %s" % b.key,
                            [b.key.split("::{closure")[0], "rwlock-new"])
    # (expected-zero rule outside the event-loop construction; the positive control is that Clone calls ARE seen at all in acmed)
    n_clone_seen = sum(1 for b in prog.user_bodies(("acmed",)) for c in b.calls if c.fn in ("core::clone::Clone::clone", "alloc::borrow::ToOwned::to_owned"))
    ctx.floor(R3, "Clone/ToOwned call sites examined in acmed (control for the deep-clone rule)", n_clone_seen, 50)
    # run(): the EndpointSync handed to renew_certificate is an Arc clone of self.endpoints[..]
    run = prog.async_body("acmed::main_event_loop::MainEventLoop::run")
    from .guards import body_family
    rc = [c for fb in body_family(prog, run.key) for c in fb.calls_to("acmed::main_event_loop::renew_certificate")]      # incl. closures handed to adaptors (`filter_map(..).collect()`)
    ctx.floor(R3, "renew_certificate call sites in MainEventLoop::run", len(rc), 2)
    for c in rc:
        sl = arg_origins(c, 2)
        fresh = [x for x in sl.calls if x.is_("async_lock::rwlock::RwLock::new", "alloc::sync::Arc::new")]
        from_map = ("acmed::main_event_loop::MainEventLoop", "endpoints") in sl.fields
        from_prev = sl.via_any("futures_util::stream::stream::StreamExt::next", "*Future::poll") or any(
            l.startswith("call:") for l in sl.leaves) or not from_map
        ctx.require(R3, not fresh and (from_map or from_prev), c.where(),
                    "renew_certificate receives the shared endpoint handle (from self.endpoints or handed back by the finished task), never a fresh lock",
                    ["MainEventLoop::run", "endpoint-handle"])
    # renew_certificate / request_certificate only Arc-clone
    for key in ("acmed::main_event_loop::renew_certificate::{closure#0}",):
        b = prog.must_body(key)
        for c in b.calls_to("acmed::acme_proto::request_certificate"):
            sl = arg_origins(c, 2)
            ctx.require(R3, sl.has_leaf("upvar:2") and not [x for x in sl.calls if x.is_("async_lock::rwlock::RwLock::new")],
                        c.where(), "request_certificate receives renew_certificate's own endpoint handle (Arc clone)",
                        ["renew_certificate", "endpoint-handle"])
