"""Rules about acmed::http::post / get shared by C04, C08, C09, C12."""
from ..flow import arg_origins, origins
from ..mir import CallSite, op_const, op_local, try_edges
from ..util import (agg_assigns, call_true_false_edges, polls, result_return_kinds, unreachable_without, where)

POST = "acmed::http::post"
GET = "acmed::http::get"
SEND = ("reqwest::async_impl::request::RequestBuilder::send", "reqwest::async_impl::client::Client::execute")
NEXT = "core::iter::traits::iterator::Iterator::next"


def range_loops(body):
    """`for _ in a..b` loops: list of dicts {next: CallSite, start: const|None, end: const|None, end_item: name, scc:set}"""
    out = []
    for bb, st in agg_assigns(body, "core::ops::range::Range") + agg_assigns(body, "core::ops::range::RangeInclusive"):
        rng_local = st["lhs"]["l"]
        ops = st["rv"]["ops"]
        start = op_const(ops[0]) if ops else None
        end = op_const(ops[1]) if len(ops) > 1 else None
        # the next() call whose receiver derives from this range
        for c in body.calls_to(NEXT):
            sl = arg_origins(c, 0)
            if rng_local in sl.locals:
                scc = body.scc_of(c.bb)
                out.append({"next": c, "start": start, "end": end, "range_bb": bb, "scc": set(scc or []),
                            "inclusive": st["rv"]["adt"].endswith("RangeInclusive"), "range_local": rng_local})
    return out


def bounded_loop_rule(ctx, rid, body, site_bbs, what, max_iter, const_item, key_fn):
    """every block of site_bbs (a transmission) lies in exactly one `for _ in 0..N` loop with N = const_item <= max_iter,
    one site execution per iteration, the range is created outside the loop"""
    loops = range_loops(body)
    for sbb in site_bbs:
        inl = [l for l in loops if sbb in l["scc"]]
        scc = body.scc_of(sbb)
        if scc is None:
            ctx.ok(rid, "%s @bb%d is not in any loop (single transmission)" % (what, sbb))
            continue
        if not inl:
            # the same bound written as a counter: `let mut left = N; while left > 0 { left -= 1; .. }`
            from ..loops import counted_loop, unexplained_loops
            inner = [x for x in unexplained_loops(body) if sbb in x]
            cl = counted_loop(body, inner[0]) if inner else None
            if cl is not None and cl["bound"] is not None:
                ctx.require(rid, 1 <= cl["bound"] <= max_iter, where(body, cl["test_bb"]), "%s repeats at most %s times: counted loop (bound %d)" % (what, cl["bound"], max_iter),
                            [key_fn, "loop-bound"])
                after = body.reachable_after(sbb, removed_nodes=cl["step_blocks"])
                ctx.require(rid, sbb not in after, where(body, sbb), "%s happens once per loop iteration (every cycle passes the counter step)" % what, [key_fn, "once-per-iteration"])
                continue
            ctx.fail(rid, where(body, sbb), "%s is repeated by a loop that is not a bounded `for _ in 0..N` range loop" % what,
                     [key_fn, "unbounded-loop"])
            continue
        l = inl[0]
        end = l["end"] or {}
        start = l["start"] or {}
        n = end.get("int")
        s0 = start.get("int")
        good = n is not None and s0 is not None and not l["inclusive"] and (n - s0) <= max_iter and n - s0 >= 1
        named = end.get("item") == const_item
        ctx.require(rid, good, where(body, l["range_bb"]),
                    "%s repeats at most %s times: range %s..%s%s (bound %d)" % (what, (n - s0) if good else "?", s0,
                                                                                 "=" if l["inclusive"] else "", n, max_iter),
                    [key_fn, "loop-bound"])
        if not named:
            ctx.notes.append("%s: loop bound is not the constant %s (value still checked)" % (key_fn, const_item))
        # one execution per iteration: from the site back to itself only through next()
        after = body.reachable_after(sbb, removed_nodes=[l["next"].bb])
        ctx.require(rid, sbb not in after, where(body, sbb), "%s happens once per loop iteration (every cycle passes the range's next())" % what,
                    [key_fn, "once-per-iteration"])
        # the range is not re-created inside the loop
        ctx.require(rid, l["range_bb"] not in l["scc"], where(body, l["range_bb"]), "the iteration range is created outside the loop",
                    [key_fn, "range-recreated"])


def post_structure(prog):
    """anchors inside http::post's coroutine body"""
    b = prog.async_body(POST)
    sends = b.calls_to(*SEND)
    builder = [c for c in b.calls_to("core::ops::function::Fn::call")]
    upd = b.calls_to("acmed::http::update_nonce")
    return b, sends, builder, upd


def fresh_nonce_rule(ctx, rid):
    """the nonce handed to the data builder is read from endpoint.nonce AFTER the last response refreshed it: every path from
    an update_nonce call to the next builder call passes a read of endpoint.nonce that flows into the builder's nonce argument
    (a nonce read once before the retry loop is replayed by every retransmission)"""
    from ..flow import origins
    from ..mir import op_local
    prog = ctx.prog
    ENDPOINT = "acmed::endpoint::Endpoint"
    pb, sends, builder, upd = post_structure(prog)
    for c in builder:
        tl = op_local(c.args[1])
        non_src = origins(pb, {"l": tl, "p": [{"f": 0, "tuple": True}]})
        reads = []
        for i in pb.live_blocks():
            for st in pb.blocks[i]["stmts"]:
                if st["s"] != "assign" or st["rv"]["k"] not in ("ref", "use") or st["lhs"]["l"] not in non_src.locals:
                    continue
                pl = st["rv"].get("place") or (st["rv"].get("op", {}).get("copy") or st["rv"].get("op", {}).get("move") or {"p": []})
                if any(isinstance(e, dict) and e.get("adt") == ENDPOINT and e.get("n") == "nonce" for e in pl["p"]):
                    reads.append(i)
        ctx.require(rid, bool(reads), c.where(), "the builder's nonce argument is read from endpoint.nonce", [POST, "builder-nonce"])
        for u in upd:
            after = pb.reachable_after(u.bb, removed_nodes=reads)
            ctx.require(rid, c.bb not in after, c.where(), "endpoint.nonce is re-read after each response's update_nonce before the next JWS is built (no replay of a used nonce)",
                        [POST, "nonce-read-hoisted"])


def new_nonce_source_rule(ctx, rid):
    """a nonce is fetched from the directory's newNonce URL (RFC 8555 7.2): the request made by http::new_nonce goes to
    endpoint.dir.new_nonce — a server need not attach Replay-Nonce to any other resource"""
    from ..flow import arg_origins
    prog = ctx.prog
    nb = prog.async_body("acmed::http::new_nonce")
    reqs = [c for c in nb.calls if c.bb in nb.live_blocks() and (c.name or "") in ("acmed::http::get", "acmed::http::head", "acmed::http::post") or
            (c.bb in nb.live_blocks() and (c.name or "").rsplit("::", 1)[-1] in ("get", "head") and "reqwest" in (c.name or ""))]
    ctx.floor(rid, "request made by http::new_nonce", len(reqs), 1)
    for c in reqs:
        fields = set()
        for k in range(len(c.args)):
            fields |= arg_origins(c, k).fields
        good = ("acmed::acme_proto::structs::directory::Directory", "new_nonce") in fields and ("acmed::endpoint::Endpoint", "url") not in fields
        ctx.require(rid, good, c.where(), "new_nonce requests the directory's newNonce URL (endpoint.dir.new_nonce)", ["acmed::http::new_nonce", "url-source"])


def keyed_endpoint_update_rule(ctx, rid):
    """the per-endpoint bookkeeping of an account (account URL, orders URL, key / contacts / binding fingerprints) is written for the NAMED
    endpoint only: the record comes from a lookup by the endpoint-name parameter, never from a walk over all endpoints (an account is
    registered separately with each CA: a key rolled over on one endpoint is not the key on record at the others)"""
    from ..flow import origins
    prog = ctx.prog
    ACC = "acmed::account::Account"
    for fn in ("update_key_hash", "update_contacts_hash", "update_external_account_hash", "set_account_url", "set_orders_url"):
        b = prog.body(ACC + "::" + fn)
        if b is None:
            continue
        walks = [c for c in b.calls if c.bb in b.live_blocks() and (c.name or "").rsplit("::", 1)[-1] in ("values_mut", "iter_mut", "for_each", "retain", "drain")
                 and c.args and (ACC, "endpoints") in __import__("rules.flow", fromlist=["arg_origins"]).arg_origins(c, 0).fields]
        ctx.require(rid, not walks, walks[0].where() if walks else "%s:%s" % (b.file, b.line), "Account::%s touches only the endpoint it is given (no walk over all endpoints)" % fn,
                    [ACC + "::" + fn, "all-endpoints"])
        looked = [c for c in b.calls if c.bb in b.live_blocks() and ((c.name or "").endswith("::get_endpoint_mut") or (c.name or "").rsplit("::", 1)[-1] in ("get_mut", "entry"))]
        by_name = [c for c in looked if any(__import__("rules.flow", fromlist=["arg_origins"]).arg_origins(c, k).has_leaf("param:2") for k in range(1, len(c.args)))]
        ctx.require(rid, bool(by_name), "%s:%s" % (b.file, b.line), "Account::%s looks the record up by its endpoint-name parameter" % fn, [ACC + "::" + fn, "by-name"])


def nonce_update_rule(ctx, rid):
    """once a response arrived, update_nonce(endpoint, response) runs before the status is examined, before any return and before
    the next transmission — whatever the status: a refused request has consumed its nonce too, and the server's replacement must
    reach the shared endpoint before anybody else signs with it"""
    from ..mir import try_edges
    from ..util import where
    prog = ctx.prog
    pb, sends, builder, upd = post_structure(prog)
    for s_ in sends:
        ok_e = [(t["bb"], tg) for t in try_edges(pb, [s_.dest["l"]]) if not t["adt"].endswith("Poll") for tg in t["ok"]]
        ctx.require(rid, bool(ok_e), s_.where(), "the result of send() is tested", [POST, "send-untested"])
        for (sb, tg) in ok_e:
            r = pb.reachable([tg], removed_nodes=[u.bb for u in upd])
            exits = set(pb.return_blocks()) | {s_.bb} | {c.bb for c in pb.calls_to("acmed::http::check_status")}
            hit = sorted(exits & r)
            ctx.require(rid, not hit, where(pb, hit[0]) if hit else s_.where(),
                        "once a response arrived, update_nonce(endpoint, &response) runs before the status is examined, before any return and before the next transmission",
                        [POST, "response-without-nonce-update"])
