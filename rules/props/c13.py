"""C13 — private keys and account files are created with the configured mode and owner.

Decided:
  R1 write_file sets `mode` on the very builder that creates the file, before open, from the table
     {Certificate -> fm.cert_file_mode, PrivateKey -> fm.pk_file_mode, Account -> DEFAULT_ACCOUNT_FILE_MODE}
     (table extracted by evaluating the match for each FileType variant); defaults 0o644 / 0o600 / 0o600;
  R2 set_owner: {Certificate -> (cert_file_owner, cert_file_group), PrivateKey -> (pk_file_owner, pk_file_group),
     Account -> untouched}; the owner value reaches chown's uid slot and the group value its gid slot; both the numeric
     and the by-name forms produce a value; chown's error is returned; write_file reports success only after set_owner;
  R3 wiring: both FileManager literals take each mode/owner/group/ext field from the like-named Config getter; each
     getter reads the same-named GlobalOptions field and falls back to its own default constant.
"""
from ..absint import Interp, Val, run, variant
from ..flow import arg_origins, origins
from ..mir import op_const, op_local, try_edges
from ..util import agg_assigns, deep_fields, result_return_kinds, unreachable_without, where

LEVEL = "other"
TECHNIQUE = ("table extraction by abstract interpretation of the FileType matches (mode, owner/group), typestate of the "
             "OpenOptions builder (mode before open on the same value), provenance of chown's uid/gid slots, same-name "
             "field/getter pairing for FileManager and Config")
LEVEL_TEXT = ("Decides for every file type and every configuration which mode constant/field and which owner/group fields "
              "are applied, that they are applied on the creating open(2) and on chown's matching slots, and that the values "
              "come from the like-named configuration options or the documented defaults. The process umask and chown's "
              "outcome are the kernel's.")
LEVEL_NOTE = ("Not decided: umask, whether chown succeeds, an unknown user/group name leaving the owner unchanged. Trusted: "
              "rustc MIR, extractor, tokio OpenOptions::mode, nix::unistd::chown.")

WF = "acmed::storage::write_file"
FT = "acmed::storage::FileType"
FM = "acmed::storage::FileManager"
MODE_TABLE = {"Certificate": ".cert_file_mode", "PrivateKey": ".pk_file_mode", "Account": ("const", "acmed::DEFAULT_ACCOUNT_FILE_MODE")}
OWNER_TABLE = {"Certificate": (".cert_file_owner", ".cert_file_group"), "PrivateKey": (".pk_file_owner", ".pk_file_group")}
GETTERS = {"cert_file_mode": ("get_cert_file_mode", "cert_file_mode", "acmed::DEFAULT_CERT_FILE_MODE"),
           "cert_file_owner": ("get_cert_file_user", "cert_file_user", None),
           "cert_file_group": ("get_cert_file_group", "cert_file_group", None),
           "cert_file_ext": ("get_cert_file_ext", "cert_file_ext", None),
           "pk_file_mode": ("get_pk_file_mode", "pk_file_mode", "acmed::DEFAULT_PK_FILE_MODE"),
           "pk_file_owner": ("get_pk_file_user", "pk_file_user", None),
           "pk_file_group": ("get_pk_file_group", "pk_file_group", None),
           "pk_file_ext": ("get_pk_file_ext", "pk_file_ext", None),
           "account_directory": ("get_account_dir", "accounts_directory", "acmed::DEFAULT_ACCOUNTS_DIR")}
OO = "tokio::fs::open_options::OpenOptions"


def check(ctx):
    prog = ctx.prog
    b = prog.async_body(WF)
    R1 = ctx.rule("R1", "mode is set on the creating builder before open, from {Certificate: cert_file_mode, PrivateKey: pk_file_mode, Account: DEFAULT_ACCOUNT_FILE_MODE}; defaults 0644/0600/0600")
    opens = b.calls_to(OO + "::open")
    modes = b.calls_to(OO + "::mode")
    ctx.floor(R1, "OpenOptions::open in write_file", len(opens), 1)
    # the mode reaches the file ONLY through open(2)'s creation mode, which the kernel masks with the umask: no chmod/fchmod of a
    # storage file anywhere in acmed (it would set bits the administrator's umask forbids)
    chm = [c for c in prog.all_calls_to("*::set_permissions", "*PermissionsExt::set_mode", "*::fchmod", "*::chmod", "*::fchmodat", "std::fs::set_permissions", "tokio::fs::set_permissions::set_permissions",
                                        crates=("acmed", "acme_common"), include_derive=True)]
    ctx.require(R1, not chm, chm[0].where() if chm else "%s:%s" % (b.file, b.line), "no chmod/fchmod/set_permissions on stored files (found %s)" % [c.name for c in chm], [WF, "chmod-bypasses-umask"])
    for o in opens:
        recv = arg_origins(o, 0)
        mine = [m for m in modes if arg_origins(m, 0).locals & recv.locals]
        ok, hit = unreachable_without(b, [o.bb], removed_nodes=[m.bb for m in mine])
        ctx.require(R1, bool(mine) and ok, o.where(), "every path to open() sets the mode on the same OpenOptions value (the file is never created with the default mode)", [WF, "open-without-mode"])
    # table: success-path traces for every (file exists, file type)
    from .storage_common import write_file_traces, index_of
    acct = prog.const("acmed::DEFAULT_ACCOUNT_FILE_MODE").get("int")
    traces = write_file_traces(prog)
    ctx.floor(R1, "write_file success-path traces", len(traces), 6)
    for (exists, ft), tr in sorted(traces.items()):
        ev = tr["events"]
        i_open = index_of(ev, lambda e: e[0] == "oo.open")
        modes = [e[1] for e in ev[:max(i_open, 0)] if e[0] == "oo.mode"]
        exp = MODE_TABLE[ft]
        if isinstance(exp, tuple):
            good = modes == [acct]
            txt = "%s (= %s)" % (exp[1], oct(acct) if acct is not None else "?")
        else:
            good = len(modes) == 1 and isinstance(modes[0], str) and modes[0].endswith(exp)
            txt = "fm" + exp
        ctx.require(R1, tr["kind"] == "return" and i_open >= 0 and good, "%s:%s" % (b.file, b.line),
                    "%s file (%s): mode set before open = %s (found %s)" % (ft, "rewrite" if exists else "creation", txt, modes), [WF, "mode-table", ft, "exists" if exists else "new"])
        i_w = index_of(ev, lambda e: e[0] == "write_all")
        so = [(i, e) for i, e in enumerate(ev) if e[0] == "set_owner"]
        ctx.require(R1, len(so) == 1 and so[0][0] > i_w >= 0 and ft in " ".join(so[0][1][1]), "%s:%s" % (b.file, b.line),
                    "%s file (%s): set_owner(path, %s) after the write" % (ft, "rewrite" if exists else "creation", ft), [WF, "owner-call", ft, "exists" if exists else "new"])
        # ... and before the post hooks run: a failing file-post-* hook ends write_file, the owner must already be in place by then (and
        # the hooks are told about a file that has its final owner)
        hooks_after_write = [i for i, e in enumerate(ev) if e[0] == "hook" and i > i_w >= 0]
        if so and hooks_after_write:
            ctx.require(R1, so[0][0] < min(hooks_after_write), "%s:%s" % (b.file, b.line), "%s file (%s): the owner is set before the post-%s hooks run" % (ft, "rewrite" if exists else "creation", "edit" if exists else "create"),
                        [WF, "owner-after-post-hook", ft, "exists" if exists else "new"])
    for cname, exp in (("acmed::DEFAULT_CERT_FILE_MODE", 0o644), ("acmed::DEFAULT_PK_FILE_MODE", 0o600), ("acmed::DEFAULT_ACCOUNT_FILE_MODE", 0o600)):
        v = prog.const(cname).get("int")
        ctx.require(R1, v == exp, "acmed/src/main.rs", "%s = %s (expected %s)" % (cname.rsplit("::", 1)[1], oct(v) if v is not None else v, oct(exp)), ["const", cname.rsplit("::", 1)[1]])

    R2 = ctx.rule("R2", "set_owner applies (cert owner, cert group) / (pk owner, pk group) / nothing; uid->uid slot, gid->gid slot; errors returned; success only after set_owner")
    so = prog.must_body("acmed::storage::set_owner")
    # set_owner EVALUATED over (file type) x (owner configured?) x (group configured?) x (numeric | named): chown receives Some(uid)
    # exactly when an owner is configured and Some(gid) exactly when a group is, each resolved through its own database
    from ..absint import NONE, Val, marker, ok, some, struct_val, vbool, vstr

    def so_model(numeric):
        def model(cs, args):
            n = cs.name or ""
            if cs.fn == "core::iter::traits::iterator::Iterator::all":
                return vbool(numeric)
            if n.endswith("::parse"):
                return ok(marker("RAW"))
            if n.endswith("Uid::from_raw"):
                return Val("unknown", "UID(raw)")
            if n.endswith("Gid::from_raw"):
                return Val("unknown", "GID(raw)")
            if n.endswith("User::from_name"):
                return ok(some(Val("adt", [marker("n"), marker("p"), Val("unknown", "UID(name)"), Val("unknown", "GID(of-user)")], ("nix::unistd::User", "User"))))
            if n.endswith("Group::from_name"):
                return ok(some(Val("adt", [marker("n"), marker("p"), Val("unknown", "GID(name)")], ("nix::unistd::Group", "Group"))))
            if n.endswith("unistd::chown"):
                return ok(Val("unit"))
            return None
        return model
    evaluated = True
    for ftv, pre in (("Certificate", "cert"), ("PrivateKey", "pk")):
        for u in (True, False):
            for g in (True, False):
                for numeric in (True, False):
                    fm = struct_val(prog, FM, {pre + "_file_owner": some(vstr("U")) if u else NONE, pre + "_file_group": some(vstr("G")) if g else NONE})
                    r = run(so, {1: Val("ref", fm), 2: Val("ref", marker("PATH")), 3: variant(FT, ftv)}, so_model(numeric), max_steps=20000)
                    ch = [[repr(x.deref()) for x in a] for c, a, res in r.calls if (c.name or "").endswith("unistd::chown")]
                    kind = "raw" if numeric else "name"
                    want_u = "Some[?UID(%s)]" % kind if u else "None"
                    want_g = "Some[?GID(%s)]" % kind if g else "None"
                    if not (u or g):
                        good = r.kind == "return" and all(x[1].endswith("None") and x[2].endswith("None") for x in ch)
                    else:
                        good = r.kind == "return" and len(ch) == 1 and ch[0][1].endswith(want_u) and ch[0][2].endswith(want_g) and "PATH" in ch[0][0]
                    evaluated = evaluated and r.kind == "return"
                    ctx.require(R2, good, "%s:%s" % (so.file, so.line), "%s file, owner %s, group %s (%s): chown(path, %s, %s) — found %s (run %s)"
                                % (ftv, "set" if u else "unset", "set" if g else "unset", "numeric" if numeric else "named", want_u, want_g, ch, r.kind),
                                ["set_owner", "chown-table", ftv, str(u), str(g), kind])
    for v in prog.adt_variants(FT):
        r = run(so, {3: variant(FT, v)})
        if v == "Account":
            ctx.require(R2, r.kind == "return" and not r.called("nix::unistd::chown"), "%s:%s" % (so.file, so.line), "account files are not chown-ed (owner = daemon user)", ["set_owner", "table", v])
            continue
        if evaluated:
            continue        # the 16-row table above already decides which fields feed which slot, in every shape of the code
        tup = [x for x in (r.env or {}).values() if x.k == "tuple" and len(x.v) == 2 and all(y.deref().k == "unknown" for y in x.v)]
        exp = OWNER_TABLE[v]
        good = any((t.v[0].deref().v or "").endswith(exp[0]) and (t.v[1].deref().v or "").endswith(exp[1]) for t in tup)
        ctx.require(R2, good, "%s:%s" % (so.file, so.line), "%s files take (fm%s, fm%s) (found %s)" % (v, exp[0], exp[1], tup), ["set_owner", "table", v])
    ch = so.calls_to("nix::unistd::chown")
    ctx.floor(R2, "chown call in set_owner", len(ch), 1)
    for c in ([] if evaluated else ch):
        u = arg_origins(c, 1)
        g = arg_origins(c, 2)
        uf = {f for a, f in u.fields if a == FM}
        gf = {f for a, f in g.fields if a == FM}
        ctx.require(R2, uf == {"cert_file_owner", "pk_file_owner"}, c.where(), "chown's uid derives from the *_file_owner fields only (%s)" % sorted(uf), ["set_owner", "uid-slot"])
        ctx.require(R2, gf == {"cert_file_group", "pk_file_group"}, c.where(), "chown's gid derives from the *_file_group fields only (%s)" % sorted(gf), ["set_owner", "gid-slot"])
        ctx.require(R2, u.via_any("nix::unistd::Uid::from_raw") and (u.via_any("nix::unistd::User::from_name") or any(x.is_("nix::unistd::User::from_name") for x in u.calls)),
                    c.where(), "uid may be numeric (Uid::from_raw) or a user name (User::from_name)", ["set_owner", "uid-forms"])
        ctx.require(R2, g.via_any("nix::unistd::Gid::from_raw") and (g.via_any("nix::unistd::Group::from_name") or any(x.is_("nix::unistd::Group::from_name") for x in g.calls)),
                    c.where(), "gid may be numeric (Gid::from_raw) or a group name (Group::from_name)", ["set_owner", "gid-forms"])
        p = arg_origins(c, 0)
        ctx.require(R2, p.has_leaf("param:2"), c.where(), "chown is applied to the path parameter", ["set_owner", "path"])
        # error returned
        tests = try_edges(so, [c.dest["l"]])
        okb, errb, fwd = result_return_kinds(so)
        err_targets = [tg for t in tests for tg in t["err"]]
        good = bool(err_targets) and all(not (set(okb) & so.reachable([tg])) for tg in err_targets)
        ctx.require(R2, good, c.where(), "a failing chown makes set_owner return Err", ["set_owner", "chown-error"])
    soc = b.calls_to("acmed::storage::set_owner")
    ctx.floor(R2, "set_owner call in write_file", len(soc), 1)
    okb, errb, fwd = result_return_kinds(b)
    ok_edges = []
    for c in soc:
        for t in try_edges(b, [c.dest["l"]]):
            ok_edges += [(t["bb"], tg) for tg in t["ok"]]
        a = arg_origins(c, 2)
        ctx.require(R2, a.has_leaf("upvar:1"), c.where(), "set_owner receives write_file's own file_type", [WF, "owner-file-type"])
    good, hit = unreachable_without(b, okb + fwd, removed_edges=ok_edges)
    ctx.require(R2, bool(ok_edges) and good, soc[0].where() if soc else "-", "write_file reports success only after set_owner succeeded (unix)", [WF, "owner-skipped"])
    wr = [p.bb for p in b.calls if p.fn == "core::future::future::Future::poll" and p.res and "write_all" in p.res.lower()]
    ok, hit = unreachable_without(b, [c.bb for c in soc], removed_nodes=wr)
    ctx.require(R2, ok and wr, soc[0].where() if soc else "-", "the owner is set after the content was written", [WF, "owner-before-write"])

    R3 = ctx.rule("R3", "FileManager fields come from the like-named Config getters; each getter reads the same-named global option with its own default")
    fm_wiring_rule(ctx, R3, GETTERS)


    from .c14 import merge_pairing
    R3b = ctx.rule("R3b", "when [global] tables of included files are merged, each mode/owner/group option is taken from the same-named option")
    merge_pairing(ctx, R3b, only=("cert_file_mode", "cert_file_user", "cert_file_group", "pk_file_mode", "pk_file_user", "pk_file_group"))


def discr_names(body, sbb):
    t = body.term(sbb)
    dl = op_local(t["discr"])
    for kind, bb, j, st in body.defs.get(dl, []):
        if kind == "stmt" and st["s"] == "assign" and st["rv"]["k"] == "discr":
            return {int(v[0]): v[1] for v in st["rv"].get("variants", [])}
    return {}


def fm_wiring_rule(ctx, R3, getters):
    """FileManager.<field> <- Config::<getter>() <- global.<option> (| default) for the given fields — shared with C02/C03 for the
    file-name extensions (a key file that gets the certificate's extension can end up on the certificate's path)"""
    prog = ctx.prog
    GETTERS = getters
    nb = prog.async_body("acmed::main_event_loop::MainEventLoop::new")
    lits = agg_assigns(nb, FM)
    ctx.floor(R3, "FileManager literals in MainEventLoop::new", len(lits), 2)
    for i, st in lits:
        fields = st["rv"]["fields"]
        for fname, (getter, opt, dflt) in GETTERS.items():
            sl = origins(nb, st["rv"]["ops"][fields.index(fname)])
            called = {x.name.rsplit("::", 1)[1] for x in sl.calls if x.name.startswith("acmed::config::Config::get_")}
            ctx.require(R3, called == {getter}, where(nb, i), "FileManager.%s <- cnf.%s() (found %s)" % (fname, getter, sorted(called)), ["MainEventLoop::new", "fm-field", fname])
    for fname, (getter, opt, dflt) in GETTERS.items():
        gb = prog.must_body("acmed::config::Config::" + getter)
        sl = origins(gb, {"l": 0, "p": []})
        gf = {f for a, f in deep_fields(prog, sl) if a == "acmed::config::GlobalOptions"}
        ctx.require(R3, gf == {opt}, "%s:%s" % (gb.file, gb.line), "Config::%s reads global.%s only (%s)" % (getter, opt, sorted(gf)), ["config::" + getter, "option"])
        if dflt:
            items = {c.get("item") for c in sl.consts if c.get("item")}
            ctx.require(R3, dflt in items and not {x for x in items if x and x.startswith("acmed::DEFAULT_") and x != dflt}, "%s:%s" % (gb.file, gb.line),
                        "Config::%s falls back to %s and to no other default (%s)" % (getter, dflt.rsplit("::", 1)[1], sorted(x for x in items if x)), ["config::" + getter, "default"])
        # the getter EVALUATED for the three states of the configuration: no [global] table, a [global] table without the option, the option set
        from ..absint import NONE as _N, Val as _V, marker as _m, run as _run, some as _some, struct_val as _sv
        dv = prog.const(dflt) if dflt else None
        dval = (dv.get("int", dv.get("str")) if dv else None)
        for state in ("no-global", "unset", "set"):
            g = _N if state == "no-global" else _some(_sv(prog, "acmed::config::GlobalOptions", {opt: _some(_m("OPTVAL")) if state == "set" else _N}))
            try:
                r = _run(gb, {1: _V("ref", _sv(prog, "acmed::config::Config", {"global": g}))}, None, max_steps=20000)
            except Exception:
                r = None
            rv = r.ret.deref() if r is not None and r.kind == "return" and r.ret is not None else None
            if rv is None:
                continue                                    # not evaluable: the structural rules above decide
            got = repr(rv)
            if state == "set":
                good = "OPTVAL" in got
                want = "the configured value"
            elif dflt:
                good = (rv.k in ("int", "str") and rv.v == dval) or (dflt.rsplit("::", 1)[1] in got)
                want = "%s = %r" % (dflt.rsplit("::", 1)[1], dval)
            else:
                good = (rv.k == "variant" and rv.v == "None") or "None" in got
                want = "None"
            ctx.require(R3, good, "%s:%s" % (gb.file, gb.line), "Config::%s, %s: %s (expected %s)" % (getter, {"no-global": "no [global] table", "unset": "[global] without %s" % opt, "set": "%s set" % opt}[state], got[:60], want),
                        ["config::" + getter, "evaluated", state])
