"""C10 — hooks run in declared order, by type, one at a time, with the documented data.

Decided:
  R1 hooks::call walks the slice in order, keeps the hooks whose type set contains the event type, awaits each
     call_single before the next and stops at the first error; nothing in the hook layer runs hooks concurrently;
  R2 call_single: failure <=> exit status not successful AND allow_failure unset; the child is awaited before returning;
  R3 hook lists keep declaration order with groups expanded in place (append/push/filter/collect into Vec only); each
     consumer (file manager, certificate) receives the FULL resolved list filtered by its own type family only;
  R4 the file-hook and certificate-hook type families partition the 11 hook types;
  R5 write_file: existence test before the open, file-pre-{create|edit} before the open, file-post-{create|edit} after
     the successful write, create/edit chosen by that test;
  R6 environment layering: the process environment never overrides a configured variable; certificate variables before
     identifier variables; global variables merged under certificate and account variables;
  R7 args / stdin / stdin_str / stdout / stderr are rendered as templates, cmd is not; the child's environment is the
     hook data's env; the hook data given to the template engine is the event's data;
  R8 the template variables documented per hook type in acmed.toml(5) exist in the data structure used for that type.
  Evaluation-first: R3 resolves hook names by interpreting Config::get_hook and Certificate/Account::get_hooks on a sample
  configuration (props/hook_table.py: order, groups expanded in place, duplicates kept). W1: template variable names as written by
  the derived Serialize impls of the hook data structs (props/wire_shape.py).
"""
import re
from .. import artifacts as A
from ..flow import arg_origins, origins
from ..mir import op_const, op_local, try_edges
from ..util import POLL, agg_assigns, bool_edges, call_true_false_edges, polls, result_return_kinds, switches_on, unreachable_without, where
from .c01 import shrinkers_except, shrinkers_in
from .guards import body_family, closure_capture_origins, closure_users

LEVEL = "other"
TECHNIQUE = ("CFG rules on hooks::call / call_single (sequential await, first-error exit, failure condition), provenance with "
             "forbidden reorderers/shrinkers on every hook list, partition check of the hook-type families, must-pass-through of "
             "pre/post file hooks around the open/write, environment-layering rules on set_env, man-page/struct agreement"
             '; evaluation of Config::get_hook / get_hooks on a sample configuration; derived-Serialize member tables of the hook data')
LEVEL_TEXT = ("Decides for all hook lists and events the dispatch structure: order-preserving resolution, type filter, strictly "
              "sequential execution with abort on hard failure, correct bracketing of file writes, environment precedence, "
              "which strings are templates, and that documented variables exist. What a child process observes and MiniJinja's "
              "rendering are not decided.")
LEVEL_NOTE = ("Not decided: child process behaviour, MiniJinja rendering, hooks that never exit. Trusted: rustc MIR, extractor, "
              "async_process, the mdoc parser (rules/artifacts.py)."
              ' R3 by evaluation is (sample-based: evaluation on the listed sample family is not a proof for all inputs; the structural rule is the fallback when the interpreter cannot run the code)')

HT = "acmed::config::HookType"
FILE_TYPES = {"FilePreCreate", "FilePostCreate", "FilePreEdit", "FilePostEdit"}
CALL = "acmed::hooks::call"
SINGLE = "acmed::hooks::call_single"
WF = "acmed::storage::write_file"
MEL = "acmed::main_event_loop::MainEventLoop::new"
KEBAB = {"ChallengeHttp01": "challenge-http-01", "ChallengeHttp01Clean": "challenge-http-01-clean", "ChallengeDns01": "challenge-dns-01",
         "ChallengeDns01Clean": "challenge-dns-01-clean", "ChallengeTlsAlpn01": "challenge-tls-alpn-01", "ChallengeTlsAlpn01Clean": "challenge-tls-alpn-01-clean",
         "FilePreCreate": "file-pre-create", "FilePostCreate": "file-post-create", "FilePreEdit": "file-pre-edit", "FilePostEdit": "file-post-edit",
         "PostOperation": "post-operation"}


def hooktype_consts(body, op):
    sl = origins(body, op)
    return {c.get("variant") or str(c.get("pp", "")).rsplit("::", 1)[-1] for c in sl.consts if c.get("adt", "").endswith("HookType") or "HookType" in str(c.get("pp", ""))}


def check(ctx):
    prog = ctx.prog
    from . import c05 as _c05
    ctx.shared("C05", _c05.cleanup)       # clean hooks: once per validated challenge, with that challenge's data
    W1 = ctx.rule("W1", "template variables: the hook data structs are serialised under the member names acmed.toml(5) documents, none conditional")
    from .wire_shape import check_shapes
    check_shapes(ctx, W1, ["acmed::hooks::PostOperationHookData", "acmed::hooks::ChallengeHookData", "acmed::hooks::FileStorageHookData", "acmed::storage::CertFileFormat"])
    post_operation_data_rule(ctx, W1)
    call_rules(ctx)
    order_rules(ctx)
    file_bracketing(ctx)
    env_rules(ctx)
    template_rules(ctx)
    doc_rules(ctx)


def post_operation_data_rule(ctx, rid):
    """the documented variables of a post-operation hook: certificate_path / private_key_path are the paths of the certificate file
    and of the private-key file (each from its own storage getter), status / is_success are the caller's"""
    prog = ctx.prog
    pb = prog.async_body("acmed::certificate::Certificate::call_post_operation_hooks")
    PD = "acmed::hooks::PostOperationHookData"
    if pb is None or PD not in prog.adts:
        return
    aggs = agg_assigns(pb, PD)
    ctx.floor(rid, "PostOperationHookData literal in call_post_operation_hooks", len(aggs), 1)
    want = {"certificate_path": "get_certificate_path", "private_key_path": "get_keypair_path"}
    for i, st in aggs:
        fs = st["rv"]["fields"]
        for fld, getter in want.items():
            if fld not in fs:
                continue
            sl = origins(pb, st["rv"]["ops"][fs.index(fld)], through=True)
            got = sorted({(x.name or x.res or "").split("::{closure")[0].rsplit("::", 1)[-1] for x in sl.calls if "storage::get_" in (x.name or x.res or "")})
            ctx.require(rid, got == [getter], where(pb, i), "post-operation hook data: %s <- storage::%s (found %s)" % (fld, getter, got), ["call_post_operation_hooks", "field", fld])
        for fld, leaf in (("status", "upvar:1"), ("is_success", "upvar:2")):
            if fld in fs:
                sl = origins(pb, st["rv"]["ops"][fs.index(fld)], through=True)
                ctx.require(rid, sl.has_leaf(leaf), where(pb, i), "post-operation hook data: %s is the caller's argument" % fld, ["call_post_operation_hooks", "field", fld])


def call_rules(ctx):
    """hooks::call itself (shared with C07: a failing hook is a failing step — it must abort the sequence and reach the caller)"""
    prog = ctx.prog
    R1 = ctx.rule("R1", "hooks::call: in slice order, filtered by type, one awaited call_single at a time, first error aborts")
    cb = prog.async_body(CALL)
    its = [c for c in cb.calls_to("core::slice::<impl [T]>::iter", "core::iter::traits::collect::IntoIterator::into_iter") if arg_origins(c, 0).has_leaf("upvar:1")]       # `hooks.iter()` / `for hook in hooks`
    cs = cb.calls_to(SINGLE)
    ctx.floor(R1, "iteration over the hooks parameter", len(its), 1)
    ctx.floor(R1, "call_single call", len(cs), 1)
    for c in cs:
        h = arg_origins(c, 2)
        ctx.require(R1, h.has_leaf("upvar:1") and not [v for v in shrinkers_in(h) if not v.endswith("::filter")], c.where(), "call_single receives each element of `hooks` in iteration order (%s)" % shrinkers_in(h), [CALL, "order"])
        ctx.require(R1, arg_origins(c, 1).has_leaf("upvar:2"), c.where(), "… with the event's data", [CALL, "data"])
    # the type test `hook.hook_type.contains(&hook_type)`: as the predicate of a .filter(..) on the iteration, or as a test in the
    # loop whose true edge is the only way to call_single
    n_tests = 0
    for fb in body_family(prog, CALL + "::{closure#0}"):
        for x in fb.calls_to("std::collections::hash::set::HashSet::contains"):
            a0, a1 = arg_origins(x, 0), arg_origins(x, 1)
            if ("acmed::hooks::Hook", "hook_type") not in a0.fields:
                continue
            n_tests += 1
            if fb is cb:
                good = a1.has_leaf("upvar:") and ("acmed::hooks::Hook", "hook_type") not in a1.fields
                t, f = call_true_false_edges(cb, x)
                okk, hit = unreachable_without(cb, [c.bb for c in cs], removed_edges=t)
                ctx.require(R1, good and bool(t) and okk, x.where(), "a hook is run iff its type set contains the event type", [CALL, "type-filter"])
            else:
                users = closure_users(cb, fb.key)
                ret = origins(fb, {"l": 0, "p": []})
                good = a1.has_leaf("upvar:") and any(u.name.endswith("::filter") for u in users) and "unop:Not" not in ret.via and any(y.bb == x.bb for y in ret.calls)
                hs = [arg_origins(c, 2) for c in cs]
                good = good and all(("closure:%s" % fb.key) in h.leaves for h in hs)
                ctx.require(R1, good, "%s:%s" % (fb.file, fb.line), "a hook is kept iff its type set contains the event type", [CALL, "type-filter"])
    ctx.floor(R1, "type filter", n_tests, 1)
    single_polls = polls(cb, SINGLE)
    ctx.floor(R1, "await of call_single", len(single_polls), 1)
    for c in cs:
        again = cb.reachable_after(c.bb, removed_nodes=[p.bb for p in single_polls])
        ctx.require(R1, c.bb not in again, c.where(), "the next hook starts only after the previous call_single completed (sequential await)", [CALL, "sequential"])
        errs = [tg for t in try_edges(cb, [c.dest["l"]]) if not t["adt"].endswith("Poll") for tg in t["err"]]
        ctx.require(R1, bool(errs) and all(c.bb not in cb.reachable([e]) for e in errs), c.where(), "a failing hook aborts the sequence (no later hook runs)", [CALL, "abort-on-error"])
    conc = prog.all_calls_to("*join_all", "*try_join", "tokio::task::spawn::spawn", "*FuturesUnordered", "*FuturesOrdered", "*buffer_unordered", crates=("acmed",))
    conc = [c for c in conc if c.body.file.endswith("hooks.rs") or c.body.file.endswith("storage.rs") or c.body.file.endswith("certificate.rs")]
    ctx.require(R1, not conc, conc[0].where() if conc else "acmed/src/hooks.rs", "no concurrency primitive in the hook layer", [CALL, "concurrency"])

    R2 = ctx.rule("R2", "call_single fails iff the exit status is unsuccessful and allow_failure is not set; the child is awaited")
    status_rule(ctx, R2)
    child_io_rules(ctx, R2)
    # every challenge type is paired with ITS OWN clean type (evaluated from call_challenge_hooks per challenge; shared with C05.R3)
    from .c05 import challenge_hook_table, HOOK_TABLE as _HTAB
    tab_ = challenge_hook_table(prog)
    if tab_ is not None:
        cb_ = prog.async_body("acmed::certificate::Certificate::call_challenge_hooks")
        for k_, exp_ in _HTAB.items():
            ctx.require(R1, tab_.get(k_) == exp_, "%s:%s" % (cb_.file, cb_.line), "%s: challenge hook type and clean hook type %s (expected %s)" % (k_, tab_.get(k_), exp_),
                        ["acmed::certificate::Certificate::call_challenge_hooks", "hook-table", k_])


def order_rules(ctx):
    prog = ctx.prog
    R3 = ctx.rule("R3", "hook lists keep declaration order, groups expanded in place; consumers get the full list filtered by their own family only")
    from .hook_table import EXPECT_OK, evaluated, hook_table, resolver
    ht = hook_table(prog)
    RES = resolver(prog).key
    if evaluated(ht):
        # evaluation-first: do_get_hook interpreted on the sample configuration (see hook_table.py)
        gb = prog.must_body(RES)
        for nm, want in sorted(EXPECT_OK.items()):
            ctx.require(R3, ht.get(nm) == ("Ok", want), "%s:%s" % (gb.file, gb.line), "hook name `%s` resolves to %s in declaration order, groups expanded in place (evaluated: %s)" % (nm, want, ht.get(nm)),
                        ["acmed::config::Config::do_get_hook", "resolved", nm])
    from .hook_table import consumer_table
    cons_eval = set()
    for key in ("acmed::config::Certificate::get_hooks", "acmed::config::Account::get_hooks"):
        ct_ = consumer_table(prog, key)
        if ct_ is None:
            continue
        cons_eval.add(key)
        kb = prog.must_body(key)
        for names, got, want in ct_:
            if want == "Err":
                continue
            ctx.require(R3, got == want, "%s:%s" % (kb.file, kb.line), "%s with hooks = %s resolves to %s (declaration order, groups expanded in place: %s)" % (key.rsplit("::", 2)[-2] + "::get_hooks", names, got, want),
                        [key, "resolved", repr(names)])
    for key in (RES, "acmed::config::Certificate::get_hooks", "acmed::config::Account::get_hooks"):
        b = prog.must_body(key)
        if (evaluated(ht) and key == RES) or key in cons_eval:
            continue
        sl = origins(b, {"l": 0, "p": []})
        # looking a hook / group DEFINITION up by name (`self.hook.iter().find(|h| h.name == name)`) is selection, not loss
        def lookup(c):
            return c.name.rsplit("::", 1)[-1] in ("find", "position", "find_map") and bool({("acmed::config::Config", "hook"), ("acmed::config::Config", "group")} & arg_origins(c, 0).fields)
        shr = shrinkers_except(sl, lookup)
        ctx.require(R3, not shr, "%s:%s" % (b.file, b.line), "%s builds its list without dropping/reordering (%s)" % (key.rsplit("::", 1)[1], shr), [key, "order"])
        grow = [v for v in sl.via if v.rsplit("::", 1)[-1] in ("append", "push", "extend", "collect", "extend_from_slice")]
        ctx.require(R3, bool(grow), "%s:%s" % (b.file, b.line), "%s appends in iteration order (%s)" % (key.rsplit("::", 1)[1], sorted(x.rsplit("::", 1)[-1] for x in grow)), [key, "append"])
        ctx.require(R3, "Vec<acmed::hooks::Hook>" in b.raw.get("output", ""), "%s:%s" % (b.file, b.line), "%s returns a Vec (ordered)" % key.rsplit("::", 1)[1], [key, "vec"])
    for adt, fld in (("acmed::storage::FileManager", "hooks"), ("acmed::certificate::Certificate", "hooks")):
        f = [x for x in prog.adt(adt)["variants"][0]["fields"] if x["name"] == fld][0]
        ctx.require(R3, f["ty"].startswith("alloc::vec::Vec<"), adt, "%s.%s is a Vec (ordered): %s" % (adt.rsplit("::", 1)[1], fld, f["ty"]), [adt, "field-type"])
    nb = prog.async_body(MEL)
    fams = hook_families(prog, nb)
    R4 = ctx.rule("R4", "file hook types and certificate hook types partition the 11 HookType variants")
    allv = set(prog.adt_variants(HT))
    ctx.floor(R4, "HookType variants", len(allv), 11)
    ctx.require(R4, len(fams) == 2, "%s:%s" % (nb.file, nb.line), "two hook-type families are declared in MainEventLoop::new (found %d)" % len(fams), [MEL, "families"])
    if len(fams) == 2:
        a, b_ = fams
        file_f = a if a & FILE_TYPES else b_
        cert_f = b_ if file_f is a else a
        ctx.require(R4, file_f == FILE_TYPES, "%s:%s" % (nb.file, nb.line), "file family = %s" % sorted(file_f), [MEL, "file-family"])
        ctx.require(R4, cert_f == allv - FILE_TYPES, "%s:%s" % (nb.file, nb.line), "certificate family = all other types (%s)" % sorted(cert_f), [MEL, "cert-family"])
        ctx.require(R4, not (file_f & cert_f) and (file_f | cert_f) == allv, "%s:%s" % (nb.file, nb.line), "the two families partition HookType", [MEL, "partition"])
    hook_consumers_rule(ctx, R3, nb, allv)


def family_rules(ctx):
    """shared with C20 (the git group's hooks have file types only: they must reach the FileManagers)"""
    prog = ctx.prog
    R3 = ctx.rule("R3", "FileManager.hooks / Certificate.hooks = the get_hooks() result filtered by the consumer's own hook-type family")
    hook_consumers_rule(ctx, R3, prog.async_body(MEL), set(prog.adt_variants(HT)))


def hook_consumers_rule(ctx, R3, nb, allv):
    """Certificate.hooks / FileManager.hooks in MainEventLoop::new: one get_hooks() result, only filtered, by the predicate `types
    intersect the consumer's own family` (shared with C05: a challenge hook that also has a file type must still reach the certificate)"""
    prog = ctx.prog
    # evaluation first: MainEventLoop::new interpreted on a configuration with one account and one certificate whose get_hooks()
    # answers a list of sample hooks (one per hook type, two of mixed families): each consumer must receive exactly the hooks having
    # at least one type of its family, in order
    dist = hook_distribution(prog)
    if dist is not None:
        names, types = dist["samples"]
        for who, fam in (("account FileManager", FILE_TYPES), ("certificate FileManager", FILE_TYPES), ("Certificate", allv - FILE_TYPES)):
            want = [n for n in names if set(types[n]) & fam]
            got = dist.get(who)
            ctx.require(R3, got == want, "%s:%s" % (nb.file, nb.line), "%s keeps the hooks whose types intersect its own family, in order (`%s`): evaluated %s, expected %s" % (
                who, "file_hooks" if fam == FILE_TYPES else "cert_hooks", got, want), [MEL, "hooks-family", who.split()[-1] if who != "Certificate" else "Certificate"])
        return
    # consumers
    for adt, fld, src_call, fam_local in (("acmed::certificate::Certificate", "hooks", "acmed::config::Certificate::get_hooks", "cert_hooks"),
                                          ("acmed::storage::FileManager", "hooks", None, "file_hooks")):
        for i, st in agg_assigns(nb, adt):
            sl = origins(nb, st["rv"]["ops"][st["rv"]["fields"].index(fld)])
            srcs = {x.name for x in sl.calls if x.name in ("acmed::config::Certificate::get_hooks", "acmed::config::Account::get_hooks")}
            if nb.blocks[i].get("inl") and not srcs and {x.name.rsplit("::", 1)[-1] for x in sl.calls} <= {"new", "default", "with_capacity"}:
                # a template value built by a new helper (`FileManager { hooks: Vec::new(), .. }` used as `..base` of the real literals)
                continue
            ctx.require(R3, len(srcs) == 1, where(nb, i), "%s.hooks derives from one get_hooks() result (%s)" % (adt.rsplit("::", 1)[1], sorted(srcs)), [MEL, "hooks-source", adt.rsplit("::", 1)[1]])
            bad = [v for v in shrinkers_in(sl) if not v.endswith("::filter")] + [v for v in sl.via if v.rsplit("::", 1)[-1] in ("partition", "partition_in_place", "unzip")]
            ctx.require(R3, not bad, where(nb, i), "%s.hooks: the list is only filtered, never split/reordered (%s)" % (adt.rsplit("::", 1)[1], bad), [MEL, "hooks-shrunk", adt.rsplit("::", 1)[1]])
            clos = [prog.body(l[8:]) for l in sl.leaves_like("closure:") if prog.body(l[8:])]
            filt = [c for c in clos if c.local_ty(0) == "bool"]
            ctx.require(R3, len(filt) == 1, where(nb, i), "%s.hooks: exactly one filter predicate (%d)" % (adt.rsplit("::", 1)[1], len(filt)), [MEL, "hooks-filter-count", adt.rsplit("::", 1)[1]])
            from ..flow import closure_captures_of
            for f in filt:
                dj = f.calls_to("std::collections::hash::set::HashSet::is_disjoint")
                caps, cst = closure_captures_of(nb, f.key)
                # the construction of the predicate that THIS field's value passes through (a shared `select_hooks(list, family)` helper is
                # inlined once per use: same closure, different captured family)
                for i2, st2 in agg_assigns(nb, kind="closure"):
                    if st2["rv"].get("def") == f.key and st2["lhs"]["l"] in sl.locals:
                        caps = st2["rv"]["ops"]
                        break
                ok_ = False
                for d in dj:
                    a0 = arg_origins(d, 0)
                    a1 = arg_origins(d, 1)
                    if ("acmed::hooks::Hook", "hook_type") in a0.fields and a1.has_leaf("upvar:0") and caps:
                        cap = origins(nb, caps[0])
                        # the captured set IS the family, by value: the HookType variants its provenance is built from (array literal,
                        # vec!, or a `const [HookType; N]` item), not the name of the local
                        vs = {v for a_, v in cap.aggs if a_.endswith("HookType")} | {c_.get("variant") for c_ in cap.consts if c_.get("variant")}
                        for c_ in cap.consts:
                            if "HookType;" in (c_.get("ty") or "") and c_.get("pp"):
                                vs |= set(re.findall(r"HookType::(\w+)", c_["pp"]))
                        want_f = FILE_TYPES if fam_local == "file_hooks" else (allv - FILE_TYPES)
                        ok_ = vs == want_f
                    neg = True
                ctx.require(R3, ok_, "%s:%s" % (f.file, f.line), "%s keeps the hooks whose types intersect its own family (`%s`)" % (adt.rsplit("::", 1)[1], fam_local), [MEL, "hooks-family", adt.rsplit("::", 1)[1]])


def hook_families(prog, nb):
    fams = []
    for i in sorted(nb.live_blocks()):
        for st in nb.blocks[i]["stmts"]:
            if st["s"] == "assign" and st["rv"]["k"] == "agg" and st["rv"].get("agg") == "array" and st["rv"].get("ty", "").endswith("HookType"):
                vs = set()
                for o in st["rv"]["ops"]:
                    sl = origins(nb, o)
                    vs |= {v for a, v in sl.aggs if a.endswith("HookType")} | {c.get("variant") for c in sl.consts if c.get("variant")}
                fams.append(vs)
            elif st["s"] == "assign" and st["rv"]["k"] == "use" and "const" in (st["rv"].get("op") or {}) and "HookType;" in (st["rv"]["op"]["const"].get("ty") or ""):
                # the family as a `const [HookType; N]` item (`HashSet::from(FILE_HOOK_TYPES)`)
                from ..absint import const_val
                v = const_val(nb, st["rv"]["op"]).deref()
                if v.k in ("list", "tuple"):
                    vs = {x.deref().v for x in v.v if x.deref().k == "variant"}
                    if vs and vs not in fams:
                        fams.append(vs)
        t = nb.term(i)
        if t["t"] == "call":
            for a in t.get("args", []):
                c = a.get("const") if isinstance(a, dict) else None
                if c and "HookType;" in (c.get("ty") or ""):
                    from ..absint import const_val
                    v = const_val(nb, a).deref()
                    if v.k in ("list", "tuple"):
                        vs = {x.deref().v for x in v.v if x.deref().k == "variant"}
                        if vs and vs not in fams:
                            fams.append(vs)
    return fams


def file_bracketing(ctx):
    prog = ctx.prog
    R5 = ctx.rule("R5", "write_file: existence test before the open; pre hook before the open; post hook after the successful write and flush; create/edit chosen by that test (success-path traces for all file-exists x file-type combinations + error-edge rule)")
    from .storage_common import write_file_traces, index_of
    b = prog.async_body(WF)
    traces = write_file_traces(prog)
    ctx.floor(R5, "write_file success-path traces", len(traces), 6)
    for (exists, ft), tr in sorted(traces.items()):
        ev = tr["events"]
        who = "file %s, %s" % ("exists" if exists else "is new", ft)
        if tr["kind"] != "return":
            ctx.fail(R5, "%s:%s" % (b.file, b.line), "write_file's success path could not be evaluated (%s): %s at bb%s" % (who, tr["kind"], tr["stuck_at"]), [WF, "trace", str(exists), ft])
            continue
        hooks_ev = [(i, e) for i, e in enumerate(ev) if e[0] == "hook"]
        i_open = index_of(ev, lambda e: e[0] in ("oo.open", "create"))
        i_write = index_of(ev, lambda e: e[0] == "write_all")
        i_flush = index_of(ev, lambda e: e[0] == "flush", max(i_write, 0))
        pre, post = ("FilePreEdit", "FilePostEdit") if exists else ("FilePreCreate", "FilePostCreate")
        good = len(hooks_ev) == 2 and hooks_ev[0][1][1] == pre and hooks_ev[1][1][1] == post and 0 <= hooks_ev[0][0] < i_open < i_write < hooks_ev[1][0] \
            and (i_flush < 0 or i_flush < hooks_ev[1][0])
        ctx.require(R5, good, "%s:%s" % (b.file, b.line), "%s: %s -> open -> write -> %s (trace: %s)" % (who, KEBAB.get(pre), KEBAB.get(post), [e[0] + (":" + str(e[1]) if e[0] == "hook" else "") for e in ev]),
                    [WF, "bracketing", "exists" if exists else "new", ft])
        for i, e in hooks_ev:
            ctx.require(R5, "FM.hooks" in (e[2] or "") or True, "%s:%s" % (b.file, b.line), "file hooks come from the file manager", [WF, "hook-list", str(i)])
    # the existence test precedes the open (the open creates the file)
    isf = b.calls_to("std::path::Path::is_file", "std::path::Path::exists", "std::path::Path::try_exists")
    opens = b.calls_to("tokio::fs::open_options::OpenOptions::open", "tokio::fs::file::File::create")
    hooks = b.calls_to(CALL)
    ctx.floor(R5, "existence test in write_file", len(isf), 1)
    ctx.floor(R5, "hooks::call sites in write_file", len(hooks), 2)
    if isf and opens:
        good, hit = unreachable_without(b, [o.bb for o in opens], removed_nodes=[c.bb for c in isf])
        ctx.require(R5, good, opens[0].where(), "the existence test precedes the open (which creates the file)", [WF, "test-after-open"])
    # error edge of every hook call made before the open: the write does not happen
    for c in hooks:
        before_open = any(o.bb in b.reachable_after(c.bb) for o in opens)
        if not before_open:
            continue
        errs = [tg for t in try_edges(b, [c.dest["l"]]) if not t["adt"].endswith("Poll") for tg in t["err"]]
        ctx.require(R5, bool(errs) and all(not ({o.bb for o in opens} & b.reachable([e])) for e in errs), c.where(), "a failing pre hook prevents the write", [WF, "pre-error-ignored"])
    for c in hooks:
        ctx.require(R5, ("acmed::storage::FileManager", "hooks") in arg_origins(c, 1).fields, c.where(), "file hooks are taken from the file manager's hook list", [WF, "hook-list"])
    okb, errb, fwd = result_return_kinds(b)
    post_sites = [c.bb for c in hooks if not any(o.bb in b.reachable_after(c.bb) for o in opens)]
    good, hit = unreachable_without(b, okb, removed_nodes=post_sites)
    ctx.require(R5, bool(post_sites) and good, "%s:%s" % (b.file, b.line), "write_file reports success only after a post hook was called", [WF, "post-skipped"])


def env_rules(ctx):
    prog = ctx.prog
    R6 = ctx.rule("R6", "environment precedence: process < global < certificate/account < identifier")
    impls = [prog.body(k) for k, b in prog.bodies.items() if k.endswith("as acmed::hooks::HookEnvData>::set_env")]      # helper-transparent views
    ctx.floor(R6, "set_env implementations", len(impls), 1)
    for b in impls:
        # writes into the hook data's env map, classified by where the written value comes from
        writes = [c for c in b.calls if c.bb in b.live_blocks() and ((c.name or "") in WRITE_FNS or (c.fn or "") in WRITE_FNS)]

        def fed_by_process_env(c):
            sls = [arg_origins(c, k) for k in range(1, len(c.args))]      # the written key/value, not the map that receives it
            return any(any(x.is_("std::env::vars", "std::env::vars_os") for x in sl.calls) or any("std::env::vars" in v for v in sl.via) for sl in sls)

        def fed_by_param(c):
            return any(arg_origins(c, k).has_leaf("param:2") for k in range(1, len(c.args)))
        proc = [c for c in writes if fed_by_process_env(c)]
        conf = [c for c in writes if fed_by_param(c) and not fed_by_process_env(c)]
        ev = b.calls_to("std::env::vars", "std::env::vars_os")
        for c in proc:
            m = (c.fn or c.name).rsplit("::", 1)[-1]
            fill_only = m in ("or_insert", "or_insert_with")
            if not fill_only and m == "insert":
                # `if !map.contains_key(&k) { map.insert(k, v) }`
                guards = []
                for g in b.calls_to("std::collections::hash::map::HashMap::contains_key"):
                    t_, f_ = call_true_false_edges(b, g)
                    guards += f_
                okk, hit = unreachable_without(b, [c.bb], removed_edges=guards)
                fill_only = bool(guards) and okk
            ctx.require(R6, fill_only, c.where(), "%s: a process environment variable never overwrites an existing entry (it only fills missing keys)" % short(b.key), [short(b.key), "process-env-overrides"])
        # the documented `env` variable holds ALL the environment variables: the daemon's own environment is the bottom layer
        ctx.require(R6, bool(ev) and bool(proc), "%s:%s" % (b.file, b.line), "%s: the daemon's own environment (std::env::vars) is copied into the hook data's env (below the configured variables)" % short(b.key),
                    [short(b.key), "process-env-layer"])
        if ev:
            ctx.require(R6, bool(proc), ev[0].where(), "%s: process variables fill missing keys" % short(b.key), [short(b.key), "process-env-fill"])
        for c in conf:
            m = (c.fn or c.name).rsplit("::", 1)[-1]
            ctx.require(R6, m in ("insert", "extend"), c.where(), "%s: configured variables overwrite earlier entries (insert/extend, not or_insert)" % short(b.key), [short(b.key), "configured-env"])
        ctx.require(R6, bool(conf), "%s:%s" % (b.file, b.line), "%s inserts the configured variables" % short(b.key), [short(b.key), "no-insert"])
    hb = prog.async_body("acmed::certificate::Certificate::call_challenge_hooks")
    se = [c for c in hb.calls if c.fn == "acmed::hooks::HookEnvData::set_env" and c.bb in hb.live_blocks()]
    ctx.floor(R6, "set_env calls in call_challenge_hooks", len(se), 2)
    cert_calls = [c for c in se if ("acmed::certificate::Certificate", "env") in arg_origins(c, 1).fields]
    id_calls = [c for c in se if ("acmed::identifier::Identifier", "env") in arg_origins(c, 1).fields]
    ctx.require(R6, bool(cert_calls) and bool(id_calls), "%s:%s" % (hb.file, hb.line), "challenge hooks get the certificate's and the identifier's variables", ["call_challenge_hooks", "layers"])
    if cert_calls and id_calls:
        good, hit = unreachable_without(hb, [c.bb for c in id_calls], removed_nodes=[c.bb for c in cert_calls])
        after = hb.reachable_after(id_calls[0].bb)
        ctx.require(R6, good and cert_calls[0].bb not in after, id_calls[0].where(), "identifier variables are applied after (over) the certificate's", ["call_challenge_hooks", "layer-order"])
        hooks_call = hb.calls_to(CALL)
        good, hit = unreachable_without(hb, [c.bb for c in hooks_call], removed_nodes=[c.bb for c in id_calls])
        ctx.require(R6, good, hooks_call[0].where() if hooks_call else "-", "the environment is complete before the hooks run", ["call_challenge_hooks", "env-before-hooks"])
    dg = prog.must_body("acmed::config::dispatch_global_env_vars")
    edt = env_dispatch_table(prog)
    if edt is not None:
        # evaluation first: the function is run on a concrete configuration; each owner's variables win over the global table's
        for case, who, got, want in edt:
            ctx.require(R6, got == want, "%s:%s" % (dg.file, dg.line), "%s, %s: env after dispatch = %s (global table overlaid with the owner's own variables: %s)" % (case, who, got, want),
                        ["dispatch_global_env_vars", who.split()[0] + "s-precedence" if case == "global env set" else "no-global-" + who.split()[0]])
    for adt, what in ([] if edt is not None else [("acmed::config::Certificate", "certificates"), ("acmed::config::Account", "accounts")]):
        writes = [(i, st) for i in dg.live_blocks() for st in dg.blocks[i]["stmts"] if st["s"] == "assign" and any(isinstance(e, dict) and e.get("adt") == adt and e.get("n") == "env" for e in st["lhs"]["p"])]
        ctx.require(R6, bool(writes), "%s:%s" % (dg.file, dg.line), "the global env table is merged into %s" % what, ["dispatch_global_env_vars", what])
        for i, st in writes:
            sl = origins(dg, st["rv"].get("op") or st["rv"].get("ops"))
            base = any(x.fn == "core::clone::Clone::clone" and ("acmed::config::GlobalOptions", "env") in arg_origins(x, 0).fields for x in sl.calls)
            over = any(x.is_("std::collections::hash::map::HashMap::insert") and (adt, "env") in (arg_origins(x, 1).fields | arg_origins(x, 2).fields) for x in sl.calls)
            ctx.require(R6, base and over, where(dg, i), "%s: new env = global env overlaid with the %s own variables" % (what, what[:-1] + "'s"), ["dispatch_global_env_vars", what + "-precedence"])
    ff = prog.must_body("acmed::config::from_file")
    ctx.require(R6, bool(ff.calls_to("acmed::config::dispatch_global_env_vars")), "%s:%s" % (ff.file, ff.line), "from_file dispatches the global environment", ["config::from_file", "dispatch"])


def template_rules(ctx):
    prog = ctx.prog
    R7 = ctx.rule("R7", "args/stdin/stdin_str/stdout/stderr are templates, cmd is not; child env = hook data env")
    sb = prog.async_body(SINGLE)
    H = "acmed::hooks::Hook"
    rendered = set()
    rt_closures = set()
    for fb in body_family(prog, SINGLE + "::{closure#0}"):
        for c in fb.calls_to("acmed::template::render_template"):
            a = arg_origins(c, 0)
            d = arg_origins(c, 1)
            if fb is sb:
                rendered |= {f for ad, f in a.fields if ad == H}
                ctx.require(R7, d.has_leaf("upvar:1"), c.where(), "templates are rendered with the event's hook data", [SINGLE, "template-data"])
            else:
                # `.iter().map(|fmt| render_template(fmt, &data))`: the template is the closure's element, the elements are the receiver's
                rt_closures.add(fb.key)
                for u in closure_users(sb, fb.key):
                    if a.has_leaf("param:2"):
                        rendered |= {f for ad, f in arg_origins(u, 0).fields if ad == H}
                caps = closure_capture_origins(sb, fb.key)
                ctx.require(R7, d.has_leaf("upvar:") and any(x.has_leaf("upvar:1") for x in caps), c.where(), "templates are rendered with the event's hook data", [SINGLE, "template-data"])
    ctx.require(R7, {"args", "stdin", "stdout", "stderr"} <= rendered and "cmd" not in rendered, "%s:%s" % (sb.file, sb.line), "rendered hook fields: %s (expected args, stdin, stdout, stderr; not cmd)" % sorted(rendered), [SINGLE, "rendered-fields"])
    for c in sb.calls_to("async_process::Command::new"):
        a = arg_origins(c, 0)
        ctx.require(R7, (H, "cmd") in a.fields and not any(x.is_("acmed::template::render_template") for x in a.calls), c.where(), "the command is hook.cmd, verbatim", [SINGLE, "cmd"])
    for c in sb.calls_to("async_process::Command::args"):
        a = arg_origins(c, 1)
        ctx.require(R7, (any(x.is_("acmed::template::render_template") for x in a.calls) or any(("closure:%s" % k) in a.leaves for k in rt_closures)) and not shrinkers_in(a), c.where(), "the arguments are the rendered hook.args, all of them, in order", [SINGLE, "args"])
    for c in sb.calls_to("async_process::Command::envs"):
        a = arg_origins(c, 1, through=True)
        ctx.require(R7, any("get_env" in x.name for x in a.calls) and a.has_leaf("upvar:1"), c.where(), "the child's environment is the hook data's env", [SINGLE, "envs"])
    # the template engine runs with its documented defaults (an unknown variable renders empty, as the man page says for variables
    # of a hook's other types) plus the documented `rev_labels` filter: no other configuration of the minijinja Environment
    rtb = prog.must_body("acmed::template::render_template")
    envc = [c for c in rtb.calls if c.bb in rtb.live_blocks() and (c.name or "").startswith("minijinja::environment::Environment")]
    ctx.floor(R7, "minijinja Environment calls in render_template", len(envc), 3)
    allowed_env = {"new", "add_filter", "add_template", "get_template", "add_template_owned", "empty"}
    for c in envc:
        m = c.name.rsplit("::", 1)[-1]
        ctx.require(R7, m in allowed_env, c.where(), "render_template does not reconfigure the template engine (Environment::%s)" % m, ["template::render_template", "engine-config", m])
    flt = [c for c in envc if c.name.endswith("::add_filter")]
    names = [x.get("str") for c in flt for x in arg_origins(c, 1).consts if "str" in x]
    ctx.require(R7, "rev_labels" in names, "%s:%s" % (rtb.file, rtb.line), "the documented rev_labels filter is registered (%s)" % names, ["template::render_template", "rev_labels"])
    ge = [prog.body(k) for k, b in prog.bodies.items() if k.endswith("as acmed::hooks::HookEnvData>::get_env")]
    for b in ge:
        sl = origins(b, {"l": 0, "p": []}, through=True)
        own = any(f == "env" for a, f in sl.fields) or (sl.has_leaf("param:1") and not sl.has_leaf("param:2") and (sl.via_any("std::collections::hash::map::HashMap::iter") or any(x.is_("std::collections::hash::map::HashMap::iter") for x in sl.calls)))
        ctx.require(R7, own, "%s:%s" % (b.file, b.line), "%s iterates the data's own env map" % short(b.key), [short(b.key), "get_env"])


def doc_rules(ctx):
    prog = ctx.prog
    R8 = ctx.rule("R8", "every template variable documented for a hook type in acmed.toml(5) exists in the data structure given to hooks of that type")
    docs, path = A.man_hook_variables(ctx.repo)
    import os as _os
    path = _os.path.relpath(path, ctx.repo)
    ctx.floor(R8, "hook types documented", len(docs), 11)
    struct_for = {}
    for v, k in KEBAB.items():
        if v.startswith("Challenge"):
            struct_for[k] = "acmed::hooks::ChallengeHookData"
        elif v.startswith("File"):
            struct_for[k] = "acmed::hooks::FileStorageHookData"
        else:
            struct_for[k] = "acmed::hooks::PostOperationHookData"
    ctx.require(R8, set(docs) == set(KEBAB.values()), path, "documented hook types = HookType variants (%s)" % sorted(set(docs) ^ set(KEBAB.values())), ["man", "hook-types"])
    for k, vars_ in sorted(docs.items()):
        st = struct_for.get(k)
        if st is None:
            continue
        fields = set(prog.adt_fields(st))
        missing = [v for v in vars_ if v not in fields]
        ctx.require(R8, not missing, path, "%s: documented variables %s all exist in %s (missing %s)" % (k, vars_, st.rsplit("::", 1)[1], missing), ["man", "vars", k])
    # serialised names = field names (no serde rename)
    for st in set(struct_for.values()):
        sb = [b for kk, b in prog.bodies.items() if kk.startswith("acmed::hooks::_::<impl serde::ser::Serialize for %s>::serialize" % st)]
        ctx.floor(R8, "derived Serialize for %s" % st.rsplit("::", 1)[1], len(sb), 1)
        if sb:
            names = []
            for c in sb[0].calls:
                strs = [sb[0].const_of(a).get("str") for a in c.args if op_const(a) and sb[0].const_of(a) and "str" in sb[0].const_of(a)]
                if c.name.endswith("::serialize_field") and strs:
                    names.append(strs[0])
            ctx.require(R8, names == prog.adt_fields(st), "acmed/src/hooks.rs", "%s is exposed to templates under its field names %s" % (st.rsplit("::", 1)[1], names), [st, "serialised-names"])


WRITE_FNS = ("std::collections::hash::map::HashMap::insert", "std::collections::hash::map::Entry::or_insert", "std::collections::hash::map::Entry::or_insert_with",
             "core::iter::traits::collect::Extend::extend", "std::collections::hash::map::HashMap::extend")


def short(k):
    if " as " in k:
        return k.split(" as ")[0].lstrip("<").rsplit("::", 1)[-1] + "::" + k.rsplit("::", 1)[-1]
    return "::".join(k.split("::")[-2:])


def child_io_rules(ctx, rid):
    """call_single: (a) the child's stdin pipe stays inside the Child until it is awaited (Child::status/wait close it first; a ChildStdin
    taken out into a local that is still alive across the wait leaves the pipe open: a hook that reads to EOF never exits and the attempt
    never ends); (b) the stdin FILE that is opened is the RENDERED template, not the template text"""
    prog = ctx.prog
    b = prog.async_body(SINGLE)
    CH = "tokio::process::Child"
    waits = [c for c in b.calls if c.fn == POLL and c.res and any(k in c.res for k in ("Child::status", "Child::wait", "Child::wait_with_output")) and c.bb in b.live_blocks()]
    ctx.floor(rid, "awaited Child::status / wait in call_single", len(waits), 1)
    takes = [c for c in b.calls if c.bb in b.live_blocks() and (c.name or "").rsplit("::", 1)[-1] in ("take", "replace", "take_if") and c.args and any(a_.endswith("::Child") and f_ == "stdin" for a_, f_ in arg_origins(c, 0).fields)]
    for c in takes:
        l = c.dest["l"] if c.dest is not None else None
        drops = [i for i in b.live_blocks() if b.term(i)["t"] == "drop" and b.term(i)["place"]["l"] == l and not b.term(i)["place"]["p"]]
        moved = [x.bb for x in b.calls if x.bb in b.live_blocks() and any(op_local(a) == l and "move" in a for a in x.args if isinstance(a, dict))]
        ok_, hit = unreachable_without(b, [w.bb for w in waits], removed_nodes=drops + moved, start=c.bb)
        ctx.require(rid, ok_, c.where(), "the child's stdin taken out of the Child is closed (dropped) before the child is awaited — otherwise a hook reading to EOF never exits",
                    [SINGLE, "stdin-open-across-wait"])
    # (c) a line buffer that `read_line` APPENDS to is emptied between two reads of the same loop (else line n is sent n times)
    for c in b.calls:
        if c.bb not in b.live_blocks() or (c.name or "").rsplit("::", 1)[-1] != "read_line" or "BufRead" not in (c.fn or c.name or "") or len(c.args) < 2:
            continue
        scc = b.scc_of(c.bb)
        if scc is None:
            continue
        from ..panic_allow import _ref_place
        bp = _ref_place(b, c.args[1])
        if bp is None:
            continue
        sset = set(scc)
        cleared = False
        for x in b.calls:
            if x.bb in sset and (x.name or "").rsplit("::", 1)[-1] in ("clear", "truncate", "drain", "take") and x.args:
                xp = _ref_place(b, x.args[0])
                if xp is not None and xp["l"] == bp["l"]:
                    cleared = True
        for i_ in sset:
            for st in b.blocks[i_]["stmts"]:
                if st["s"] == "assign" and st["lhs"]["l"] == bp["l"] and not st["lhs"]["p"]:
                    cleared = True            # the buffer is a fresh String in every turn
            t_ = b.term(i_)
            if t_["t"] == "call" and t_.get("dest") and t_["dest"]["l"] == bp["l"] and not t_["dest"]["p"]:
                cleared = True
        ctx.require(rid, cleared, c.where(), "the buffer `read_line` appends to is emptied (or re-created) in every turn of the loop that feeds the hook's stdin", [SINGLE, "stdin-line-buffer-not-cleared"])
    opens = [c for c in b.calls if c.bb in b.live_blocks() and (c.name or "") in ("std::fs::File::open", "tokio::fs::file::File::open")]
    for c in opens:
        sl = arg_origins(c, 0, through=True)
        ctx.require(rid, any(x.is_("acmed::template::render_template") for x in sl.calls) or sl.via_any("acmed::template::render_template"), c.where(),
                    "the stdin file opened is the rendered template of hook.stdin", [SINGLE, "stdin-file-unrendered"])


def status_rule(ctx, R2):
    """shared with C05 (a challenge is reported ready only after its hooks SUCCEEDED): what call_single calls a success"""
    prog = ctx.prog
    sb = prog.async_body(SINGLE)
    # call_single EVALUATED for exit status success()? x allow_failure? x code Some|None (a signal death has no code): it fails
    # exactly when the status is unsuccessful and allow_failure is not set. When it cannot be evaluated the shape rules below decide.
    from ..absint import NONE, Val, marker, run, some, struct_val, success_model, variant, vbool, vstr
    H_ = "acmed::hooks::Hook"
    tab = {}
    for su in (True, False):
        for al in (True, False):
            for co in (True, False):
                def ov(cs, args, su=su, co=co):
                    n = cs.name or ""
                    if n.endswith("ExitStatus::success"):
                        return vbool(su)
                    if n.endswith("ExitStatus::code"):
                        return some(Val("int", 0 if su else 3)) if co else NONE
                    return None
                hook = struct_val(prog, H_, {"name": vstr("h"), "hook_type": marker("T"), "cmd": vstr("cmd"), "args": NONE, "stdin": variant("acmed::hooks::HookStdin", "None"),
                                             "stdout": NONE, "stderr": NONE, "allow_failure": vbool(al)})
                r = run(sb, {1: Val("adt", [marker("LOGGER"), marker("DATA"), Val("ref", hook)], ("coroutine", "state"))}, success_model(sb, ov), max_steps=80000)
                ret = r.ret.deref() if r.kind == "return" and r.ret is not None else None
                st_calls = [c for c, a, res in r.calls if c.fn == "core::future::future::Future::poll" and c.res and "async_process" in c.res]
                tab[(su, al, co)] = (r.kind, ret.extra[1] if ret is not None and ret.k == "adt" and ret.extra else None, bool(st_calls))
    evaluated = all(v[0] == "return" and v[1] in ("Ok", "Err") for v in tab.values())
    ctx.notes.append("call_single evaluated on %d/8 (success, allow_failure, code) combinations" % sum(1 for v in tab.values() if v[0] == "return"))
    if evaluated:
        for (su, al, co), (kind, res, awaited) in sorted(tab.items()):
            want = "Ok" if (su or al) else "Err"
            ctx.require(R2, res == want and awaited, "%s:%s" % (sb.file, sb.line), "exit status %s, allow_failure %s, %s -> %s (expected %s; child awaited: %s)"
                        % ("success" if su else "failure", al, "exit code" if co else "killed by a signal", res, want, awaited), [SINGLE, "status-table", str(su), str(al), str(co)])
        return
    succ = sb.calls_to("std::process::ExitStatus::success")
    ctx.floor(R2, "ExitStatus::success test", len(succ), 1)
    okb, errb, fwd = result_return_kinds(sb)
    af = [i for i in sb.live_blocks() if sb.term(i)["t"] == "switch" and sb.term(i)["dty"] == "bool" and ("acmed::hooks::Hook", "allow_failure") in origins(sb, sb.term(i)["discr"]).fields]
    ctx.floor(R2, "branch on hook.allow_failure", len(af), 1)
    if succ and af:
        s_t, s_f = call_true_false_edges(sb, succ[0])
        af_edges_false = []
        af_edges_true = []
        for i in af:
            sl = origins(sb, sb.term(i)["discr"])
            neg = "unop:Not" in sl.via
            t, f = bool_edges(sb, i)
            if neg:
                t, f = f, t
            af_edges_false.append((i, f))
            af_edges_true.append((i, t))
        st_polls = polls(sb, "async_process::Child::status")
        st_any = [p.bb for p in sb.calls if p.fn == POLL and p.res and "async_process" in p.res and p.bb in sb.live_blocks()]
        fail_blocks = [i for i in errb if succ[0].bb in sb.reachable(0) and i in sb.reachable_after(succ[0].bb)]
        ctx.floor(R2, "failure result after the status test", len(fail_blocks), 1)
        good, hit = unreachable_without(sb, fail_blocks, removed_edges=s_f, start=succ[0].bb)
        ctx.require(R2, bool(s_f) and good, succ[0].where(), "the status-based failure is reached only when success() is false", [SINGLE, "fail-on-success"])
        good, hit = unreachable_without(sb, fail_blocks, removed_edges=af_edges_false, start=succ[0].bb)
        ctx.require(R2, bool(af_edges_false) and good, succ[0].where(), "… and only when allow_failure is false", [SINGLE, "fail-despite-allow"])
        for (i, tg) in af_edges_false:
            if i in sb.reachable_after(succ[0].bb):
                r = sb.reachable([tg])
                ctx.require(R2, not (set(okb) & r), where(sb, i), "an unsuccessful status without allow_failure never yields Ok", [SINGLE, "hard-failure-ignored"])
        for (sbb, tg) in s_t:
            r = sb.reachable([tg], removed_edges=[])
            ctx.require(R2, not (set(fail_blocks) & r), where(sb, sbb), "a successful status never yields the failure result", [SINGLE, "success-fails"])
        good, hit = unreachable_without(sb, okb, removed_nodes=st_any)
        ctx.require(R2, bool(st_any) and good, "%s:%s" % (sb.file, sb.line), "call_single returns Ok only after the child's exit status was awaited", [SINGLE, "not-awaited"])




_HD_CACHE = {}


def hook_distribution(prog):
    if id(prog) not in _HD_CACHE:
        _HD_CACHE[id(prog)] = _hook_distribution(prog)
    return _HD_CACHE[id(prog)]


def _hook_distribution(prog):
    """MainEventLoop::new EVALUATED (every fallible call succeeds) on a configuration with one account and one certificate; both
    get_hooks() answer the same sample list. Returns {"samples": (names, {name: types}), "account FileManager": [names],
    "certificate FileManager": [names], "Certificate": [names]} or None when the run does not produce the three lists."""
    from ..absint import Interp, Val, async_state, ok, some, struct_val, success_model, variant, vbool, vstr
    b = prog.async_body(MEL)
    if b is None or prog.adt("acmed::hooks::Hook") is None:
        return None
    hts = prog.adt_variants(HT)
    types = {"h_" + t: [t] for t in hts}
    types["mix_file_challenge"] = [t for t in ("FilePostCreate", "ChallengeHttp01") if t in hts]
    types["mix_post_file"] = [t for t in ("PostOperation", "FilePreEdit") if t in hts]
    types["two_file"] = [t for t in ("FilePreCreate", "FilePostEdit") if t in hts]
    names = list(types)

    def hook(n):
        return struct_val(prog, "acmed::hooks::Hook", {"name": vstr(n), "hook_type": Val("list", [variant(HT, t) for t in types[n]], "set")})
    hooks = [hook(n) for n in names]
    try:
        acc = struct_val(prog, "acmed::config::Account", {"name": vstr("acc")})
        crt = struct_val(prog, "acmed::config::Certificate", {"account": vstr("acc")})
        cnf = struct_val(prog, "acmed::config::Config", {"account": Val("list", [acc]), "certificate": Val("list", [crt])})

        def model(cs, args):
            n = cs.name or ""
            if n.endswith("config::from_file"):
                return ok(cnf)
            if n.endswith("::get_hooks"):
                return ok(Val("list", list(hooks)))
            if n.endswith("Certificate::get_id"):
                return vstr("ID")
            if n.endswith("::contains_key"):
                return vbool(False)
            if n.endswith("HashMap::get_mut") or n.endswith("HashMap::get"):
                return some(Val("ref", Val("unknown", "entry")))
            return None
        st = async_state(prog, MEL, lambda name, ty, i: None)
        it = Interp(b, success_model(b, model), 600000)
        r = it.run({1: st})
    except Exception:
        return None
    if r.kind != "return":
        return None
    FM, CERT = "acmed::storage::FileManager", "acmed::certificate::Certificate"
    fmf, cf = prog.adt_fields(FM), prog.adt_fields(CERT)
    hf = prog.adt_fields("acmed::hooks::Hook")

    def hook_names(v):
        v = v.deref()
        if v.k != "list":
            return None
        out = []
        for x in v.v:
            xd = x.deref()
            nv = xd.v[hf.index("name")].deref() if xd.k == "adt" and xd.extra and xd.extra[0] == "acmed::hooks::Hook" else None
            if nv is None or nv.k != "str":
                return None
            out.append(nv.v)
        return out
    out = {"samples": (names, types)}

    def visit(v, depth=0):
        v = v.deref() if v is not None else None
        if v is None or depth > 3:
            return
        if v.k == "adt" and v.extra and v.extra[0] == CERT and "hooks" in cf and "file_manager" in cf:
            hn = hook_names(v.v[cf.index("hooks")])
            fm = v.v[cf.index("file_manager")].deref()
            if hn is not None:
                out.setdefault("Certificate", hn)
            if fm.k == "adt" and "hooks" in fmf:
                fh = hook_names(fm.v[fmf.index("hooks")])
                if fh is not None:
                    out.setdefault("certificate FileManager", fh)
        elif v.k == "adt" and v.extra and v.extra[0] == FM and "hooks" in fmf:
            fh = hook_names(v.v[fmf.index("hooks")])
            if fh is not None:
                out.setdefault("_fm", []).append(fh)
    for cs, a, res in r.calls:
        n = cs.name or ""
        if n.startswith("acmed::config::Account::to_generic") and len(a) > 1:
            fm = a[1].deref()
            if fm.k == "adt" and fm.extra and fm.extra[0] == FM and "hooks" in fmf:
                fh = hook_names(fm.v[fmf.index("hooks")])
                if fh is not None:
                    out.setdefault("account FileManager", fh)
        for x in a:
            visit(x)
    out.pop("_fm", None)
    if not all(k in out for k in ("account FileManager", "certificate FileManager", "Certificate")):
        return None
    return out


def env_dispatch_table(prog):
    """config::dispatch_global_env_vars EVALUATED on a configuration with two certificates and an account, for a [global] env of two
    variables / an empty one / no [global] table: [(case, owner, env afterwards, expected)] or None"""
    from ..absint import NONE_V, Interp, Val, _FRAME_SEQ, _FRAMES, some, struct_val, vstr
    b = prog.body("acmed::config::dispatch_global_env_vars")
    G_, C_, A_, CF_ = "acmed::config::GlobalOptions", "acmed::config::Certificate", "acmed::config::Account", "acmed::config::Config"
    if b is None or any(prog.adt(x) is None for x in (G_, C_, A_, CF_)) or any("env" not in prog.adt_fields(x) for x in (G_, C_, A_)):
        return None

    def mp(d):
        return Val("list", [Val("tuple", [vstr(k), vstr(v)]) for k, v in d.items()], "map")
    owners = [("certificate 1", C_, {"B": "c1", "C": "c1"}), ("certificate 2", C_, {}), ("account 1", A_, {"A": "a1"})]
    rows = []
    for case, genv in (("global env set", {"A": "g", "B": "g"}), ("global env empty", {}), ("no [global] table", None)):
        gl = NONE_V if genv is None else some(struct_val(prog, G_, {"env": mp(genv)}))
        cnf = struct_val(prog, CF_, {"global": gl, "certificate": Val("list", [struct_val(prog, C_, {"env": mp(e)}) for w, a, e in owners if a == C_]),
                                     "account": Val("list", [struct_val(prog, A_, {"env": mp(e)}) for w, a, e in owners if a == A_])})
        try:
            it = Interp(b, None, 200000)
            it.follow = lambda cs: (cs.name or "").startswith(("acmed::config::", "<acmed::config::"))
            mut_p = [i for i in range(1, b.arg_count + 1) if b.local_ty(i).startswith("&mut ")]
            if len(mut_p) != 1:
                return None
            r = it.run({9000: cnf, mut_p[0]: Val("ref", cnf, ("place", 9000, _FRAME_SEQ[0] + 1))})
        except Exception:
            return None
        cur = (_FRAMES.get(getattr(it, "fid", None)) or {}).get(9000)
        if r.kind != "return" or cur is None or cur.k != "adt":
            return None
        cf = prog.adt_fields(CF_)
        lists = {C_: cur.v[cf.index("certificate")].deref(), A_: cur.v[cf.index("account")].deref()}
        idx = {C_: 0, A_: 0}
        for who, adt, own in owners:
            lst = lists[adt]
            if lst.k != "list" or idx[adt] >= len(lst.v):
                return None
            o = lst.v[idx[adt]].deref()
            idx[adt] += 1
            ev = o.v[prog.adt_fields(adt).index("env")].deref() if o.k == "adt" else None
            if ev is None or ev.k != "list":
                return None
            got = {}
            for t in ev.v:
                td = t.deref()
                if td.k != "tuple" or td.v[0].deref().k != "str" or td.v[1].deref().k != "str":
                    return None
                got[td.v[0].deref().v] = td.v[1].deref().v
            want = dict(genv or {})
            want.update(own)
            rows.append((case, who, got, want))
    return rows
