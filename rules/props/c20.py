"""C20 — the shipped default hooks solve and clean up challenges, run after run.

Decided over the shipped artifacts (acmed/config/default_hooks.toml, acmed.toml, man/en/acmed.toml.5) and tacd's CLI
definition extracted from its MIR:
  R1 referential integrity: unique names, group members resolve, hook types are HookType names, each challenge group
     has challenge and clean hooks of the same challenge, acmed.toml's include list resolves;
  R2 every template variable a hook uses exists for ALL the types the hook is declared for;
  R3 options passed to tacd exist in its CLI, and --listen receives `host:port` (a literal ':' between a host part and
     a port part) or `unix:<path>`;
  R4 the environment variables used by each shipped group are exactly those documented for it, with the documented
     defaults;
  R5 acquire/release pairing inside each group: every file a challenge hook creates (stdout redirection, --pid-file,
     unix socket) is removed by a clean hook of the same group through the IDENTICAL path template; a started tacd is
     killed through the same pid file, before that file is removed;
  R6 the http-01 proof is written to the documented path and contains `{{ proof }}`;
  R7 git group: init on both pre types, add and commit on both post types.
  R7 also: write_file's success-path traces show the file-pre/post-create/edit events the git group is hooked on.
"""
import os
import re

from .. import artifacts as A
from .c10 import KEBAB

LEVEL = "other"
USES_ARTIFACTS = True
TECHNIQUE = ("artifact analysis: parsed TOML hook definitions with tokenised MiniJinja templates (symbolic path identity), "
             "mdoc man-page items, tacd's clap definition recovered from MIR constants; referential-integrity, variable-scope, "
             "CLI-grammar and create/remove pairing rules")
LEVEL_TEXT = ("Decides for every setting of the documented variables (templates are compared symbolically, not on one value) that "
              "the shipped groups are well-formed, pass tacd an address it can bind, use only variables that exist, match the "
              "manual, and release every resource they acquire through the same path expression — the conditions under which a "
              "second issuance can succeed. That a CA's validation succeeds and what pkill/git do are not decided.")
LEVEL_NOTE = ("Not decided: CA validation, behaviour of mkdir/echo/rm/pkill/git/tacd processes, races between a daemonised tacd "
              "and validation. Trusted: the TOML parser, the template tokenizer (fails closed outside `path | filter(args)`), the "
              "mdoc item parser, rustc MIR for tacd's clap calls.")

HT_NAMES = set(KEBAB.values())
STRUCT_FOR = {}
for _v, _k in KEBAB.items():
    STRUCT_FOR[_k] = ("acmed::hooks::ChallengeHookData" if _v.startswith("Challenge") else
                      "acmed::hooks::FileStorageHookData" if _v.startswith("File") else "acmed::hooks::PostOperationHookData")
DOC_DEFAULTS = {"HTTP_ROOT": "'/var/www'", "TACD_PORT": "'5001'", "TACD_PID_ROOT": "'/run'", "TACD_SOCK_ROOT": "'/run'", "TACD_HOST": "identifier"}


def flat_hooks(cfg, name, seen=None):
    seen = seen or set()
    hooks = {h["name"]: h for h in cfg.get("hook", [])}
    groups = {g["name"]: g for g in cfg.get("group", [])}
    if name in hooks:
        return [hooks[name]]
    if name in groups and name not in seen:
        out = []
        for m in groups[name]["hooks"]:
            out += flat_hooks(cfg, m, seen | {name})
        return out
    return []


def arg_after(h, flag):
    args = h.get("args", []) or []
    return [args[i + 1] for i, a in enumerate(args[:-1]) if a == flag]


def check(ctx):
    prog = ctx.prog
    # tls-alpn-01 with the shipped hooks needs tacd to answer correctly for every identifier (C16) and the hooks' variables to follow
    # the documented environment precedence (C10.R6)
    from . import c10 as _c10, c16 as _c16
    ctx.shared("C16", _c16.check)
    ctx.shared("C10", _c10.env_rules)
    # "the clean hooks leave no responder behind that would block a later run" — and the next identifier of the SAME run: the clean hooks
    # run once per validated authorization, before the next one is solved (C05's cleanup rules)
    from . import c05 as _c05
    ctx.shared("C05", _c05.cleanup)
    cfg, path = A.load_default_hooks(ctx.repo)
    path = os.path.relpath(path, ctx.repo)
    hooks = cfg.get("hook", [])
    groups = cfg.get("group", [])
    R1 = ctx.rule("R1", "shipped hooks: unique names, members resolve, valid types, each challenge group has matching challenge and clean hooks, includes resolve")
    ctx.floor(R1, "shipped hooks", len(hooks), 10)
    ctx.floor(R1, "shipped groups", len(groups), 4)
    names = [h["name"] for h in hooks] + [g["name"] for g in groups]
    dup = sorted({n for n in names if names.count(n) > 1})
    ctx.require(R1, not dup, path, "hook and group names are unique (%s)" % dup, ["default_hooks", "duplicate-name"])
    for h in hooks:
        bad = [t for t in h.get("type", []) if t not in HT_NAMES]
        ctx.require(R1, not bad and h.get("type"), path, "hook %s: types %s are hook types" % (h["name"], h.get("type")), ["default_hooks", "type", h["name"]])
        ctx.require(R1, bool(h.get("cmd")), path, "hook %s has a command" % h["name"], ["default_hooks", "cmd", h["name"]])
    for g in groups:
        for m in g["hooks"]:
            ctx.require(R1, m in names and m != g["name"], path, "group %s: member %s exists" % (g["name"], m), ["default_hooks", "member", g["name"], m])
        fl = flat_hooks(cfg, g["name"])
        types = {t for h in fl for t in h["type"]}
        for ch in ("http-01", "dns-01", "tls-alpn-01"):
            c, cl = "challenge-" + ch, "challenge-" + ch + "-clean"
            if c in types or cl in types:
                ctx.require(R1, c in types and cl in types, path, "group %s solves %s and cleans it up" % (g["name"], ch), ["default_hooks", "challenge-clean-pair", g["name"]])
    main_cfg = os.path.join(ctx.repo, "acmed", "config", "acmed.toml")
    import tomllib
    mc = tomllib.load(open(main_cfg, "rb"))
    for inc in mc.get("include", []):
        ctx.require(R1, os.path.exists(os.path.join(os.path.dirname(main_cfg), inc)), os.path.relpath(main_cfg, ctx.repo), "included file %s is shipped" % inc, ["acmed.toml", "include", inc])
    docs_g, mpath = A.man_default_hooks(ctx.repo)
    mpath = os.path.relpath(mpath, ctx.repo)
    ctx.require(R1, set(docs_g) == {g["name"] for g in groups}, mpath, "documented default groups = shipped groups (%s)" % sorted(set(docs_g) ^ {g["name"] for g in groups}), ["man", "groups"])

    R2 = ctx.rule("R2", "template variables used by a hook exist for every type the hook is declared for")
    n_vars = 0
    for h in hooks:
        for role, tpl in A.hook_templates(h):
            try:
                vs = A.variables(tpl)
            except A.TemplateError as e:
                ctx.fail(R2, path, "hook %s %s: %s" % (h["name"], role, e), ["default_hooks", "template", h["name"], role])
                continue
            for pathv, filters in vs:
                n_vars += 1
                root = pathv.split(".")[0]
                for t in h["type"]:
                    fields = prog.adt_fields(STRUCT_FOR[t])
                    ctx.require(R2, root in fields, path, "hook %s (%s): `%s` exists for type %s" % (h["name"], role, pathv, t), ["default_hooks", "variable", h["name"], root, t])
                for f, a in filters:
                    ctx.require(R2, f in ("default", "rev_labels", "lower", "upper", "trim"), path, "hook %s: filter `%s` is available" % (h["name"], f), ["default_hooks", "filter", h["name"], f])
                    if f == "default" and a and not (a.startswith("'") or a.startswith('"')):
                        for t in h["type"]:
                            ctx.require(R2, a in prog.adt_fields(STRUCT_FOR[t]), path, "hook %s: default(%s) names a variable of type %s" % (h["name"], a, t), ["default_hooks", "default-var", h["name"], a])
    ctx.floor(R2, "template variables checked", n_vars, 20)

    R3 = ctx.rule("R3", "tacd is invoked with options of its CLI; --listen gets host:port or unix:path")
    cli = A.tacd_cli(prog)
    ctx.floor(R3, "tacd long options recovered from MIR", len(cli), 10)
    tacd_hooks = [h for h in hooks if h.get("cmd") == "tacd"]
    ctx.floor(R3, "shipped hooks starting tacd", len(tacd_hooks), 2)
    for h in tacd_hooks:
        args = h.get("args", [])
        i = 0
        while i < len(args):
            a = args[i]
            if a.startswith("--"):
                opt = a[2:]
                ctx.require(R3, opt in cli, path, "hook %s: tacd has an option --%s" % (h["name"], opt), ["default_hooks", "tacd-option", h["name"], opt])
                if cli.get(opt, {}).get("takes_value"):
                    ctx.require(R3, i + 1 < len(args) and not args[i + 1].startswith("--"), path, "hook %s: --%s is followed by its value" % (h["name"], opt), ["default_hooks", "tacd-value", h["name"], opt])
                    i += 1
            i += 1
        for v in arg_after(h, "--listen"):
            toks = A.tokenize(v)
            sym = A.render_symbolic(v)
            if sym.startswith("unix:"):
                ctx.require(R3, len(sym) > 5, path, "hook %s: --listen unix:<path> (%s)" % (h["name"], sym), ["default_hooks", "listen-unix", h["name"]])
            else:
                lits = [t[1] for t in toks if t[0] == "lit"]
                idx = [k for k, t in enumerate(toks) if t[0] == "lit" and ":" in t[1]]
                good = bool(idx) and 0 < idx[0] < len(toks) - 1 or any(re.match(r"^[^:]+:[^:]*$", l) or re.match(r"^[^:]*:[^:]+$", l) for l in lits)
                ctx.require(R3, good, path, "hook %s: --listen is host:port — a host part, a literal ':' and a port part (found %s); a bare port cannot be bound" % (h["name"], sym),
                            ["default_hooks", "listen-tcp", h["name"]])
        for need in ("--domain", "--acme-ext", "--pid-file", "--listen"):
            ctx.require(R3, need in args, path, "hook %s passes %s" % (h["name"], need), ["default_hooks", "tacd-needs", h["name"], need])
        dom = arg_after(h, "--domain")
        ext = arg_after(h, "--acme-ext")
        ctx.require(R3, dom and A.render_symbolic(dom[0]) == "${identifier_tls_alpn}", path, "hook %s: --domain is identifier_tls_alpn" % h["name"], ["default_hooks", "tacd-domain", h["name"]])
        ctx.require(R3, ext and A.render_symbolic(ext[0]) == "${proof}", path, "hook %s: --acme-ext is the proof" % h["name"], ["default_hooks", "tacd-ext", h["name"]])

    # the responder those hooks start must be reachable by a conforming CA: TLS 1.2 or higher (shared with C16.R2)
    from .c16 import tls_version_rule
    tls_version_rule(ctx, R3)

    R4 = ctx.rule("R4", "environment variables used by a group = those documented for it, with the documented defaults")
    for g in groups:
        used = {}
        for h in flat_hooks(cfg, g["name"]):
            for role, tpl in A.hook_templates(h):
                for pathv, filters in A.variables(tpl):
                    if pathv.startswith("env."):
                        used.setdefault(pathv[4:], set()).update(a for f, a in filters if f == "default")
        doc = set(docs_g.get(g["name"], {}).get("env", []))
        ctx.require(R4, set(used) == doc, mpath, "group %s uses %s, documents %s" % (g["name"], sorted(used), sorted(doc)), ["default_hooks", "env-vars", g["name"]])
        for var, defaults in used.items():
            if var in DOC_DEFAULTS:
                ctx.require(R4, defaults == {DOC_DEFAULTS[var]}, path, "group %s: %s defaults to %s everywhere (found %s)" % (g["name"], var, DOC_DEFAULTS[var], sorted(defaults)), ["default_hooks", "env-default", g["name"], var])
            else:
                ctx.require(R4, len(defaults) <= 1, path, "group %s: %s has one default (%s)" % (g["name"], var, sorted(defaults)), ["default_hooks", "env-default", g["name"], var])

    R5 = ctx.rule("R5", "every file a challenge hook creates is removed by a clean hook of the same group through the identical path template; kill before removing the pid file")
    n_res = 0
    for g in groups:
        fl = flat_hooks(cfg, g["name"])
        creators = [h for h in fl if any(t.startswith("challenge-") and not t.endswith("-clean") for t in h["type"])]
        cleaners = [h for h in fl if any(t.endswith("-clean") for t in h["type"])]
        removed = {}
        for pos, h in enumerate(cleaners):
            if h.get("cmd") == "rm":
                for a in h.get("args", []):
                    if not a.startswith("-"):
                        removed[A.render_symbolic(a)] = (pos, h["name"])
        killed = {}
        for pos, h in enumerate(cleaners):
            if h.get("cmd") == "pkill":
                for v in arg_after(h, "-F"):
                    killed[A.render_symbolic(v)] = (pos, h["name"])
        for h in creators:
            res = []
            if "stdout" in h:
                res.append(("stdout file", h["stdout"]))
            for v in arg_after(h, "--pid-file"):
                res.append(("pid file", v))
            for v in arg_after(h, "--listen"):
                if v.startswith("unix:"):
                    res.append(("unix socket", v[5:]))
            for kind, tpl in res:
                n_res += 1
                sym = A.render_symbolic(tpl)
                ctx.require(R5, sym in removed, path, "group %s: the %s %s created by %s is removed by a clean hook (removed: %s)" % (g["name"], kind, sym, h["name"], sorted(removed)),
                            ["default_hooks", "not-removed", g["name"], kind])
                if kind == "pid file":
                    ctx.require(R5, sym in killed, path, "group %s: tacd started by %s is killed through its pid file %s" % (g["name"], h["name"], sym), ["default_hooks", "not-killed", g["name"]])
                    if sym in killed and sym in removed:
                        ctx.require(R5, killed[sym][0] < removed[sym][0], path, "group %s: pkill runs before the pid file is removed" % g["name"], ["default_hooks", "kill-order", g["name"]])
    ctx.floor(R5, "created resources paired with a removal", n_res, 4)
    pid_file_rule(ctx, R5)
    listen_text_rule(ctx, R3)

    R6 = ctx.rule("R6", "http-01: the proof is written to <HTTP_ROOT>/<identifier>/.well-known/acme-challenge/<file_name> with content {{ proof }}")
    doc_path = [p for p in docs_g.get("http-01-echo", {}).get("paths", []) if p.startswith("{{ env.HTTP_ROOT")]
    want = A.render_symbolic(doc_path[0]).replace("${env.HTTP_ROOT}", "${env.HTTP_ROOT:-'/var/www'}") if doc_path else None
    echo = [h for h in flat_hooks(cfg, "http-01-echo") if "stdout" in h]
    ctx.require(R6, len(echo) == 1 and want is not None and A.render_symbolic(echo[0]["stdout"]) == want, path,
                "the proof file path equals the documented one (%s vs %s)" % (A.render_symbolic(echo[0]["stdout"]) if echo else None, want), ["default_hooks", "http01-path"])
    if echo:
        ctx.require(R6, [A.render_symbolic(a) for a in echo[0].get("args", [])] == ["${proof}"] and echo[0]["cmd"] == "echo" and echo[0]["type"] == ["challenge-http-01"], path,
                    "its content is the proof", ["default_hooks", "http01-content"])
        mk = [h for h in flat_hooks(cfg, "http-01-echo") if h["cmd"] == "mkdir"]
        ctx.require(R6, bool(mk) and any(A.render_symbolic(a) == os.path.dirname(want) for a in mk[0]["args"]), path, "the directory of that path is created first", ["default_hooks", "http01-mkdir"])
        order = [h["name"] for h in flat_hooks(cfg, "http-01-echo")]
        ctx.require(R6, mk and order.index(mk[0]["name"]) < order.index(echo[0]["name"]), path, "mkdir precedes echo in the group", ["default_hooks", "http01-order"])

    stdout_file_rule(ctx, R6)

    R7 = ctx.rule("R7", "git group: init before each write, add + commit after each write")
    # the git hooks have file-* types only: they reach the account / certificate FileManager through the family filter of
    # MainEventLoop::new (shared with C10.R3/R4)
    ctx.shared("C10", _c10.family_rules)
    gl = flat_hooks(cfg, "git")
    by_cmd = {}
    for h in gl:
        sub = [a for a in h.get("args", []) if a in ("init", "add", "commit")]
        if sub:
            by_cmd[sub[0]] = h
    ctx.require(R7, set(by_cmd) == {"init", "add", "commit"}, path, "git group has init, add and commit hooks (%s)" % sorted(by_cmd), ["default_hooks", "git-hooks"])
    if set(by_cmd) == {"init", "add", "commit"}:
        ctx.require(R7, set(by_cmd["init"]["type"]) == {"file-pre-create", "file-pre-edit"}, path, "git init runs before creations and edits", ["default_hooks", "git-init-types"])
        for k in ("add", "commit"):
            ctx.require(R7, set(by_cmd[k]["type"]) == {"file-post-create", "file-post-edit"}, path, "git %s runs after creations and edits" % k, ["default_hooks", "git-%s-types" % k])
        order = [h["name"] for h in gl]
        ctx.require(R7, order.index(by_cmd["add"]["name"]) < order.index(by_cmd["commit"]["name"]), path, "add precedes commit", ["default_hooks", "git-order"])
        for k in ("add", "commit"):
            ctx.require(R7, "${file_name}" in [A.render_symbolic(a) for a in by_cmd[k]["args"]] and "${file_directory}" in [A.render_symbolic(a) for a in by_cmd[k]["args"]],
                        path, "git %s operates on the written file in its directory" % k, ["default_hooks", "git-%s-file" % k])
    # ... and the daemon does run those types around every write: write_file's success-path traces (new / existing file x file type)
    # show `file-pre-X` before the open and the matching `file-post-X` after the write — the events the git group is hooked on
    from .storage_common import write_file_traces
    from .c10 import KEBAB
    traces = write_file_traces(prog)
    for (exists, ft), tr in sorted(traces.items()):
        hk = [KEBAB.get(e[1], e[1]) for e in tr["events"] if e[0] == "hook"]
        want = ["file-pre-edit", "file-post-edit"] if exists else ["file-pre-create", "file-post-create"]
        ctx.require(R7, tr["kind"] == "return" and hk == want, "acmed/src/storage.rs", "%s %s file: the daemon runs %s (so init precedes and add + commit follow the write); evaluated: %s" % ("rewritten" if exists else "new", ft, want, hk),
                    ["storage::write_file", "file-events", "exists" if exists else "new", ft])


def listen_text_rule(ctx, rid):
    """the shipped hooks pass `--listen {{ env.TACD_HOST }}:{{ env.TACD_PORT }}` — any host the socket layer understands, bracketed IPv6
    included. tacd gives that text to TcpListener::bind / UnixListener::bind as it is (minus the `unix:` prefix): it does not split or
    parse it itself"""
    from ..flow import arg_origins
    prog = ctx.prog
    sb = prog.body("tacd::openssl_server::start")
    if sb is None:
        return
    binds = [c for c in sb.calls if c.bb in sb.live_blocks() and (c.name or "").rsplit("::", 1)[-1] == "bind" and "Listener" in (c.name or "")]
    ctx.floor(rid, "listener bind sites in tacd::openssl_server::start", len(binds), 2)
    for c in binds:
        sl = arg_origins(c, 0)
        parsed = sorted(v for v in sl.via if v.rsplit("::", 1)[-1] in ("split", "rsplit", "split_once", "rsplit_once", "splitn", "rsplitn", "parse", "from_str", "to_socket_addrs", "trim_matches", "trim_start_matches", "replace"))
        ctx.require(rid, sl.has_leaf("param:1") and not parsed, c.where(), "%s receives the --listen text itself (re-parsed through %s)" % (c.name.rsplit("::", 2)[-2] + "::bind", parsed), ["tacd::openssl_server::start", "listen-text"])


def pid_file_rule(ctx, rid):
    """`pkill -F <pid file>` of the shipped clean hook must find the RESPONDER: init_server EVALUATED for foreground x pid file.
    In daemon mode the pid file is handed to Daemonize (written after the fork, by the surviving process) and never written by the
    launching process before the fork; in foreground mode the process writes its own pid."""
    from ..absint import NONE_V, Val, run, some, success_model, vbool, vstr
    prog = ctx.prog
    b = prog.body("acme_common::init_server")
    if b is None:
        ctx.fail(rid, "acme_common/src/lib.rs", "acme_common::init_server not found", ["init_server", "anchor"])
        return
    bool_p = [i for i in range(1, b.arg_count + 1) if b.local_ty(i) == "bool"]
    opt_p = [i for i in range(1, b.arg_count + 1) if b.local_ty(i).startswith("core::option::Option<&")]
    if len(bool_p) != 1 or len(opt_p) != 1:
        ctx.ok(rid, "init_server's parameters changed shape: pid-file evaluation skipped")
        return
    follow = lambda cs: (cs.name or "").startswith("acme_common::") and not (cs.name or "").endswith("write_pid_file")
    for fg in (True, False):
        for pf in (None, "/run/P"):
            try:
                r = run(b, {bool_p[0]: vbool(fg), opt_p[0]: (some(Val("ref", vstr(pf))) if pf else NONE_V)}, success_model(b, None), max_steps=40000, follow=follow)
            except Exception:
                ctx.ok(rid, "init_server not evaluable: skipped")
                return
            ev = []
            for c, a, res in r.calls:
                n = c.name or ""
                if n.endswith("Daemonize::start"):
                    ev.append(("fork",))
                elif n.endswith("Daemonize::pid_file"):
                    ev.append(("daemon-pid-file", a[1].deref().v if len(a) > 1 and a[1].deref().k == "str" else None))
                elif n.endswith("write_pid_file") or n.endswith("fs::File::create") or n.endswith("fs::write"):
                    ev.append(("write-own-pid", a[0].deref().v if a and a[0].deref().k == "str" else None))
            loc = "%s:%s" % (b.file, b.line)
            key = ["init_server", "pid-file", "foreground" if fg else "daemon", "with" if pf else "without"]
            if r.kind != "return":
                ctx.ok(rid, "init_server(foreground=%s, pid_file=%s) not evaluable (%s)" % (fg, pf, r.kind))
                continue
            forks = [i for i, e in enumerate(ev) if e[0] == "fork"]
            if fg:
                want = [("write-own-pid", pf)] if pf else []
                ctx.require(rid, ev == want, loc, "init_server(foreground, pid file %s): %s (expected %s)" % (pf, ev, want), key)
            else:
                ok_ = len(forks) == 1
                before = ev[:forks[0]] if forks else ev
                after = ev[forks[0] + 1:] if forks else []
                if pf:
                    ok_ = ok_ and (("daemon-pid-file", pf) in before or ("write-own-pid", pf) in after) and not any(e[0] == "write-own-pid" for e in before)
                else:
                    ok_ = ok_ and not [e for e in ev if e[0] != "fork"]
                ctx.require(rid, ok_, loc, "init_server(daemon mode, pid file %s): the pid file names the process that survives the fork — events %s" % (pf, ev), key)


def stdout_file_rule(ctx, rid):
    """the http-01 proof is published through a hook's `stdout` file: the file must hold THIS run's output only — created with
    File::create, or opened with truncate(true) and never append(true) (a re-run with the same token would otherwise serve the
    proof twice)"""
    from ..flow import arg_origins
    prog = ctx.prog
    from .guards import body_family
    fam = body_family(prog, "acmed::hooks::call_single::{closure#0}") if prog.body("acmed::hooks::call_single::{closure#0}") is not None else body_family(prog, "acmed::hooks::call_single")
    sites = [c for fb in fam for c in fb.calls if c.bb in fb.live_blocks() and (c.name or "").startswith("<std::process::Stdio as core::convert::From<std::fs::File>>::from")]
    if not sites:
        sites = [c for fb in fam for c in fb.calls if c.bb in fb.live_blocks() and c.fn == "core::convert::From::from" and "Stdio" in (c.name or "") and "File" in (c.name or "")]
    ctx.floor(rid, "hook output files turned into Stdio in hooks::call_single", len(sites), 2)
    for c in sites:
        sl = arg_origins(c, 0, through=True)
        names = [(x.name or "") for x in sl.calls]
        created = any(n.endswith("fs::File::create") or n.endswith("fs::file::File::create") for n in names)
        opened = [x for x in sl.calls if (x.name or "").endswith("OpenOptions::open")]
        flags = {}
        for x in sl.calls:
            m = (x.name or "").rsplit("::", 1)[-1]
            if "OpenOptions" in (x.name or "") and m in ("append", "truncate", "create_new") and len(x.args) > 1:
                cv = x.body.const_of(x.args[1])
                flags[m] = (cv or {}).get("bool", (cv or {}).get("int"))
        good = created or (bool(opened) and flags.get("truncate") in (True, 1) and flags.get("append") not in (True, 1))
        ctx.require(rid, good, c.where(), "a hook's stdout/stderr file starts empty at every run (File::create, or truncate(true) without append): %s %s" % (sorted({n.rsplit("::", 2)[-2] + "::" + n.rsplit("::", 1)[-1] for n in names if "File" in n or "OpenOptions" in n}), flags),
                    ["hooks::call_single", "output-file-not-truncated"])
