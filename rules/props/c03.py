"""C03 — the installed certificate/key pair stays consistent across any attempt.

Decided:
  R1 no fallible network operation between replacing the private key and installing its certificate: the key is
     written (storage::set_keypair, reached only through certificate::store_key_pair from request_certificate) only
     after the certificate download succeeded, and no HTTP request is reachable after it;
  R2 both files are written only once the downloaded body parsed as a certificate AND its public key was compared with
     the key pair of the CSR (the comparison may live in a callee only if that callee establishes it on every success
     path and is itself called unconditionally); receiver/argument provenance of that comparison;
  R3 the `new key` flag returned with the key pair is a per-path constant tied to where the key came from (generated
     -> true, re-read from storage -> false); a new key is stored before success is reported, a reused key is not rewritten;
  R4 error discipline: no Result carrying the repository's Error/HttpError is discarded on the renewal path (frozen
     exception: the best-effort nonce prefetch in http::post).
"""
from ..flow import arg_origins, origins
from ..mir import op_const, op_local, try_edges
from ..util import (POLL, effective_callers, flag_switches, agg_assigns, bool_edges, call_true_false_edges, polls, result_return_kinds, switches_on,
                    unreachable_without, where)

LEVEL = "other"
TECHNIQUE = ("must-pass-through on request_certificate's CFG (download success, parse success, key-match true edge before any "
             "file write; no HTTP await after the key write), callee summaries for the key-match check, constant-per-origin "
             "rule on the new-key flag, discarded-Result enumeration over the renewal call graph")
LEVEL_TEXT = ("Decides, for every fault position at once, that nothing on disk changes before a parsed certificate matching the "
              "CSR key is in hand and that no request can fail between the two writes; a fault at any earlier step leaves "
              "through an error edge before the first write. What a CA puts in the certificate is its business; a local write "
              "failure between the two files is outside the quantifier.")
LEVEL_NOTE = ("Not decided: CA behaviour, parseability of a concrete body (OpenSSL), atomicity against local I/O faults between "
              "the key and certificate writes. Trusted: rustc MIR, extractor, openssl PKey::public_eq.")

RC = "acmed::acme_proto::request_certificate"
GETC = "acmed::acme_proto::http::get_certificate"
STORE = "acmed::acme_proto::certificate::store_key_pair"
SETK = "acmed::storage::set_keypair"
WRC = "acmed::storage::write_certificate"
HPK = "acme_common::crypto::openssl_certificate::X509Certificate::has_public_key_of"
FROMPEM = "acme_common::crypto::openssl_certificate::X509Certificate::from_pem"
GKP = "acmed::acme_proto::certificate::get_key_pair"


def ok_edges_of(body, call):
    out = []
    for t in try_edges(body, [call.dest["l"]]):
        if not t["adt"].endswith("Poll"):
            out += [(t["bb"], tg) for tg in t["ok"]]
    return out


def ensures_key_match(prog, key):
    """callee summary: every Ok return of the body is reached only through the true edge of has_public_key_of"""
    b = prog.body(key)
    if b is None:
        return False
    hp = b.calls_to(HPK)
    if not hp:
        return False
    edges = []
    for c in hp:
        t, f = call_true_false_edges(b, c)
        edges += t
    okb, errb, fwd = result_return_kinds(b)
    good, hit = unreachable_without(b, okb + fwd, removed_edges=edges)
    return bool(edges) and good


def check(ctx):
    prog = ctx.prog
    # the pair on disk is what was written: each of the two files is rewritten whole and flushed before success is reported (write_file's
    # success-path traces, shared with C02.R1)
    from .storage_common import durable_write_rule
    durable_write_rule(ctx, ctx.rule("D1", "[shared with C02] key and certificate files are opened with truncate/create_new, written and flushed"), ("PrivateKey", "Certificate"))
    # "a failed attempt leaves the installed pair untouched": nothing outside write_file creates, renames or removes files (C02.R4)
    from . import c02 as _c02
    ctx.shared("C02", _c02.writers_rule)
    b = prog.async_body(RC)
    R1 = ctx.rule("R1", "the private key is written only after the download succeeded and no HTTP request follows it before the certificate is written")
    gets = b.calls_to(GETC)
    stores = b.calls_to(STORE, SETK)
    writes = b.calls_to(WRC)
    ctx.floor(R1, "get_certificate call", len(gets), 1)
    ctx.floor(R1, "key store call in request_certificate", len(stores), 1)
    ctx.floor(R1, "write_certificate call", len(writes), 1)
    dl_ok = [e for c in gets for e in ok_edges_of(b, c)]
    for c in stores + writes:
        good, hit = unreachable_without(b, [c.bb], removed_edges=dl_ok)
        ctx.require(R1, bool(dl_ok) and good, c.where(), "%s is reached only on the success edge of the certificate download" % c.name.rsplit("::", 1)[1],
                    [RC, "write-before-download", c.name.rsplit("::", 1)[1]])
    http_polls = [p for p in b.calls if p.fn == POLL and p.res and (p.res.startswith("acmed::acme_proto::http::") or p.res.startswith("acmed::http::")
                                                                      or p.res.startswith("acmed::account::Account::"))]
    ctx.floor(R1, "HTTP awaits in request_certificate", len(http_polls), 8)
    for c in stores:
        after = b.reachable_after(c.bb)
        bad = [p for p in http_polls if p.bb in after]
        ctx.require(R1, not bad, bad[0].where() if bad else c.where(), "no network request can run (and fail) after the new key was written", [RC, "network-after-key-write"])
        # the certificate write follows the key write on its success path
        oke = ok_edges_of(b, c)
        okb, errb, fwd = result_return_kinds(b)
        for (sb, tg) in oke:
            r = b.reachable([tg], removed_nodes=[w.bb for w in writes])
            ctx.require(R1, not (set(okb) & r), c.where(), "after the key write the only way to success is through write_certificate", [RC, "key-without-certificate"])
    # who may write the key
    callers = effective_callers(prog, SETK)
    # the key file has one writer: request_certificate, directly or through its storing helper (store_key_pair today)
    ctx.require(R1, callers <= {STORE, RC}, "acmed/src/storage.rs", "storage::set_keypair is called only from request_certificate, through certificate::store_key_pair (%s)" % sorted(callers), [SETK, "callers"])
    if prog.body(STORE) is not None:
        callers = effective_callers(prog, STORE)
        ctx.require(R1, callers <= {RC}, "acmed/src/acme_proto/certificate.rs", "store_key_pair is called only by request_certificate (%s)" % sorted(callers), [STORE, "callers"])

    R2 = ctx.rule("R2", "certificate and key are written only after the body parsed (from_pem Ok) and its public key matched the CSR key (has_public_key_of true)")
    from .request_model import key_rule as _key_rule, request_traces as _rtr
    if _rtr(prog) is not None:
        _key_rule(ctx, R2, _rtr(prog))
    # what is validated is the WHOLE answer: ValidHttpResponse.body is response.text() — a body assembled chunk by chunk with the
    # transport error swallowed would let a truncated chain through (its leaf still parses and matches); shared with C02.R3
    fr_ = prog.async_body("acmed::http::ValidHttpResponse::from_response")
    for i_, st_ in agg_assigns(fr_, "acmed::http::ValidHttpResponse"):
        sl_ = origins(fr_, st_["rv"]["ops"][st_["rv"]["fields"].index("body")])
        ctx.require(R2, any("Response::text" in (x.name or "") or "text::{closure" in (x.name or "") for x in sl_.calls), where(fr_, i_),
                    "ValidHttpResponse.body = response.text() (the complete body or an error)", ["from_response", "body-text"])
    # has_public_key_of IS the comparison of the certificate's public key with the key pair's: evaluated with the comparison answered
    # true / false (kind and size of the two keys being equal), it returns exactly that answer
    hb_ = prog.body(HPK)
    if hb_ is not None:
        from ..absint import Val as _V, marker as _mk, ok as _ok, run as _run, struct_val as _sv, vbool as _vb, vint as _vi
        for eq_ in (True, False):
            def m_(cs, args, eq_=eq_):
                n = cs.name or ""
                if n.endswith("::public_eq"):
                    return _vb(eq_)
                if n.endswith("::public_key"):
                    return _ok(_mk("CERTKEY"))
                if n.endswith("::id"):
                    return _vi(408)
                if n.endswith(("::bits", "::size", "::security_bits")):
                    return _vi(256)
                return None
            try:
                r_ = _run(hb_, {1: _V("ref", _mk("CERT")), 2: _V("ref", _sv(prog, "acme_common::crypto::openssl_keys::KeyPair", {"inner_key": _mk("KEY")}))}, m_, max_steps=20000)
            except Exception:
                r_ = None
            rv_ = r_.ret.deref() if r_ is not None and r_.kind == "return" and r_.ret is not None else None
            if rv_ is None or rv_.k != "adt" or not rv_.extra or rv_.extra[1] != "Ok" or not rv_.v or rv_.v[0].deref().k != "bool":
                continue
            ctx.require(R2, rv_.v[0].deref().v == eq_, "%s:%s" % (hb_.file, hb_.line), "has_public_key_of answers %s when the public keys compare %s (same key type and size)" % (rv_.v[0].deref().v, "equal" if eq_ else "different"),
                        [HPK, "evaluated", str(eq_)])
    fp = b.calls_to(FROMPEM)
    ctx.floor(R2, "X509Certificate::from_pem on the downloaded body", len(fp), 1)
    fp_ok = [e for c in fp for e in ok_edges_of(b, c)]
    for c in fp:
        sl = arg_origins(c, 0)
        ctx.require(R2, any(x.is_or_polls(GETC) for x in sl.calls), c.where(), "the parsed bytes are the downloaded body", [RC, "parse-what"])
    for c in stores + writes:
        good, hit = unreachable_without(b, [c.bb], removed_edges=fp_ok)
        ctx.require(R2, bool(fp_ok) and good, c.where(), "%s only after the body parsed as a certificate" % c.name.rsplit("::", 1)[1], [RC, "write-unparsed", c.name.rsplit("::", 1)[1]])
    est = []
    direct = b.calls_to(HPK)
    for c in direct:
        t, f = call_true_false_edges(b, c)
        # the Result<bool> goes through `?` first
        if not t:
            for te in try_edges(b, [c.dest["l"]]):
                pass
        est += t
        recv = arg_origins(c, 0)
        arg = arg_origins(c, 1)
        ctx.require(R2, any(x.is_(FROMPEM) for x in recv.calls), c.where(), "the compared certificate is the parsed download", [RC, "match-receiver"])
        from .request_model import request_traces as _rt
        if _rt(prog) is None:             # otherwise decided by value in R3 (`same-key`: the key compared is the key that signed the CSR)
            ctx.require(R2, any(x.is_or_polls(GKP) for x in arg.calls), c.where(), "it is compared with the key pair obtained for this CSR (get_key_pair)", [RC, "match-key"])
        else:
            csr_keys = [arg_origins(x, 0) for x in b.calls_to("acme_common::crypto::openssl_certificate::Csr::new")]
            ctx.require(R2, any(k_.locals & arg.locals for k_ in csr_keys), c.where(), "it is compared with the key pair that signed this attempt's CSR", [RC, "match-key"])
    if not direct:
        # look for callees that establish the match on every success path
        for p in b.calls:
            if p.fn == POLL and p.res and p.bb in b.live_blocks():
                fn_key = p.res.replace("::{closure#0}", "")
                if ensures_key_match(prog, p.res):
                    for cr in b.calls_to(fn_key):
                        est += ok_edges_of(b, cr)
    if direct and not est:
        # has_public_key_of returns Result<bool>: true edge after `?`
        for c in direct:
            carried = [tg for t in try_edges(b, [c.dest["l"]]) for tg in t["ok"]]
            # find the bool switch following
            for i in b.live_blocks():
                tt = b.term(i)
                if tt["t"] == "switch" and tt["dty"] == "bool":
                    sl = origins(b, tt["discr"])
                    if any(x.bb == c.bb for x in sl.calls):
                        t_, f_ = bool_edges(b, i)
                        neg = "unop:Not" in sl.via
                        est.append((i, f_ if neg else t_))
    from .request_model import request_traces as _rt1
    for c in ([] if _rt1(prog) is not None else stores + writes):          # decided by value in R3 (refused-download scenarios write nothing)
        if ensures_key_match(prog, (c.res or c.fn) + "::{closure#0}"):
            ctx.ok(R2, "%s establishes the key match itself before writing" % c.name.rsplit("::", 1)[1])
            continue
        good, hit = unreachable_without(b, [c.bb], removed_edges=est)
        ctx.require(R2, bool(est) and good, c.where(),
                    "%s only when the certificate's public key equals the CSR key (on every path, also when the key is reused)" % c.name.rsplit("::", 1)[1],
                    [RC, "write-unmatched", c.name.rsplit("::", 1)[1]])
    hb = prog.must_body(HPK)
    ctx.require(R2, bool(hb.calls_to("openssl::pkey::PKeyRef::public_eq")) and bool(hb.calls_to("openssl::x509::X509Ref::public_key")), "%s:%s" % (hb.file, hb.line),
                "has_public_key_of = leaf certificate public_key().public_eq(key_pair.inner_key)", [HPK, "definition"])

    new_key_flag_rule(ctx, ctx.rule("R3", "the new-key flag is a per-path constant tied to the key's origin; new keys are stored before success, reused keys are not rewritten"))

    csr_key_origin_rule(ctx, ctx.rule("R7", "the CSR key has one origin, get_key_pair, whose new-key flag decides the key write: a key produced anywhere else on the way to the CSR (a retry with a fresh key) needs a flag that can change with it"))

    parser_input_rule(ctx, ctx.rule("R8", "the bytes validated are the bytes stored: X509Certificate::from_pem hands its argument to the OpenSSL parser unchanged (a lenient pre-processing would accept a body the stored file's readers reject)"))

    R5 = ctx.rule("R5", "a rewritten certificate/key file holds the new content only: opened with truncate(true)|create_new(true), never append (shared with C02.R1) — a longer old chain must not leave a tail that makes the file unparsable")
    from .c02 import open_rule
    open_rule(ctx, R5)

    R6 = ctx.rule("R6", "the key and the certificate are stored at different paths (per-type extension wiring; shared with C02.R5/C13.R3)")
    from .storage_common import file_identity_rules
    file_identity_rules(ctx, R6)

    no_discarded_results(ctx)


CSRNEW = "acme_common::crypto::openssl_certificate::Csr::new"
KEY_SOURCES = ("acme_common::crypto::openssl_keys::gen_keypair", "acme_common::crypto::openssl_keys::KeyPair::from_pem",
               "acme_common::crypto::openssl_keys::KeyPair::from_der", "acmed::storage::get_keypair", "acmed::acme_proto::certificate::read_key_pair")


def csr_key_origin_rule(ctx, R7):
    """The flag tested before the key write (R3) describes the key get_key_pair returned. When request_certificate lets a key of
    another origin reach Csr::new (generated or re-read a second time, e.g. a retry after badPublicKey), a flag whose only
    origin is get_key_pair's result no longer says whether THAT key is on disk: the certificate would be installed beside
    the old key. Accepted: one origin (today), or a tested flag that has a second origin of its own (assigned where the
    key is replaced)."""
    prog = ctx.prog
    b = prog.async_body(RC)
    csrs = b.calls_to(CSRNEW)
    ctx.floor(R7, "Csr::new call in request_certificate", len(csrs), 1)
    for c in csrs:
        a = arg_origins(c, 0)
        if not any(x.is_or_polls(GKP) for x in a.calls):
            # get_key_pair was restructured away (its code inlined or replaced): the key/flag pairing is then R3's business (evaluated
            # request traces); this rule speaks only about a SECOND origin beside get_key_pair
            ctx.notes.append("C03.R7 not instantiated: get_key_pair is not on the provenance of the CSR key in this tree (R3 decides the key/flag pairing)")
            continue
        ctx.require(R7, True, c.where(), "the CSR is built with the key pair get_key_pair returned", [RC, "csr-key-from-get_key_pair"])
        others = sorted({x.name for x in a.calls if any(x.is_or_polls(k) for k in KEY_SOURCES)})
        if not others:
            continue
        def is_flag(sl):
            return any(x.is_or_polls(GKP) for x in sl.calls) and ("tuple", 1) in sl.fields and ("tuple", 0) not in sl.fields
        def is_pure_flag(sl):
            return is_flag(sl) and not sl.consts
        t_all, _ = flag_switches(b, is_flag)
        t_pure, _ = flag_switches(b, is_pure_flag)
        stores = b.calls_to(STORE, SETK)
        # the store must stay guarded when only the flags that can follow the replaced key are counted
        guarded, _hit = unreachable_without(b, [s.bb for s in stores], removed_edges=[e for e in t_all if e not in t_pure])
        ctx.require(R7, bool(stores) and guarded and len(t_all) > len(t_pure), c.where(),
                    "the CSR key can also come from %s, but the key write is decided by get_key_pair's flag alone: a certificate for the replacement key would be installed beside the old key file" % ", ".join(o.rsplit("::", 1)[1] for o in others),
                    [RC, "csr-key-second-origin"])


IDENTITY_CALLS = ("as_ref", "as_bytes", "as_slice", "deref", "borrow", "to_vec", "to_owned", "clone", "into", "from", "as_str", "to_string", "into_bytes", "as_mut")


def parser_input_rule(ctx, R8):
    """request_certificate validates the download with from_pem and stores the RAW body (C02.R3). The two agree only when
    from_pem parses what it was given: every call on the provenance of the OpenSSL parser's argument must be an identity
    view/copy of the parameter (as_ref, to_vec, ...). A trimming/re-joining/lossy-decoding step means a body can be accepted
    that is not what gets written."""
    prog = ctx.prog
    b = prog.body(FROMPEM)
    if b is None:
        ctx.fail(R8, "acme_common/src/crypto/openssl_certificate.rs", "X509Certificate::from_pem not found", [FROMPEM, "missing"])
        return
    ps = [c for c in b.calls if c.name and c.name.startswith("openssl::x509::X509::") and c.name.rsplit("::", 1)[1] in ("from_pem", "stack_from_pem", "from_der")]
    ctx.floor(R8, "OpenSSL certificate parser call in X509Certificate::from_pem", len(ps), 1)
    for c in ps:
        sl = arg_origins(c, 0)
        ctx.require(R8, sl.has_leaf("param:1"), c.where(), "the OpenSSL parser receives from_pem's argument", [FROMPEM, "parser-input-not-argument"])
        odd = sorted({(x.name or x.fn or "?") for x in sl.calls if (x.name or x.fn or "?").rsplit("::", 1)[-1].split("<")[0] not in IDENTITY_CALLS})
        ctx.require(R8, not odd, c.where(), "the parsed bytes are the argument itself, not a transformed copy%s" % ((" (through %s)" % ", ".join(odd[:4])) if odd else ""),
                    [FROMPEM, "parser-input-transformed"])


def no_discarded_results(ctx):
    """shared with C07 / C08: an error that is dropped is a failure taken for success"""
    prog = ctx.prog
    R4 = ctx.rule("R4", "no Result<_, Error|HttpError> is discarded on the renewal path (exception: best-effort nonce prefetch in http::post)")
    reach = prog.reach([RC + "::{closure#0}"])
    n = 0
    for k in sorted(reach):
        if prog.absorbed(k):
            continue   # new helper, examined inside its callers' inlined views
        body = prog.body(k)
        if body.crate != "acmed":
            continue
        for l, what in discarded_results(body):
            n += 1
            allowed = k == "acmed::http::post::{closure#0}" and "HttpError" in body.local_ty(l) and discarded_is_new_nonce(body, l)
            if allowed:
                ctx.ok(R4, "allowed: `let _ = new_nonce(endpoint).await` in http::post (a missing nonce is answered with badNonce and retried)")
            else:
                ctx.fail(R4, "%s:%s" % (body.file, body.line), "a %s produced in %s is dropped without being examined: a fault is swallowed" % (body.local_ty(l)[:80], k),
                         [k.split("::{closure")[0], "discarded-result", what])
    ctx.floor(R4, "discarded results seen (the allowed one at least)", n, 1)


def new_key_flag_rule(ctx, R3):
    prog = ctx.prog
    b = prog.async_body(RC)
    # evaluation-first (props/request_model.py): request_certificate interpreted for kp_reuse x stored key readable x download outcome
    from .request_model import request_traces, store_rule
    rtr = request_traces(prog)
    if rtr is not None:
        store_rule(ctx, R3, rtr)
        return
    gk = prog.async_body(GKP)
    tuples = []
    for i in sorted(gk.live_blocks()):
        for st in gk.blocks[i]["stmts"]:
            if st["s"] == "assign" and st["rv"]["k"] == "agg" and st["rv"].get("agg") == "tuple" and len(st["rv"]["ops"]) == 2:
                t0 = gk.local_ty(op_local(st["rv"]["ops"][0])) if op_local(st["rv"]["ops"][0]) is not None else ""
                if "KeyPair" in t0:
                    tuples.append((i, st))
    ctx.floor(R3, "(KeyPair, bool) results in get_key_pair", len(tuples), 2)
    for i, st in tuples:
        flag = op_const(st["rv"]["ops"][1])
        src = origins(gk, st["rv"]["ops"][0])
        gen = any(x.is_("acme_common::crypto::openssl_keys::gen_keypair") for x in src.calls)
        read = any(x.is_or_polls("acmed::acme_proto::certificate::read_key_pair", "acmed::storage::get_keypair") for x in src.calls)
        if flag is None or "bool" not in flag:
            ctx.fail(R3, where(gk, i), "the new-key flag returned by get_key_pair is computed, not a constant of the path that produced the key: it can disagree with what happened",
                     [GKP, "flag-not-constant"])
            continue
        good = (flag["bool"] is True and gen and not read) or (flag["bool"] is False and read and not gen)
        ctx.require(R3, good, where(gk, i), "flag %s <-> key %s" % (flag["bool"], "generated" if gen else "read from storage" if read else "of unknown origin"),
                    [GKP, "flag-origin", str(flag["bool"])])
    # in request_certificate: store iff flag
    stores = b.calls_to(STORE, SETK)
    # the flag is whatever bool carries field 1 of get_key_pair's (KeyPair, bool) result — found by provenance, not by name
    def is_flag(sl):
        return any(x.is_or_polls(GKP) for x in sl.calls) and ("tuple", 1) in sl.fields and ("tuple", 0) not in sl.fields
    t_edges, f_edges = flag_switches(b, is_flag)
    if not t_edges:
        ctx.fail(R3, "%s:%s" % (b.file, b.line), "request_certificate never tests the new-key flag returned by get_key_pair", [RC, "flag-missing"])
        return
    good, hit = unreachable_without(b, [c.bb for c in stores], removed_edges=t_edges)
    ctx.require(R3, bool(t_edges) and good, stores[0].where() if stores else "-", "the key file is (re)written only when the key is new", [RC, "reused-key-rewritten"])
    okb, errb, fwd = result_return_kinds(b)
    for (sbb, tg) in t_edges:
        r = b.reachable_flags([tg], removed_nodes=[c.bb for c in stores])
        ctx.require(R3, not (set(okb) & r), where(b, sbb), "a new key is always stored before the attempt can succeed", [RC, "new-key-not-stored"])
    for c in stores:
        a = arg_origins(c, 1)
        ctx.require(R3, any(x.is_or_polls(GKP) for x in a.calls), c.where(), "the stored key is the key pair of this attempt's CSR", [RC, "stored-key"])


def discarded_results(body):
    """locals of type Result<_, Error|HttpError> that are assigned but never read (only dropped)"""
    from ..mir import _uses_index
    uses = _uses_index(body)
    out = []
    live = body.live_blocks()
    for l, decl in enumerate(body.locals):
        ty = decl["ty"]
        if not ty.startswith("core::result::Result<"):
            continue
        if not (ty.endswith("acme_common::error::Error>") or ty.endswith("acmed::http::HttpError>")):
            continue
        if l == 0 or l <= body.arg_count:
            continue
        defs = [d for d in body.defs.get(l, []) if d[1] in live]
        if not defs:
            continue
        if uses.get(l):
            continue
        # also used as a terminator operand other than drop? (switch handled in uses) — moved into return place handled by stmt uses
        out.append((l, "Result"))
    return out


def discarded_is_new_nonce(body, l):
    sl = origins(body, l)
    return any(x.is_or_polls("acmed::http::new_nonce") for x in sl.calls)
