"""Guard rules that justify conditional entries of the panic allow-table (shared by C06, C07, C19)."""
from ..flow import arg_origins, origins
from ..mir import op_const, op_local
from ..util import agg_assigns, bool_edges, call_true_false_edges, switches_on, unreachable_without, where

RL = "acmed::endpoint::RateLimit"


def nonzero_limit_guard(ctx, rid):
    """the divisor of get_sleep_duration is a limit's number, and RateLimit::new (the only writer of `limits`) stores a
    number only on the non-zero edge of a comparison with 0"""
    prog = ctx.prog
    nb0 = prog.must_body(RL + "::new")
    found = False
    # evaluation-first: RateLimit::new interpreted on limit lists containing a zero number, in every position (rate_model.py)
    from .rate_model import zero_table
    zt = zero_table(prog)
    zero_eval = all(o is not None for _l, o in zt)
    if zero_eval:
        for limits, outcome in zt:
            ctx.require(rid, outcome == "Err", "%s:%s" % (nb0.file, nb0.line), "RateLimit::new(%s) is refused (a zero number would be a zero divisor / a bound nobody passes): %s" % (limits, outcome),
                        [RL + "::new", "zero-number-accepted", repr(limits)])
        found = True
    # the test may sit in RateLimit::new's own loop, or in the closure that converts one (number, period) entry when the list is
    # built with map(..).collect::<Result<..>>()
    for nb in ([] if zero_eval else body_family(prog, RL + "::new")):
        in_closure = nb is not nb0
        guards = []
        for i in sorted(nb.live_blocks()):
            for st in nb.blocks[i]["stmts"]:
                if st["s"] != "assign" or st["rv"]["k"] != "binop" or st["rv"]["op"] not in ("Eq", "Ne", "Gt", "Lt", "Ge", "Le"):
                    continue
                a, b = st["rv"]["a"], st["rv"]["b"]
                ca, cb = op_const(a), op_const(b)
                zero_b = cb is not None and cb.get("int") == 0
                zero_a = ca is not None and ca.get("int") == 0
                if not (zero_a or zero_b):
                    continue
                other = a if zero_b else b
                sl = origins(nb, other)
                if ("tuple", 0) not in sl.fields or not sl.has_leaf("param:%d" % (2 if in_closure else 1)):
                    continue
                op = st["rv"]["op"]
                if zero_a:
                    op = {"Gt": "Lt", "Lt": "Gt", "Ge": "Le", "Le": "Ge"}.get(op, op)
                for sbb, neg in switches_on(nb, st["lhs"]["l"]):
                    t, f = bool_edges(nb, sbb)
                    if neg:
                        t, f = f, t
                    if op in ("Eq", "Le"):        # x == 0 / x <= 0 : non-zero edge = false
                        guards.append((sbb, f))
                    elif op in ("Ne", "Gt"):      # x != 0 / x > 0
                        guards.append((sbb, t))
        if not guards:
            continue
        if not in_closure:
            producers = [c.bb for c in nb.calls_to("alloc::vec::Vec::push") if ("tuple", 0) in arg_origins(c, 1).fields or arg_origins(c, 1).has_leaf("param:1")]
        else:
            # every place where the closure's non-error result is produced (through the moves an inlined helper leaves behind)
            from ..util import ok_producers
            producers = ok_producers(nb)
            users = closure_users(nb0, nb.key)
            if not users or not all(u.name.rsplit("::", 1)[-1] in ("map", "try_for_each", "and_then") for u in users):
                producers = []
        ok, hit = unreachable_without(nb, producers, removed_edges=guards)
        if producers and ok:
            found = True
    ctx.require(rid, found, "%s:%s" % (nb0.file, nb0.line),
                "RateLimit::new stores a limit only on the non-zero edge of a test of its number against 0 "
                "(so the division in get_sleep_duration and the admission bound are never 0)", [RL + "::new", "zero-number-accepted"])
    # limits is written only by `new` (struct literal) — any other writer could introduce a zero
    from .c12 import field_accesses
    for b, bb, kind, line in field_accesses(prog, RL, "limits"):
        if kind in ("write", "mutref", "init") and not (b.exp and b.kind != "Closure"):
            ctx.require(rid, b.key == RL + "::new", "%s:%s" % (b.file, line), "RateLimit.limits is only initialised in RateLimit::new (%s in %s)" % (kind, b.key),
                        [b.key, "limits-writer"])
    gs = prog.must_body(RL + "::get_sleep_duration")
    for i in gs.live_blocks():
        t = gs.term(i)
        if t["t"] == "assert" and t["kind"] == "DivisionByZero":
            sl = origins(gs, t["ops"][0])
            ctx.require(rid, (RL, "limits") in sl.fields, where(gs, i), "the divisor derives from self.limits", [RL + "::get_sleep_duration", "divisor-origin"])


def gen_range_guard(ctx, rid):
    """gen_range(ZERO..random_early_renew) is reached only when random_early_renew is non-zero (the 0.22.0 crash)"""
    prog = ctx.prog
    b = prog.must_body("acmed::certificate::Certificate::renew_in")
    gr = b.calls_to("rand::rng::Rng::gen_range", "rand::Rng::gen_range")
    if not gr:
        ctx.ok(rid, "no gen_range in renew_in")
        return
    iz = b.calls_to("core::time::Duration::is_zero")
    edges = []
    for c in iz:
        sl = arg_origins(c, 0)
        if ("acmed::certificate::Certificate", "random_early_renew") in sl.fields:
            t, f = call_true_false_edges(b, c)
            edges += f
    ok, hit = unreachable_without(b, [c.bb for c in gr], removed_edges=edges)
    ctx.require(rid, bool(edges) and ok, gr[0].where(), "gen_range is reachable only on the false edge of random_early_renew.is_zero() (empty range panics)",
                ["Certificate::renew_in", "gen_range-unguarded"])
    for c in gr:
        # the range is ZERO..self.random_early_renew (half-open, same field)
        sl = arg_origins(c, 1)
        rng = [st for bb, st in agg_assigns(b, "core::ops::range::Range") if st["lhs"]["l"] in sl.locals]
        good = False
        for st in rng:
            s0 = origins(b, st["rv"]["ops"][0])
            s1 = origins(b, st["rv"]["ops"][1])
            zero = any("ZERO" in str(x.get("item", "")) or x.get("pp", "").startswith("core::time::Duration {") or "ZERO" in x.get("pp", "") for x in s0.consts)
            good = zero and ("acmed::certificate::Certificate", "random_early_renew") in s1.fields
        ctx.require(rid, good, c.where(), "the jitter range is the half-open Duration::ZERO..self.random_early_renew", ["Certificate::renew_in", "jitter-range"])


def body_family(prog, root_key):
    """the body, and every closure it (transitively) hands to a callee — all in the helper-inlined view"""
    rb = prog.must_body(root_key)
    fam = [rb]
    seen = {rb.key}
    i = 0
    while i < len(fam):
        for c in fam[i].calls:
            for g in list(c.gbodies) + fn_items_passed(c):
                gb = prog.body(g)
                if gb is not None and g not in seen:
                    seen.add(g)
                    fam.append(gb)
        i += 1
    return fam


def fn_items_passed(c):
    """workspace functions handed to a callee BY VALUE (`.map(helper)`, `.filter_map(Self::convert)`): the argument's type is the
    function item type, printed `fn(..) -> .. {path}`"""
    import re
    out = []
    for t in (c.term.get("arg_tys") or []):
        m = re.search(r"fn\(.*\{([A-Za-z_][\w:]*)(?:::<.*>)?\}$", t)
        if m:
            out.append(m.group(1))
    return out


def closure_users(parent, closure_key):
    """calls of `parent` that take the closure `closure_key` itself as an argument (not merely an adaptor type mentioning it)"""
    cb = parent.prog.bodies.get(closure_key) if getattr(parent, "prog", None) is not None else None
    cty = cb.locals[1]["ty"].lstrip("&").replace("mut ", "").strip() if cb is not None and len(cb.locals) > 1 else None
    out = []
    for u in parent.calls:
        if closure_key not in u.gbodies or u.bb not in parent.live_blocks():
            continue
        tys = [t.lstrip("&").replace("mut ", "").strip() for t in (u.term.get("arg_tys") or [])]
        if cty is None or not tys or cty in tys:
            out.append(u)
    return out


def closure_capture_origins(parent, closure_key):
    """provenance (in the parent) of everything the closure captures"""
    from ..util import agg_assigns
    sls = []
    for i, st in agg_assigns(parent, kind="closure"):
        if st["rv"].get("def") == closure_key:
            for o in st["rv"]["ops"]:
                sls.append(origins(parent, o))
    return sls


def name_lookup(prog, key):
    """How `key` (returning Result) looks an element up by name. Two shapes are understood:
      loop: `for x in list { if x.name == wanted { return Ok(..) } } Err(..)` — every Ok lies behind the true edge of an equality;
      find: `list.iter().find(|x| x.name == wanted) [.map/.cloned] .ok_or[_else](..)` — the predicate is the equality, the
            result is the find's Option turned into a Result.
    Returns {"good": bool, "fields": set of ADT fields compared, "shape": str}."""
    from ..util import call_true_false_edges, result_return_kinds, unreachable_without
    b = prog.must_body(key)
    okb, errb, fwd = result_return_kinds(b)
    fields = set()
    fam = body_family(prog, key)
    tr = []
    for c in b.calls:
        if c.fn == "core::cmp::PartialEq::eq" and c.bb in b.live_blocks():
            t, f = call_true_false_edges(b, c)
            if t:
                tr += t
                fields |= arg_origins(c, 0).fields | arg_origins(c, 1).fields
    if tr:
        good, hit = unreachable_without(b, okb, removed_edges=tr)
        if good and errb and okb:
            return {"good": True, "fields": fields, "shape": "loop"}
    ret = origins(b, {"l": 0, "p": []})
    for fb in fam:
        if fb is b:
            continue
        users = closure_users(b, fb.key)
        if not users or not all(u.name.rsplit("::", 1)[-1] in ("find", "position") for u in users):
            continue
        r0 = origins(fb, {"l": 0, "p": []})
        eqs = [c for c in r0.calls if c.fn == "core::cmp::PartialEq::eq"]
        if len(eqs) != 1 or "unop:Not" in r0.via or any(v.startswith("binop:") for v in r0.via):
            continue
        fields = arg_origins(eqs[0], 0).fields | arg_origins(eqs[0], 1).fields
        used = any(x.bb == users[0].bb for x in ret.calls)
        to_res = any(x.name.rsplit("::", 1)[-1] in ("ok_or", "ok_or_else") for x in ret.calls) or bool(errb)
        lossy = [v for v in ret.via if v.rsplit("::", 1)[-1] in ("unwrap_or", "unwrap_or_default", "unwrap_or_else", "or", "or_else")]
        if used and to_res and not lossy:
            return {"good": True, "fields": fields, "shape": "find"}
        # `match list.iter().find(..) { Some(x) => Ok(..), None => Err(..) }`
        from ..mir import try_edges
        some_e = [(t["bb"], tg) for u in users for t in try_edges(b, [u.dest["l"]]) for tg in t["ok"]]
        if some_e and okb and errb:
            good, hit = unreachable_without(b, okb, removed_edges=some_e)
            if good:
                return {"good": True, "fields": fields, "shape": "find+match"}
    return {"good": False, "fields": fields, "shape": "?"}


SET_TESTS = ("alloc::collections::btree::set::BTreeSet::contains", "std::collections::hash::set::HashSet::contains", "alloc::vec::Vec::contains",
             "core::slice::<impl [T]>::contains", "core::iter::traits::iterator::Iterator::any")
SET_INSERTS = ("alloc::collections::btree::set::BTreeSet::insert", "std::collections::hash::set::HashSet::insert", "alloc::vec::Vec::push")


def visited_guard(body, is_set):
    """Edges on which `the current element was not visited before` is known, and the insertion sites, for a visited set selected
    by is_set(Slice of the receiver). Two idioms: `if set.contains(x) { return } set.insert(x)` (false edge of the test) and
    `if !set.insert(x) { return }` (true edge of a tested insert: BTreeSet/HashSet::insert returns whether the value is new).
    Returns (fresh_edges, insert_calls, test_calls, revisit_edges)."""
    from ..util import call_true_false_edges
    fresh, revisit, tests, inserts = [], [], [], []
    for c in body.calls:
        if c.bb not in body.live_blocks() or not c.args:
            continue
        if c.is_(*SET_TESTS) and is_set(arg_origins(c, 0)):
            t, f = call_true_false_edges(body, c)
            if f:
                tests.append(c)
                fresh += f
                revisit += t
        elif c.is_(*SET_INSERTS) and is_set(arg_origins(c, 0)):
            inserts.append(c)
            if not c.name.endswith("::push"):
                t, f = call_true_false_edges(body, c)
                if t:
                    tests.append(c)
                    fresh += t
                    revisit += f
    return fresh, inserts, tests, revisit
