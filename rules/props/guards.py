"""Guard rules that justify conditional entries of the panic allow-table (shared by C06, C07, C19)."""
from ..flow import arg_origins, origins
from ..mir import op_const, op_local
from ..util import agg_assigns, bool_edges, call_true_false_edges, switches_on, unreachable_without, where

RL = "acmed::endpoint::RateLimit"


def nonzero_limit_guard(ctx, rid):
    """the divisor of get_sleep_duration is a limit's number, and RateLimit::new (the only writer of `limits`) stores a
    number only on the non-zero edge of a comparison with 0"""
    prog = ctx.prog
    nb = prog.must_body(RL + "::new")
    pushes = [c for c in nb.calls_to("alloc::vec::Vec::push")]
    guards = []
    for i in sorted(nb.live_blocks()):
        for st in nb.blocks[i]["stmts"]:
            if st["s"] != "assign" or st["rv"]["k"] != "binop" or st["rv"]["op"] not in ("Eq", "Ne", "Gt", "Lt", "Ge", "Le"):
                continue
            a, b = st["rv"]["a"], st["rv"]["b"]
            ca, cb = op_const(a), op_const(b)
            zero_b = cb is not None and cb.get("int") == 0
            zero_a = ca is not None and ca.get("int") == 0
            if not (zero_a or zero_b):
                continue
            other = a if zero_b else b
            sl = origins(nb, other)
            if ("tuple", 0) not in sl.fields or not sl.has_leaf("param:1"):
                continue
            op = st["rv"]["op"]
            if zero_a:
                op = {"Gt": "Lt", "Lt": "Gt", "Ge": "Le", "Le": "Ge"}.get(op, op)
            for sbb, neg in switches_on(nb, st["lhs"]["l"]):
                t, f = bool_edges(nb, sbb)
                if neg:
                    t, f = f, t
                if op in ("Eq", "Le"):        # x == 0 / x <= 0 : non-zero edge = false
                    guards.append((sbb, f))
                elif op in ("Ne", "Gt"):      # x != 0 / x > 0
                    guards.append((sbb, t))
                elif op == "Ge":             # x >= 1 written as 0 <= ... : skip
                    pass
    lim_pushes = []
    for c in pushes:
        sl = arg_origins(c, 1)
        if ("tuple", 0) in sl.fields or sl.has_leaf("param:1"):
            lim_pushes.append(c)
    ok, hit = unreachable_without(nb, [c.bb for c in lim_pushes], removed_edges=guards)
    ctx.require(rid, bool(guards) and bool(lim_pushes) and ok, "%s:%s" % (nb.file, nb.line),
                "RateLimit::new stores a limit only on the non-zero edge of a test of its number against 0 "
                "(so the division in get_sleep_duration and the admission bound are never 0)", [RL + "::new", "zero-number-accepted"])
    # limits is written only by `new` (struct literal) — any other writer could introduce a zero
    from .c12 import field_accesses
    for b, bb, kind, line in field_accesses(prog, RL, "limits"):
        if kind in ("write", "mutref", "init") and not (b.exp and b.kind != "Closure"):
            ctx.require(rid, b.key == RL + "::new", "%s:%s" % (b.file, line), "RateLimit.limits is only initialised in RateLimit::new (%s in %s)" % (kind, b.key),
                        [b.key, "limits-writer"])
    gs = prog.must_body(RL + "::get_sleep_duration")
    for i in gs.live_blocks():
        t = gs.term(i)
        if t["t"] == "assert" and t["kind"] == "DivisionByZero":
            sl = origins(gs, t["ops"][0])
            ctx.require(rid, (RL, "limits") in sl.fields, where(gs, i), "the divisor derives from self.limits", [RL + "::get_sleep_duration", "divisor-origin"])


def gen_range_guard(ctx, rid):
    """gen_range(ZERO..random_early_renew) is reached only when random_early_renew is non-zero (the 0.22.0 crash)"""
    prog = ctx.prog
    b = prog.must_body("acmed::certificate::Certificate::renew_in")
    gr = b.calls_to("rand::rng::Rng::gen_range", "rand::Rng::gen_range")
    if not gr:
        ctx.ok(rid, "no gen_range in renew_in")
        return
    iz = b.calls_to("core::time::Duration::is_zero")
    edges = []
    for c in iz:
        sl = arg_origins(c, 0)
        if ("acmed::certificate::Certificate", "random_early_renew") in sl.fields:
            t, f = call_true_false_edges(b, c)
            edges += f
    ok, hit = unreachable_without(b, [c.bb for c in gr], removed_edges=edges)
    ctx.require(rid, bool(edges) and ok, gr[0].where(), "gen_range is reachable only on the false edge of random_early_renew.is_zero() (empty range panics)",
                ["Certificate::renew_in", "gen_range-unguarded"])
    for c in gr:
        # the range is ZERO..self.random_early_renew (half-open, same field)
        sl = arg_origins(c, 1)
        rng = [st for bb, st in agg_assigns(b, "core::ops::range::Range") if st["lhs"]["l"] in sl.locals]
        good = False
        for st in rng:
            s0 = origins(b, st["rv"]["ops"][0])
            s1 = origins(b, st["rv"]["ops"][1])
            zero = any("ZERO" in str(x.get("item", "")) or x.get("pp", "").startswith("core::time::Duration {") or "ZERO" in x.get("pp", "") for x in s0.consts)
            good = zero and ("acmed::certificate::Certificate", "random_early_renew") in s1.fields
        ctx.require(rid, good, c.where(), "the jitter range is the half-open Duration::ZERO..self.random_early_renew", ["Certificate::renew_in", "jitter-range"])


def body_family(prog, root_key):
    """the body, and every closure it (transitively) hands to a callee — all in the helper-inlined view"""
    rb = prog.must_body(root_key)
    fam = [rb]
    seen = {rb.key}
    i = 0
    while i < len(fam):
        for c in fam[i].calls:
            for g in c.gbodies:
                gb = prog.body(g)
                if gb is not None and g not in seen:
                    seen.add(g)
                    fam.append(gb)
        i += 1
    return fam


def closure_users(parent, closure_key):
    """calls of `parent` that take the closure `closure_key` itself as an argument (it appears among their generic arguments)"""
    return [u for u in parent.calls if closure_key in u.gbodies and u.bb in parent.live_blocks()]


def closure_capture_origins(parent, closure_key):
    """provenance (in the parent) of everything the closure captures"""
    from ..util import agg_assigns
    sls = []
    for i, st in agg_assigns(parent, kind="closure"):
        if st["rv"].get("def") == closure_key:
            for o in st["rv"]["ops"]:
                sls.append(origins(parent, o))
    return sls
