"""C08 — recoverable errors are retried with a fresh nonce, boundedly; others are not.

Decided:
  R1 is_recoverable == {badNonce, connection, dns, malformed, rateLimited, serverInternal, tls} (table extracted by
     evaluating the function's MIR for all 25 variants);
  R2 From<String> for AcmeError == RFC 8555 §6.7 (24 rows) with anything else -> Unknown; an absent `type` member maps
     to a non-recoverable value (get_type default evaluated through the same table);
  R3 bounds: post's retry loop is `for _ in 0..N`, N = DEFAULT_HTTP_FAIL_NB_RETRY <= 10, one send per iteration, none
     outside; pool_authorization / pool_order poll in `for _ in 0..M`, M = DEFAULT_POOL_NB_TRIES <= 20, one POST per turn;
  R4 post/get return a non-error value only through the Ok edge of check_status, which is Ok only on the true edge of
     StatusCode::is_success;
  R5 from the non-recoverable edge (false edge of is_recoverable) and from the `?` error edge of parsing the problem
     document, no further send is reachable;
  R6 the re-sent request is re-built by the data builder with the nonce refreshed from the error response (every cycle
     send -> send crosses update_nonce and the builder call) — shared with C04.
  W1: what the client can read of a problem document and of polled objects (member names, unknown members tolerated), from the
  derived Deserialize impls (props/wire_shape.py).
"""
import json
import os

from ..absint import Val, enum_table, run, variant, vstr
from ..flow import arg_origins
from ..mir import op_local, try_edges
from ..util import (agg_assigns, call_true_false_edges, polls, result_return_kinds, unreachable_without, where)
from .http_common import GET, POST, SEND, bounded_loop_rule, fresh_nonce_rule, post_structure

LEVEL = "other"
TECHNIQUE = ("table extraction by abstract interpretation of the classification functions over all enum variants / oracle "
             "strings + loop-bound and must-pass-through rules on the retry and polling loops' CFG"
             '; derived-Deserialize shape tables')
LEVEL_TEXT = ("Decides for every error type (whole table, not a sample) how it is classified, and for every path of "
              "http::post/get and of the polling helpers that transmissions are bounded by constant range loops, that success "
              "is returned only on a 2xx status and that nothing is re-sent after a non-recoverable answer. These clauses "
              "are the property restricted to what the code's shape fixes; reqwest's own behaviour is trusted.")
LEVEL_NOTE = ("Not decided: reqwest internals (redirects, connection reuse), wall-clock waits. Trusted: rustc MIR, extractor, "
              "oracle transcription of RFC 8555 section 6.7 (oracles/acme_errors.json).")

ERR = "acmed::acme_proto::structs::error::AcmeError"
FROM = "<acmed::acme_proto::structs::error::AcmeError as core::convert::From<alloc::string::String>>::from"


def oracle():
    return json.load(open(os.path.join(os.path.dirname(__file__), "..", "..", "oracles", "acme_errors.json")))


def check(ctx):
    prog = ctx.prog
    # bounded re-sending also covers the new-order / re-registration loop of request_certificate (C07.R6), and a re-sent request is signed
    # with a nonce that is stored on the endpoint, never with an emptied slot (C12.L4: who may touch Endpoint.nonce)
    from . import c07 as _c07, c12 as _c12
    ctx.shared("C07", _c07.check_loops)
    ctx.shared("C12", _c12.check_nonce)
    from . import c03 as _c03
    ctx.shared("C03", _c03.no_discarded_results)     # an error answer is never taken for success: no Result of the request path is dropped unexamined
    W1 = ctx.rule("W1", "what the client can READ of an error answer and of a polled object: member names per RFC 8555 / RFC 7807, unknown members ignored (a problem document with extension members is still classified)")
    from .wire_shape import check_read_shapes
    check_read_shapes(ctx, W1, ["acmed::acme_proto::structs::error::HttpApiError", "acmed::acme_proto::structs::order::Order", "acmed::acme_proto::structs::order::OrderStatus",
                                "acmed::acme_proto::structs::authorization::Authorization", "acmed::acme_proto::structs::authorization::AuthorizationStatus"])
    orc = oracle()
    R1 = ctx.rule("R1", "AcmeError::is_recoverable is true exactly for badNonce, connection, dns, malformed, rateLimited, serverInternal, tls")
    b = prog.must_body(ERR + "::is_recoverable")
    tab = enum_table(prog, b, ERR)
    ctx.floor(R1, "AcmeError variants", len(tab), 25)
    rec = set(orc["recoverable_variants"])
    for v, r in tab.items():
        if r.kind != "return" or r.ret.k != "bool":
            ctx.fail(R1, "%s:%s" % (b.file, b.line), "is_recoverable cannot be evaluated for %s (%s)" % (v, r.kind), ["is_recoverable", "eval", v])
            continue
        exp = v in rec
        ctx.require(R1, r.ret.v == exp, "%s:%s" % (b.file, b.line),
                    "is_recoverable(%s) = %s, expected %s" % (v, r.ret.v, exp), ["is_recoverable", v])
    # R2
    R2 = ctx.rule("R2", "From<String> for AcmeError maps the 24 RFC 8555 section 6.7 URNs to the like-named variant and anything else to Unknown; a missing type is not recoverable")
    fb = prog.must_body(FROM)
    rows = orc["types"]
    ctx.floor(R2, "oracle rows", len(rows), 24)
    for urn, var in rows.items():
        r = run(fb, {1: vstr(urn)})
        got = r.ret.v if r.kind == "return" and r.ret.k == "variant" else "%s" % r
        ctx.require(R2, got == var, "%s:%s" % (fb.file, fb.line), "From<String>(%s) = %s, expected %s" % (urn, got, var),
                    ["From<String>", var])
    for s in orc["not_acme_types"]:
        r = run(fb, {1: vstr(s)})
        got = r.ret.v if r.kind == "return" and r.ret.k == "variant" else "%s" % r
        ctx.require(R2, got == "Unknown", "%s:%s" % (fb.file, fb.line), "From<String>(%r) = %s, expected Unknown" % (s, got),
                    ["From<String>", "non-member"])
    # default type
    gt = prog.must_body("acmed::acme_proto::structs::error::HttpApiError::get_type")
    dflt = None
    for c in gt.calls_to("core::option::Option::unwrap_or_else", "core::option::Option::unwrap_or", "core::option::Option::unwrap_or_default"):
        for g in c.gbodies:
            r = run(prog.must_body(g), {})
            if r.kind == "return":
                dflt = r.ret.deref()
        if c.is_("core::option::Option::unwrap_or_default"):
            dflt = vstr("")
        if c.is_("core::option::Option::unwrap_or") and len(c.args) > 1:
            dflt = None
    if dflt is None or dflt.k != "str":
        # evaluation: get_type() of a problem document without a `type` member, whatever the code looks like
        try:
            from ..absint import NONE as _N0, Val as _V0, struct_val as _sv0
            HAE0 = "acmed::acme_proto::structs::error::HttpApiError"
            tf0 = [f for f in prog.adt_fields(HAE0) if f in ("error_type", "type", "type_")] or [f for f in prog.adt_fields(HAE0) if "type" in f]
            r0 = run(gt, {1: _V0("ref", _sv0(prog, HAE0, {tf0[0]: _N0}))}, None, max_steps=20000, follow=lambda cs: (cs.name or "").startswith("acmed::acme_proto::structs::error::"))
            d0 = r0.ret.deref() if r0.kind == "return" and r0.ret is not None else None
            if d0 is not None and d0.k == "str":
                dflt = d0
        except Exception:
            pass
    if dflt is None or dflt.k != "str":
        ctx.fail(R2, "%s:%s" % (gt.file, gt.line), "default of HttpApiError::get_type could not be evaluated (%r)" % (dflt,), ["get_type", "default"])
    else:
        r = run(fb, {1: dflt})
        v = r.ret.v if r.kind == "return" else None
        ctx.require(R2, v is not None and v not in rec, "%s:%s" % (gt.file, gt.line),
                    "a problem document without `type` (default %r -> %s) is not recoverable" % (dflt.v, v), ["get_type", "default-class"])
    gat = prog.must_body("acmed::acme_proto::structs::error::HttpApiError::get_acme_type")
    # the classification used by the retry decision, EVALUATED on problem documents: it depends on the `type` member only (a typeless
    # document, or one with `about:blank`, is Unknown whatever its `status` says — such an answer is never re-sent)
    from ..absint import NONE as _N, Val as _V, some as _some, struct_val as _sv, vint as _vi
    HAE = "acmed::acme_proto::structs::error::HttpApiError"
    fs_ = prog.adt_fields(HAE)
    tfield = [f for f in fs_ if f in ("error_type", "type", "type_")] or [f for f in fs_ if "type" in f]
    evaluated_class = False
    if tfield and "status" in fs_:
        for ty in (None, "about:blank", "urn:ietf:params:acme:error:badNonce", "urn:ietf:params:acme:error:unauthorized", "urn:example:other"):
            base_ = None
            for st_ in (None, 400, 403, 429, 500, 502, 503, 599):
                doc = _sv(prog, HAE, {tfield[0]: _some(vstr(ty)) if ty is not None else _N, "status": _some(_vi(st_)) if st_ is not None else _N, "detail": _N})
                try:
                    r = run(gat, {1: _V("ref", doc)}, None, max_steps=20000, follow=lambda cs: (cs.name or "").startswith("acmed::acme_proto::structs::error::") or "AcmeError" in (cs.name or ""))
                except Exception:
                    r = None
                rv_ = r.ret.deref() if r is not None and r.kind == "return" and r.ret is not None else None
                if rv_ is not None and rv_.k == "str":
                    # `.into()` is the blanket Into: the conversion itself is From<String> for AcmeError (evaluated above for every URN)
                    r2 = run(fb, {1: rv_})
                    rv_ = r2.ret.deref() if r2.kind == "return" and r2.ret is not None else None
                got = rv_.v if rv_ is not None and rv_.k == "variant" else None
                if got is None:
                    break
                if st_ is None:
                    base_ = got
                    evaluated_class = True
                    want = rows.get(ty, "Unknown") if ty is not None else "Unknown"
                    ctx.require(R2, got == want, "%s:%s" % (gat.file, gat.line), "problem document type %r -> %s (expected %s)" % (ty, got, want), ["get_acme_type", "evaluated", str(ty)])
                else:
                    ctx.require(R2, got == base_, "%s:%s" % (gat.file, gat.line), "problem document type %r, status %s -> %s (the status member does not change the class: %s)" % (ty, st_, got, base_),
                                ["get_acme_type", "status-independent", str(ty), str(st_)])
    ok = bool(gat.calls_to("acmed::acme_proto::structs::error::HttpApiError::get_type")) and any(
        c.res and c.res.endswith("::into") or (c.res == FROM) for c in gat.calls)
    if not evaluated_class:
        ctx.require(R2, ok, "%s:%s" % (gat.file, gat.line), "get_acme_type = get_type().into()", ["get_acme_type", "wiring"])

    # every refused POST is classified BY ITS PROBLEM DOCUMENT: from the error edge of check_status, a locally built error result is
    # returned only after get_acme_type() was consulted (a body that cannot be read / parsed is forwarded with `?`, which is not a
    # classification) — no side condition (a header, the status code) decides that an answer is final without looking at its type
    pb0 = prog.async_body(POST)
    csx = pb0.calls_to("acmed::http::check_status")
    gat_calls = [c.bb for c in pb0.calls if (c.name or "").endswith("HttpApiError::get_acme_type") and c.bb in pb0.live_blocks()]
    okb0, errb0, fwd0 = result_return_kinds(pb0)
    n_err_edges = 0
    for c in csx:
        for t in try_edges(pb0, [c.dest["l"]]):
            for tg in t["err"]:
                n_err_edges += 1
                r_ = pb0.reachable([tg], removed_nodes=gat_calls)
                # error values BUILT here (`Err(..)` literals), as opposed to errors of the read/parse steps forwarded by `?`
                built = [i_ for i_ in sorted(r_) if not pb0.is_cleanup(i_) and any(st_["s"] == "assign" and st_["rv"]["k"] == "agg" and st_["rv"].get("agg") == "adt"
                                                                                   and str(st_["rv"].get("adt", "")).startswith("core::result::Result") and st_["rv"].get("variant") == "Err"
                                                                                   for st_ in pb0.blocks[i_]["stmts"])]
                early = built
                ctx.require(R2, not early, where(pb0, early[0]) if early else c.where(), "a refused POST is given up only after its problem document was classified (get_acme_type), or because the body could not be read",
                            [POST, "unclassified-error"])
    ctx.floor(R2, "error edges of check_status in http::post", n_err_edges, 1)

    # R3
    R3 = ctx.rule("R3", "bounded transmissions: post retries in `for _ in 0..DEFAULT_HTTP_FAIL_NB_RETRY` (<=10), one send per iteration; polling in `for _ in 0..DEFAULT_POOL_NB_TRIES` (<=20), one POST per iteration")
    pb, sends, builder, upd = post_structure(prog)
    ctx.floor(R3, "send sites in http::post", len(sends), 1)
    ctx.require(R3, len(sends) == 1, where(pb, sends[0].bb) if sends else "-", "exactly one send site in http::post (found %d)" % len(sends),
                [POST, "send-count"])
    bounded_loop_rule(ctx, R3, pb, [c.bb for c in sends], "the POST transmission", 10, "acmed::DEFAULT_HTTP_FAIL_NB_RETRY", POST)
    n10 = prog.const("acmed::DEFAULT_HTTP_FAIL_NB_RETRY").get("int")
    n20 = prog.const("acmed::DEFAULT_POOL_NB_TRIES").get("int")
    ctx.require(R3, n10 is not None and 1 <= n10 <= 10, "acmed/src/main.rs", "DEFAULT_HTTP_FAIL_NB_RETRY = %s (1..10)" % n10, ["const", "retry"])
    ctx.require(R3, n20 is not None and 1 <= n20 <= 20, "acmed/src/main.rs", "DEFAULT_POOL_NB_TRIES = %s (1..20)" % n20, ["const", "poll"])
    gb = prog.async_body(GET)
    gs = gb.calls_to(*SEND)
    for c in gs:
        ctx.require(R3, gb.scc_of(c.bb) is None, c.where(), "http::get transmits once (send is not in a loop)", [GET, "send-loop"])
    for fn in ("acmed::acme_proto::http::pool_authorization", "acmed::acme_proto::http::pool_order"):
        body = prog.async_body(fn)
        posts = body.calls_to("acmed::http::post_jose", "acmed::http::post")
        ctx.floor(R3, "POST creation sites in %s" % fn, len(posts), 1)
        in_loop = [c for c in posts if body.scc_of(c.bb) is not None]
        # a poll that FAILED ends the polling with that error: from the Err edge of the poll's result (and of the parsing of its body)
        # the loop does not go round again — an error answer at a poll position must not be re-sent as the next poll
        from ..mir import try_edges as _te
        from ..util import POLL as _POLL
        for c in in_loop:
            sccset = set(body.scc_of(c.bb))
            pls = [p_ for p_ in body.calls if p_.fn == _POLL and p_.res and (p_.res.startswith("acmed::http::post_jose") or p_.res.startswith("acmed::http::post")) and p_.bb in sccset]
            def _is_poll_switch(bb_):
                t0 = body.term(bb_)
                dl_ = op_local(t0["discr"]) if t0["t"] == "switch" else None
                return any(k_ == "stmt" and st_["s"] == "assign" and st_["rv"]["k"] == "discr" and "task::poll::Poll" in (st_["rv"].get("adt") or "") for k_, b2, j2, st_ in body.defs.get(dl_, []))
            errs = [(t_["bb"], tg) for p_ in pls for t_ in _te(body, [p_.dest["l"]]) if not _is_poll_switch(t_["bb"]) for tg in t_["err"]]
            js = [x for x in body.calls if x.bb in sccset and (x.name or "").endswith("::json")]
            errs += [(t_["bb"], tg) for x in js for t_ in _te(body, [x.dest["l"]]) for tg in t_["err"]]
            ctx.require(R3, bool(errs), c.where(), "%s: the poll's result is tested for an error" % fn.rsplit("::", 1)[1], [fn, "poll-error-tested"])
            for (sb_, tg) in errs:
                if tg not in sccset:
                    continue                       # leaves the loop at once
                back = body.reachable([tg], removed_nodes=[]) & {c.bb}
                leaving = [(u, w) for u in sccset for w in body.succ[u] if w not in sccset]
                inloop = body.reachable([tg], removed_edges=leaving)
                ctx.require(R3, c.bb not in inloop, "%s:%s" % (body.file_of(sb_), body.term(sb_).get("line")), "%s: a failed poll ends the polling (the request is not sent again)" % fn.rsplit("::", 1)[1],
                            [fn, "poll-error-retried"])
        ctx.require(R3, len(posts) == 1 and len(in_loop) == 1, posts[-1].where() if posts else "-",
                    "%s polls only inside its bounded loop: one POST site, in the loop (found %d site(s), %d in a loop) — a poll after the loop is a 21st request"
                    % (fn.rsplit("::", 1)[1], len(posts), len(in_loop)), [fn, "poll-sites"])
        bounded_loop_rule(ctx, R3, body, [c.bb for c in posts], "the polling POST of %s" % fn.rsplit("::", 1)[1], 20,
                          "acmed::DEFAULT_POOL_NB_TRIES", fn)
    # no other loop in the workspace re-issues requests: callers of http::post* that sit in a loop
    for b in prog.user_bodies(("acmed",)):
        if prog.absorbed(b.key):
            continue        # a new helper inlined into its callers: its loop was examined there (bounded_loop_rule on pool_*)
        for c in b.calls_to("acmed::http::post", "acmed::http::post_jose", "acmed::http::get"):
            if b.key.startswith(("acmed::acme_proto::http::pool_", POST, GET)):
                continue
            scc = b.scc_of(c.bb)
            if scc is not None and not b.key.startswith("acmed::acme_proto::request_certificate"):
                ctx.fail(R3, c.where(), "%s calls %s inside a loop" % (b.key, c.name), [b.key, "request-in-loop"])

    # R4
    R4 = ctx.rule("R4", "post/get produce a non-error result only through the Ok edge of check_status; check_status is Ok only when status().is_success()")
    for key in (POST, GET):
        body = prog.async_body(key)
        cs_calls = body.calls_to("acmed::http::check_status")
        ctx.floor(R4, "check_status call in %s" % key, len(cs_calls), 1)
        if not cs_calls:
            continue
        ok_edges = []
        for c in cs_calls:
            for t in try_edges(body, [c.dest["l"]]):
                ok_edges += [(t["bb"], tg) for tg in t["ok"]]
        okb, errb, fwd = result_return_kinds(body)
        succ_blocks = okb + fwd
        ctx.floor(R4, "success-capable result assignments in %s" % key, len(succ_blocks), 1)
        good, hit = unreachable_without(body, succ_blocks, removed_edges=ok_edges, flags=True)
        ctx.require(R4, good and ok_edges, where(body, (hit or succ_blocks or [0])[0]),
                    "%s: every non-error result is built after check_status returned Ok" % key, [key, "success-without-2xx"])
        # and the send precedes it (the status checked is this response's): check_status arg derives from send's result
        for c in cs_calls:
            sl = arg_origins(c, 0)
            ctx.require(R4, sl.via_any(*SEND) or any(x.is_(*SEND) for x in sl.calls), c.where(),
                        "check_status inspects the response of this function's send", [key, "status-of-response"])
    csb = prog.must_body("acmed::http::check_status")
    iss = csb.calls_to("http::status::StatusCode::is_success")
    ctx.floor(R4, "StatusCode::is_success call in check_status", len(iss), 1)
    if iss:
        tr, fl = call_true_false_edges(csb, iss[0])
        okb, errb, fwd = result_return_kinds(csb)
        good, hit = unreachable_without(csb, okb + fwd, removed_edges=tr)
        ctx.require(R4, good and tr and okb, "%s:%s" % (csb.file, csb.line), "check_status returns Ok only on the true edge of is_success()",
                    ["check_status", "ok-on-non-2xx"])

    # R5
    R5 = ctx.rule("R5", "after a non-recoverable error (false edge of is_recoverable) or an unparsable problem document (`?` error edge), no send is reachable")
    irs = pb.calls_to(ERR + "::is_recoverable")
    ctx.floor(R5, "is_recoverable test in http::post", len(irs), 1)
    send_bbs = [c.bb for c in sends]
    for c in irs:
        tr, fl = call_true_false_edges(pb, c)
        if not fl:
            ctx.fail(R5, c.where(), "the result of is_recoverable is not branched on", [POST, "untested"])
            continue
        for (sb, tgt) in fl:
            r = pb.reachable_flags([tgt])   # variant-tag sensitive: an `Err(..)` built here and tested by `?` later follows the Err arm only
            ctx.require(R5, not (set(send_bbs) & r), where(pb, sb), "no send reachable from the non-recoverable edge", [POST, "resend-non-recoverable"])
        # the recoverable edge may loop: and the tested error is the one parsed from this response
        sl = arg_origins(c, 0)
        ctx.require(R5, any(x.is_("acmed::acme_proto::structs::error::HttpApiError::get_acme_type") for x in sl.calls), c.where(),
                    "is_recoverable is evaluated on get_acme_type() of the parsed problem document", [POST, "classified-value"])
    for c in pb.calls_to("acmed::http::ValidHttpResponse::json"):
        for t in try_edges(pb, [c.dest["l"]]):
            if t["adt"].endswith("Poll"):
                continue            # the Pending arm of an await is not an error edge
            for tgt in t["err"]:
                r = pb.reachable_flags([tgt])
                ctx.require(R5, not (set(send_bbs) & r), c.where(), "no send reachable after a problem document that cannot be parsed",
                            [POST, "resend-unparsable"])
    # is the error branch entered only on check_status Err? (a 2xx is never parsed as an error) — follows from R4 + match structure
    # R6
    R6 = ctx.rule("R6", "each retransmission is rebuilt by the data builder with the nonce refreshed from the previous response (send -> send cycles cross update_nonce and the builder call)")
    ctx.floor(R6, "data-builder call in http::post", len(builder), 1)
    ctx.floor(R6, "update_nonce call in http::post", len(upd), 1)
    for c in sends:
        after = pb.reachable_after(c.bb, removed_nodes=[u.bb for u in upd], flags=True)
        ctx.require(R6, c.bb not in after, c.where(), "every send -> send cycle crosses update_nonce(endpoint, &response)", [POST, "retry-stale-nonce"])
        after = pb.reachable_after(c.bb, removed_nodes=[u.bb for u in builder], flags=True)
        ctx.require(R6, c.bb not in after, c.where(), "every send -> send cycle re-runs the data builder (fresh JWS)", [POST, "retry-same-body"])
    fresh_nonce_rule(ctx, R6)
