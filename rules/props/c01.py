"""C01 — order and CSR carry exactly the configured identifiers and the stored key.

Decided (wiring of the anchored mechanisms; DER bytes and punycode results are not decided):
  R1 newOrder: NewOrder::new receives cert.identifiers with no element dropped/reordered; inside, every element is
     mapped through Identifier::from_generic, which copies id_type and value;
  R2 CSR names: the two lists given to Csr::new are cert.identifiers filtered by id_type == Dns (dNSName parameter) and
     == Ip (iPAddress parameter) — the filter predicates are evaluated for every IdentifierType variant, each variant
     passes exactly one of them, into the right parameter — mapped to `value`;
  R3 key identity: Csr::new's key is get_key_pair(cert)'s key, the same value later compared with the certificate and
     stored; the new-key flag rule of C03.R3 ties storing to generation (a regenerated key can never be used unsaved);
  R4 normalisation: identifier::Identifier is only constructed by Identifier::new, whose value is to_idna(..) for Dns
     and IpAddr::from_str(..).to_string() for Ip (evaluated per variant); config::Identifier::to_generic reaches it with
     (Dns, dns) / (Ip, ip);
  R5 Csr::new: public key and signature use the same key_pair.inner_key; every dNSName / iPAddress entry and every
     subject attribute is added; digest comes from the digest parameter through get_digest; the SAN extension is
     pushed and added; SubjectAttribute::get_nid equals the 15-row oracle; config::SubjectAttributes::to_generic maps its
     15 fields to the like-named attributes.
  Evaluation-first: R4 get_identifiers (A,B,C -> G(A),G(B),G(C)) and to_idna on ten sample names, R5 subject-attribute map.
  W1: wire shape of newOrder from the derived Serialize impls. R5 also: nothing is set on the request after `sign`.
"""
import json
import os
import re

from ..absint import NONE, Val, enum_table, marker, ok, run, some, struct_val, variant
from ..flow import arg_origins, origins
from ..mir import op_const, op_local, strip_generics
from ..util import agg_assigns, enum_edges, polls, unreachable_without, where
from .c03 import new_key_flag_rule

LEVEL = "other"
TECHNIQUE = ("provenance with forbidden shrinkers/reorderers on the identifier lists, evaluation of the filter predicates and "
             "of the normalisation match over all IdentifierType variants, same-value rule for the CSR key, table extraction "
             "of get_nid, field/variant pairing of the subject attributes"
             '; evaluation of get_identifiers / SubjectAttributes::to_generic / to_idna on samples; derived-Serialize shape of newOrder')
LEVEL_TEXT = ("Decides for every configuration that the order and the CSR are fed from the whole configured identifier list "
              "with the right split and normalisation function, the same key for public key / signature / storage, every "
              "subject attribute under its own NID and the configured digest. The DER content, punycode output and signature "
              "validity are OpenSSL/std results and not decided.")
LEVEL_NOTE = ("Not decided: DER of the CSR, self-signature validity, to_idna/IpAddr text on concrete names. Trusted: rustc MIR, "
              "extractor, abstract interpreter, openssl crate builders."
              ' Evaluated rules are (sample-based: evaluation on the listed sample family is not a proof for all inputs; the structural rule is the fallback when the interpreter cannot run the code)')

RC = "acmed::acme_proto::request_certificate"
IDT = "acmed::identifier::IdentifierType"
IDENT = "acmed::identifier::Identifier"
CERT = "acmed::certificate::Certificate"
CSR = "acme_common::crypto::openssl_certificate::Csr::new"
SHRINKERS = ("filter", "take", "skip", "first", "last", "pop", "truncate", "retain", "dedup", "sort", "sort_by", "sort_unstable", "rev", "reverse",
             "take_while", "skip_while", "step_by", "split_at", "split_off", "drain", "remove", "swap_remove", "filter_map", "chunks", "nth", "get")
# OpenSSL object identifiers (obj_mac.h NID_* values, stable across OpenSSL releases)
NID_ORACLE = {"CountryName": ("countryName", 14), "GenerationQualifier": ("generationQualifier", 509), "GivenName": ("givenName", 99), "Initials": ("initials", 101),
              "LocalityName": ("localityName", 15), "Name": ("name", 173), "OrganizationName": ("organizationName", 17),
              "OrganizationalUnitName": ("organizationalUnitName", 18), "Pkcs9EmailAddress": ("pkcs9_emailAddress", 48), "PostalAddress": ("postalAddress", 861),
              "PostalCode": ("postalCode", 661), "StateOrProvinceName": ("stateOrProvinceName", 16), "Street": ("streetAddress", 660), "Surname": ("surname", 100),
              "Title": ("title", 106)}


SHRINK_PREFIXES = ("sort", "dedup", "retain", "truncate", "drain", "take", "skip", "filter", "rev", "step_by", "split_off", "pop", "remove", "swap_remove",
                   "clear", "first", "last", "nth", "chunks", "windows", "split_at", "split_first", "split_last", "get", "find", "position", "min", "max", "shuffle", "rotate", "swap")


def shrinkers_in(sl):
    out = []
    for v in sl.via:
        m = v.rsplit("::", 1)[-1]
        if m in SHRINKERS or "Index" in v or any(m == p or m.startswith(p + "_") for p in SHRINK_PREFIXES):
            if m in ("get_context", "get_mut_context"):
                continue
            out.append(v)
    return sorted(out)


def shrinkers_except(sl, allowed_call):
    """like shrinkers_in, but a shrinking call for which allowed_call(CallSite) holds is not counted (e.g. `find` used to look a
    definition up by name, which is selection, not loss)"""
    names = shrinkers_in(sl)
    keep = []
    for v in names:
        sites = [c for c in sl.calls if c.name == v]
        if sites and all(allowed_call(c) for c in sites):
            continue
        keep.append(v)
    return keep


def snake(name):
    return re.sub(r"(?<!^)(?=[A-Z])", "_", name).lower().replace("pkcs9_email", "pkcs9_email")


def check(ctx):
    prog = ctx.prog
    W1 = ctx.rule("W1", "wire shape of newOrder (RFC 8555 7.4: identifiers[{type,value}], optional notBefore/notAfter) as written by the derived Serialize impls")
    from .wire_shape import check_shapes
    check_shapes(ctx, W1, ["acmed::acme_proto::structs::order::NewOrder", "acmed::acme_proto::structs::order::Identifier"])
    # "signed with the configured digest": the csr_digest / key_type names of the configuration select the like-named variants (C15.K4)
    from . import crypto_tables as _ct
    ctx.shared("C15", lambda c_: _ct.parse_tables(c_, c_.rule("K4", "[shared with C15] FromStr of digest / key-type / algorithm names, every documented spelling")))
    b = prog.async_body(RC)
    R1 = ctx.rule("R1", "newOrder lists every configured identifier, in order, each copied by from_generic")
    nos = b.calls_to("acmed::acme_proto::structs::order::NewOrder::new")
    ctx.floor(R1, "NewOrder::new call in request_certificate", len(nos), 1)
    for c in nos:
        sl = arg_origins(c, 0)
        ctx.require(R1, (CERT, "identifiers") in sl.fields and sl.has_leaf("upvar:0"), c.where(), "NewOrder::new receives cert.identifiers", [RC, "order-source"])
        ctx.require(R1, not shrinkers_in(sl), c.where(), "no identifier is dropped or reordered before the order is built (%s)" % shrinkers_in(sl), [RC, "order-shrunk"])
    nb = prog.must_body("acmed::acme_proto::structs::order::NewOrder::new")
    no_rows = new_order_table(prog)
    if no_rows is not None:
        # evaluation first: NewOrder::new interpreted on configured identifier lists (every conversion helper followed)
        for names, got, want in no_rows:
            ctx.require(R1, got == want, "%s:%s" % (nb.file, nb.line), "NewOrder::new(%s).identifiers = %s (every configured identifier, in order, type and value copied: %s)" % (names, got, want),
                        ["NewOrder::new", "evaluated", repr(names)])
    for i, st in ([] if no_rows is not None else agg_assigns(nb, "acmed::acme_proto::structs::order::NewOrder")):
        idx = st["rv"]["fields"].index("identifiers")
        sl = origins(nb, st["rv"]["ops"][idx], through=True)
        ctx.require(R1, sl.has_leaf("param:1") and not shrinkers_in(sl), where(nb, i), "NewOrder.identifiers = every element of the parameter (%s)" % shrinkers_in(sl), ["NewOrder::new", "identifiers"])
        ctx.require(R1, "fn:acmed::acme_proto::structs::order::Identifier::from_generic" in sl.leaves or any(x.is_("acmed::acme_proto::structs::order::Identifier::from_generic") for x in sl.calls),
                    where(nb, i), "each element goes through Identifier::from_generic", ["NewOrder::new", "from_generic"])
    fg = prog.must_body("acmed::acme_proto::structs::order::Identifier::from_generic") if no_rows is None else None
    for i, st in (agg_assigns(fg, "acmed::acme_proto::structs::order::Identifier") if fg is not None else []):
        for fld in st["rv"]["fields"]:
            sl = origins(fg, st["rv"]["ops"][st["rv"]["fields"].index(fld)], through=True)
            ctx.require(R1, {f for a, f in sl.fields if a == IDENT} == {fld}, where(fg, i), "order identifier `%s` <- configured identifier `%s`" % (fld, fld), ["from_generic", fld])

    R2 = ctx.rule("R2", "CSR dNSName list = identifiers with id_type Dns, iPAddress list = identifiers with id_type Ip, each entry's `value`")
    cs = b.calls_to(CSR)
    ctx.floor(R2, "Csr::new call in request_certificate", len(cs), 1)
    # evaluation-first: request_certificate interpreted along its success path with five configured identifiers of both types
    # (props/request_model.py): which names reach Csr::new, in which list and order, and which key signs it
    from .request_model import key_rule, names_rule, request_traces
    rtr = request_traces(prog)
    if rtr is not None:
        names_rule(ctx, R2, rtr)
    passes = {}
    for c in (cs if rtr is None else []):
        for pos, want, pname in ((2, "Dns", "domains"), (3, "Ip", "ips")):
            sl = arg_origins(c, pos)
            ctx.require(R2, (CERT, "identifiers") in sl.fields and sl.has_leaf("upvar:0"), c.where(), "Csr::new `%s` derives from cert.identifiers" % pname, [RC, "csr-source", pname])
            clos = [prog.body(l[8:]) for l in sl.leaves_like("closure:") if prog.body(l[8:])]
            filt = [x for x in clos if x.raw.get("output") is None and returns_bool(x)]
            maps = [x for x in clos if x not in filt]
            pushes = [x for x in sl.calls if x.is_("alloc::vec::Vec::push")]
            # accepted shapes: identifiers.filter(predicate).map(projection).collect()  |  a loop pushing under a test of id_type
            ctx.require(R2, (len(filt) >= 1 and len(maps) == 1 and not pushes) or (pushes and not filt), c.where(),
                        "`%s` is selected from the identifiers by a filter predicate or by pushes under a test of id_type (found %d predicate(s), %d projection(s), %d push(es))"
                        % (pname, len(filt), len(maps), len(pushes)), [RC, "csr-shape", pname])
            others = [v for v in shrinkers_in(sl) if not v.endswith("::filter")]
            ctx.require(R2, not others, c.where(), "no other element is dropped from `%s` (%s)" % (pname, others), [RC, "csr-shrunk", pname])
            for v in prog.adt_variants(IDT):
                enters = None
                if filt:
                    enters = True
                    for f in filt:
                        ident = struct_val(prog, IDENT, {"id_type": variant(IDT, v), "value": marker("VAL")})
                        r = run(f, {1: closure_env(prog, b, f, sl), 2: Val("ref", Val("ref", ident))})
                        if r.kind != "return" or r.ret.k != "bool":
                            enters = None
                            break
                        enters = enters and r.ret.v
                elif pushes:
                    rem, ntests = enum_edges(b, (IDENT, "id_type"), v)
                    if ntests:
                        reach = b.reachable(0, removed_edges=rem)
                        enters = any(x.bb in reach for x in pushes)
                if enters is None:
                    ctx.fail(R2, c.where(), "the selection of `%s` cannot be evaluated for %s" % (pname, v), [RC, "csr-predicate-eval", pname])
                    continue
                if enters:
                    passes.setdefault(v, []).append(pname)
                ctx.require(R2, enters == (v == want), c.where(), "identifier of type %s %s the `%s` list" % (v, "enters" if enters else "does not enter", pname),
                            [RC, "csr-predicate", pname, v])
            for m in maps:
                reads = {(e.get("adt"), e.get("n")) for blk in m.blocks for st in blk["stmts"] if st["s"] == "assign" for e in (st["rv"].get("place") or {"p": []})["p"] if isinstance(e, dict)}
                ctx.require(R2, (IDENT, "value") in reads and (IDENT, "id_type") not in reads, "%s:%s" % (m.file, m.line), "`%s` entries are the identifiers' `value`" % pname, [RC, "csr-projection", pname])
            for x in pushes:
                vs = arg_origins(x, 1)
                idf = {f for a, f in vs.fields if a == IDENT}
                ctx.require(R2, idf == {"value"}, x.where(), "`%s` entries are the identifiers' `value` (%s)" % (pname, sorted(idf)), [RC, "csr-projection", pname])
    for v in (prog.adt_variants(IDT) if rtr is None else []):
        ctx.require(R2, len(passes.get(v, [])) == 1, "acmed/src/acme_proto.rs", "every identifier type reaches exactly one CSR list (%s -> %s)" % (v, passes.get(v)), [RC, "csr-partition", v])

    R3 = ctx.rule("R3", "the CSR key is get_key_pair's key, the same value that is matched against the certificate and stored when new")
    from .c03 import GKP, HPK, STORE
    if rtr is not None:
        key_rule(ctx, R3, rtr)
        new_key_flag_rule(ctx, R3)
        # a fresh key has the configured type — wherever it is generated on request_certificate's paths
        kt_ok = False
        for kb in [prog.body(k) for k in sorted(prog.reach([RC, RC + "::{closure#0}"])) if k.startswith("acmed::acme_proto")]:
            if kb is None or prog.absorbed(kb.key):
                continue
            for c in prog.body(kb.key).calls_to("acme_common::crypto::openssl_keys::gen_keypair"):
                kt_ok = True
                ctx.require(R3, (CERT, "key_type") in arg_origins(c, 0).fields, c.where(), "a new key has the configured key_type", [kb.key.split("::{closure")[0], "key-type"])
        ctx.require(R3, kt_ok, "%s:%s" % (b.file, b.line), "gen_keypair call found on request_certificate's paths", [RC, "key-type-site"])
        return r4_and_rest(ctx, b)
    for c in cs:
        sl = arg_origins(c, 0)
        srcs = [x for x in sl.calls if x.is_or_polls(GKP)]
        gen_here = [x for x in sl.calls if x.is_("acme_common::crypto::openssl_keys::gen_keypair")]
        ctx.require(R3, bool(srcs) and not gen_here, c.where(), "Csr::new's key pair is the one returned by certificate::get_key_pair(cert)", [RC, "csr-key"])
        base = sl.locals
        for other in b.calls_to(STORE) + b.calls_to(HPK):
            o = arg_origins(other, 1)
            shared = any(x.is_or_polls(GKP) for x in o.calls) and not any(x.is_("acme_common::crypto::openssl_keys::gen_keypair") for x in o.calls)
            ctx.require(R3, shared, other.where(), "%s uses the same key pair as the CSR" % other.name.rsplit("::", 1)[1], [RC, "same-key", other.name.rsplit("::", 1)[1]])
    n_gkp = len(b.calls_to(GKP))
    ctx.require(R3, n_gkp == 1, "%s:%s" % (b.file, b.line), "get_key_pair is called exactly once per attempt (found %d)" % n_gkp, [RC, "key-once"])
    new_key_flag_rule(ctx, R3)
    gk = prog.async_body(GKP)
    for c in gk.calls_to("acme_common::crypto::openssl_keys::gen_keypair"):
        sl = arg_origins(c, 0)
        ctx.require(R3, (CERT, "key_type") in sl.fields, c.where(), "a new key has the configured key_type", [GKP, "key-type"])
    kr = [c for c in gk.calls_to("acmed::acme_proto::certificate::read_key_pair")]
    for c in kr:
        from ..util import bool_edges, switches_on
        # read only when kp_reuse
        sw = [i for i in gk.live_blocks() if gk.term(i)["t"] == "switch" and gk.term(i)["dty"] == "bool" and (CERT, "kp_reuse") in origins(gk, gk.term(i)["discr"]).fields]
        edges = [(i, bool_edges(gk, i)[0]) for i in sw]
        good, hit = unreachable_without(gk, [c.bb], removed_edges=edges)
        ctx.require(R3, bool(edges) and good, c.where(), "the stored key is re-read only when kp_reuse is set", [GKP, "reuse-gate"])

    return r4_and_rest(ctx, b)


def r4_and_rest(ctx, b):
    prog = ctx.prog
    R4 = ctx.rule("R4", "identifiers are normalised at load: Identifier::new is the only constructor; value = to_idna(v) for Dns, IpAddr::from_str(v).to_string() for Ip")
    lits = []
    for body in prog.user_bodies(("acmed",)):
        for i, st in agg_assigns(body, IDENT):
            lits.append((body, i))
    ctx.floor(R4, "struct literals of identifier::Identifier", len(lits), 1)
    for body, i in lits:
        ctx.require(R4, body.key == IDENT + "::new", where(body, i), "identifier::Identifier constructed in %s" % body.key, [body.key.split("::{closure")[0], "identifier-literal"])
    normalisation_rule(ctx, R4)
    tg = prog.must_body("acmed::config::Identifier::to_generic")
    for c in tg.calls_to(IDENT + "::new"):
        ctx.ok(R4, "config::Identifier::to_generic -> Identifier::new")
    for dns, ip, want_t, want_f in ((True, False, "Dns", "dns"), (False, True, "Ip", "ip")):
        self_v = struct_val(prog, "acmed::config::Identifier", {"dns": some(marker("DNSV")) if dns else NONE, "ip": some(marker("IPV")) if ip else NONE})
        r = run(tg, {1: Val("ref", self_v)})
        calls = r.called(IDENT + "::new")
        good = bool(calls) and calls[0][1][0].deref().k == "variant" and calls[0][1][0].deref().v == want_t and (want_f.upper() + "V") in repr(calls[0][1][1])
        ctx.require(R4, good, "%s:%s" % (tg.file, tg.line), "config identifier with `%s` -> Identifier::new(%s, that value)" % (want_f, want_t), ["config::Identifier::to_generic", want_f])
    mel = prog.async_body("acmed::main_event_loop::MainEventLoop::new")
    for i, st in agg_assigns(mel, CERT):
        sl = origins(mel, st["rv"]["ops"][st["rv"]["fields"].index("identifiers")])
        ctx.require(R4, any(x.is_("acmed::config::Certificate::get_identifiers") for x in sl.calls) and not shrinkers_in(sl), where(mel, i),
                    "Certificate.identifiers = crt.get_identifiers() (whole list)", ["MainEventLoop::new", "identifiers"])
    gi = prog.must_body("acmed::config::Certificate::get_identifiers")
    # evaluation-first: three configured identifiers A, B, C -> Ok([to_generic(A), to_generic(B), to_generic(C)])
    cv = struct_val(prog, "acmed::config::Certificate", {"identifiers": Val("list", [marker("A"), marker("B"), marker("C")])})

    def gen_model(cs, args):
        if (cs.name or "").endswith("config::Identifier::to_generic") and args:
            return ok(Val("unknown", "G(%r)" % args[0].deref()))
        return None
    got = None
    try:
        r = run(gi, {1: Val("ref", cv)}, gen_model, max_steps=20000)
        if r.kind == "return" and r.ret is not None:
            rv = r.ret.deref()
            if rv.k == "adt" and rv.extra and rv.extra[1] == "Ok" and rv.v and rv.v[0].deref().k == "list":
                got = [repr(x.deref()) for x in rv.v[0].deref().v]
    except Exception:
        got = None
    if got is not None:
        ctx.require(R4, got == ["?G(?A)", "?G(?B)", "?G(?C)"], "%s:%s" % (gi.file, gi.line), "get_identifiers converts every configured identifier with to_generic, in order (A, B, C -> %s)" % got,
                    ["config::Certificate::get_identifiers", "all"])
    else:
        sl = origins(gi, {"l": 0, "p": []}, through=True)
        ctx.require(R4, ("acmed::config::Certificate", "identifiers") in sl.fields and any(x.is_("acmed::config::Identifier::to_generic") for x in sl.calls) and not shrinkers_in(sl),
                    "%s:%s" % (gi.file, gi.line), "get_identifiers converts every configured identifier with to_generic, in order", ["config::Certificate::get_identifiers", "all"])
        # not evaluable (the loop got a condition the interpreter cannot decide on symbolic identifiers): then at least no converted
        # identifier may skip the push — from the success edge of to_generic every way back to the loop head goes through Vec::push
        tg_calls = [c for c in gi.calls if (c.name or "").endswith("config::Identifier::to_generic")]
        pushes = [c.bb for c in gi.calls if (c.name or c.fn or "").endswith(("Vec::push", "Vec<T, A>::push")) or (c.fn or "") == "alloc::vec::Vec::push"]
        heads = {c.bb for c in gi.calls if (c.fn or "") == "core::iter::traits::iterator::Iterator::next"}
        if tg_calls and pushes and heads:
            from ..mir import try_edges as _te
            for c in tg_calls:
                oks = [tg for t in _te(gi, [c.dest["l"]]) for tg in t["ok"]]
                for tg in oks:
                    r_ = gi.reachable([tg], removed_nodes=pushes)
                    ctx.require(R4, not (heads & set(r_)) and not (set(gi.return_blocks()) & set(r_)), c.where(),
                                "every identifier that converted is pushed: no path from to_generic's success back to the loop (or out) avoids the push",
                                ["config::Certificate::get_identifiers", "skip-push"])

    csr_internals(ctx)


def closure_env(prog, body, clos, sl):
    """abstract environment (argument 1) of a closure: its captured values, taken from the closure construction that the
    slice `sl` passes through (a helper inlined twice yields two constructions of the same closure with different captures)"""
    vals = []
    for i, st in agg_assigns(body, kind="closure"):
        if st["rv"].get("def") != clos.key or st["lhs"]["l"] not in sl.locals:
            continue
        for o in st["rv"]["ops"]:
            cs_ = origins(body, o).consts
            vs = {(strip_generics(x.get("adt") or str(x.get("pp", "")).rsplit("::", 1)[0]), x.get("variant") or str(x.get("pp", "")).rsplit("::", 1)[-1]) for x in cs_}
            vs = {x for x in vs if x[0].endswith("IdentifierType")}
            vals.append(Val("ref", variant(IDT, next(iter(vs))[1])) if len(vs) == 1 else Val("unknown", "capture"))
        break
    return Val("ref", Val("adt", vals, ("closure", "env")))


def returns_bool(body):
    return body.local_ty(0) == "bool"


def csr_internals(ctx):
    prog = ctx.prog
    R5 = ctx.rule("R5", "Csr::new: same key for set_pubkey and sign; all names and subject attributes added; digest via get_digest(digest, key); NID table; attribute field/variant pairing")
    cb = prog.must_body(CSR)
    sp = cb.calls_to("openssl::x509::X509ReqBuilder::set_pubkey")
    sg = cb.calls_to("openssl::x509::X509ReqBuilder::sign")
    ctx.floor(R5, "set_pubkey + sign in Csr::new", len(sp) + len(sg), 2)
    for c in sp + sg:
        sl = arg_origins(c, 1)
        ctx.require(R5, sl.has_leaf("param:1") and ("acme_common::crypto::openssl_keys::KeyPair", "inner_key") in sl.fields, c.where(),
                    "%s uses key_pair.inner_key of the key_pair parameter" % c.name.rsplit("::", 1)[1], ["Csr::new", "key", c.name.rsplit("::", 1)[1]])
    for c in sg:
        d = arg_origins(c, 2)
        ctx.require(R5, any(x.is_("acme_common::crypto::openssl_certificate::get_digest") for x in d.calls), c.where(), "the signing digest comes from get_digest", ["Csr::new", "digest"])
    for c in cb.calls_to("acme_common::crypto::openssl_certificate::get_digest"):
        ctx.require(R5, arg_origins(c, 0).has_leaf("param:2") and arg_origins(c, 1).has_leaf("param:1"), c.where(), "get_digest(digest parameter, key_pair)", ["Csr::new", "digest-args"])
    from .guards import body_family, closure_users
    fam = body_family(prog, CSR)
    ctr = csr_new_trace(prog)
    if ctr is not None:
        # evaluation first: Csr::new interpreted (every OpenSSL call succeeds) on two name lists and a subject map: the trace of
        # builder calls says which names and attributes were added, with which key, in which order relative to `sign`
        for what, got, want in ctr:
            ctx.require(R5, got == want, "%s:%s" % (cb.file, cb.line), "Csr::new evaluated: %s = %s (expected %s)" % (what, got, want), ["Csr::new", "evaluated", what])
    for name, param, what in ([] if ctr is not None else [("openssl::x509::extension::SubjectAlternativeName::dns", 3, "dNSName"), ("openssl::x509::extension::SubjectAlternativeName::ip", 4, "iPAddress")]):
        calls = [c for fb in fam for c in fb.calls_to(name)]
        ctx.floor(R5, "SubjectAlternativeName::%s call" % name.rsplit("::", 1)[1], len(calls), 1)
        for c in calls:
            sl = arg_origins(c, 1)
            only = {l.split(".")[0] for l in sl.leaves if l.startswith("param:")}
            if c.body is cb:
                # a loop of Csr::new over the parameter
                ctx.require(R5, only == {"param:%d" % param}, c.where(), "%s entries come from the %s parameter (%s)" % (what, "domains" if param == 3 else "ips", sorted(only)), ["Csr::new", "san", what])
                ctx.require(R5, cb.scc_of(c.bb) is not None and not shrinkers_in(sl), c.where(), "one %s entry per list element" % what, ["Csr::new", "san-all", what])
            else:
                # inside a closure handed to an internal-iteration adaptor: list.iter().for_each(|x| san.dns(x))
                users = closure_users(cb, c.body.key)
                good = only == {"param:2"} and len(users) == 1 and users[0].name.rsplit("::", 1)[-1] in ("for_each", "try_for_each")
                rsl = arg_origins(users[0], 0) if users else None
                ronly = {l.split(".")[0] for l in rsl.leaves if l.startswith("param:")} if rsl else set()
                ctx.require(R5, good and ronly == {"param:%d" % param}, c.where(), "%s entries come from the %s parameter (%s via %s)" % (what, "domains" if param == 3 else "ips", sorted(ronly), [u.name for u in users]),
                            ["Csr::new", "san", what])
                ctx.require(R5, good and not shrinkers_in(rsl) and not shrinkers_in(sl), c.where(), "one %s entry per list element" % what, ["Csr::new", "san-all", what])
    ok_ret = [i for i, st in agg_assigns(cb, "core::result::Result", "Ok") if st["lhs"]["l"] == 0]
    for nm in ("openssl::x509::extension::SubjectAlternativeName::build", "openssl::stack::StackRef::push", "openssl::x509::X509ReqBuilder::add_extensions",
               "openssl::x509::X509ReqBuilder::sign", "openssl::x509::X509ReqBuilder::set_pubkey"):
        calls = cb.calls_to(nm)
        good, hit = unreachable_without(cb, ok_ret, removed_nodes=[c.bb for c in calls])
        ctx.require(R5, bool(calls) and good, "%s:%s" % (cb.file, cb.line), "every successful Csr::new passes %s" % nm.rsplit("::", 2)[-2:], ["Csr::new", "must-pass", nm.rsplit("::", 1)[1]])
    # the signature covers the request as it is when `sign` runs: no setter of the request builder may follow it (a subject or an
    # extension added after signing leaves a CSR whose self-signature does not verify)
    signs = cb.calls_to("openssl::x509::X509ReqBuilder::sign")
    for sg_ in signs:
        after = cb.reachable_after(sg_.bb)
        late = [c for c in cb.calls if c.bb in after and c.bb != sg_.bb and (c.name or "").startswith("openssl::x509::X509ReqBuilder::")
                and (c.name or "").rsplit("::", 1)[-1] not in ("build", "sign", "x509v3_context")
                and (c.term.get("arg_tys") or [""])[0].startswith("&mut ")]
        ctx.require(R5, not late, (late[0] if late else sg_).where(), "nothing is set on the request after it has been signed (%s)" % sorted({c.name.rsplit("::", 1)[-1] for c in late}),
                    ["Csr::new", "set-after-sign"])
    ap = cb.calls_to("openssl::x509::X509NameBuilder::append_entry_by_nid") if ctr is None else []
    if ctr is None:
        ctx.floor(R5, "append_entry_by_nid in Csr::new", len(ap), 1)
    for c in ap:
        n = arg_origins(c, 1, through=True)
        v = arg_origins(c, 2)
        ctx.require(R5, any("get_nid" in x.name for x in n.calls) and n.has_leaf("param:5")
                    and v.has_leaf("param:5") and cb.scc_of(c.bb) is not None, c.where(), "each (attribute, value) of subject_attributes is appended under attribute.get_nid()", ["Csr::new", "subject"])
    # when attributes are present the subject name is set
    sn = cb.calls_to("openssl::x509::X509ReqBuilder::set_subject_name")
    ctx.require(R5, bool(sn) or ctr is not None, "%s:%s" % (cb.file, cb.line), "the built name is installed with set_subject_name", ["Csr::new", "set-subject"])
    # NID table
    gn = [b for k, b in prog.bodies.items() if k.endswith("::get_nid") and "acme_common" in k]
    ctx.floor(R5, "SubjectAttribute::get_nid body", len(gn), 1)
    SA = "acme_common::crypto::BaseSubjectAttribute"
    if gn:
        tab = enum_table(prog, gn[0], SA)
        ctx.floor(R5, "subject attribute variants", len(tab), 15)
        for v, r in tab.items():
            got = None
            if r.kind == "return":
                rv = r.ret.deref()
                got = (rv.v if rv.k in ("variant", "unknown") else repr(rv))
            exp = NID_ORACLE.get(v)
            m = re.search(r"Nid\((\d+)_i32\)", str(got)) or re.search(r"Nid\[int\((\d+)\)\]", repr(got))
            ctx.require(R5, m is not None and exp is not None and int(m.group(1)) == exp[1], "%s:%s" % (gn[0].file, gn[0].line),
                        "get_nid(%s) = NID_%s = %s (got %s)" % (v, exp[0] if exp else "?", exp[1] if exp else "?", got), ["get_nid", v])
    tg = prog.must_body("acmed::config::SubjectAttributes::to_generic")
    fields = prog.adt_fields("acmed::config::SubjectAttributes")
    ctx.floor(R5, "fields of config::SubjectAttributes", len(fields), 15)
    pairs = {}
    # evaluation-first: every field set to a distinct marker -> the (attribute, value) pairs of the resulting map
    evaluated = False
    try:
        sv = struct_val(prog, "acmed::config::SubjectAttributes", {f: some(marker("F_" + f)) for f in fields})
        r = run(tg, {1: Val("ref", sv)}, None, max_steps=60000)
        rv = r.ret.deref() if r.kind == "return" and r.ret is not None else None
        if rv is not None and rv.k == "list" and rv.extra == "map" and all(x.deref().k == "tuple" and x.deref().v[0].deref().k == "variant" for x in rv.v):
            evaluated = True
            for x in rv.v:
                kx, vx = x.deref().v[0].deref(), repr(x.deref().v[1].deref())
                for f in fields:
                    if vx == "?F_" + f:
                        pairs.setdefault(f, set()).add(kx.v)
            # and an unset field contributes nothing
            sv0 = struct_val(prog, "acmed::config::SubjectAttributes", {f: NONE for f in fields})
            r0 = run(tg, {1: Val("ref", sv0)}, None, max_steps=60000)
            rv0 = r0.ret.deref() if r0.kind == "return" and r0.ret is not None else None
            ctx.require(R5, rv0 is not None and rv0.k == "list" and not rv0.v, "%s:%s" % (tg.file, tg.line), "unset subject attributes contribute nothing to the CSR subject",
                        ["config::SubjectAttributes::to_generic", "unset"])
    except Exception:
        evaluated = False
    if not evaluated:
        pairs = {}
        pairs = {}
        for c in tg.calls_to("std::collections::hash::map::HashMap::insert"):
            k = arg_origins(c, 1)
            v = arg_origins(c, 2, stop_adts=("acmed::config::SubjectAttributes",))
            vf = {f for a, f in v.fields if a == "acmed::config::SubjectAttributes"}
            kv = {x.get("variant") for x in k.consts if x.get("variant")} | {l.rsplit("::", 1)[1] for l in k.leaves if l.startswith("const:") and "SubjectAttribute" in l}
            for f in vf:
                pairs.setdefault(f, set()).update(kv)
    for f in fields:
        want = "".join(p.capitalize() for p in f.split("_")).replace("Pkcs9EmailAddress", "Pkcs9EmailAddress")
        ctx.require(R5, pairs.get(f) == {want}, "%s:%s" % (tg.file, tg.line), "subject_attributes.%s -> SubjectAttribute::%s (found %s)" % (f, want, sorted(pairs.get(f, []))),
                    ["config::SubjectAttributes::to_generic", f])
    mel = prog.async_body("acmed::main_event_loop::MainEventLoop::new")
    for i, st in agg_assigns(mel, CERT):
        for fld, src in (("subject_attributes", "acmed::config::SubjectAttributes::to_generic"), ("csr_digest", "acmed::config::Certificate::get_csr_digest"), ("key_type", "acmed::config::Certificate::get_key_type"),
                         ("kp_reuse", "acmed::config::Certificate::get_kp_reuse")):
            sl = origins(mel, st["rv"]["ops"][st["rv"]["fields"].index(fld)])
            ctx.require(R5, any(x.is_(src) for x in sl.calls), where(mel, i), "Certificate.%s <- %s" % (fld, src.rsplit("::", 1)[1]), ["MainEventLoop::new", "cert-field", fld])
    b = prog.async_body(RC)
    for c in b.calls_to(CSR):
        ctx.require(R5, (CERT, "csr_digest") in arg_origins(c, 1).fields, c.where(), "Csr::new receives cert.csr_digest", [RC, "csr-digest"])
        ctx.require(R5, (CERT, "subject_attributes") in arg_origins(c, 4).fields, c.where(), "Csr::new receives cert.subject_attributes", [RC, "csr-subject"])
    # the CSR sent is this CSR
    for c in b.calls_to("acmed::acme_proto::http::finalize_order"):
        pass


IDNA_SAMPLES = ["example.org", "Example.ORG", "ns1.xn--HLO-bma.Example.com", "XN--HLO-BMA.example.com", "m\u00fcnchen.de", "M\u00dcNCHEN.De", "*.Example.org",
                "a.b-c.D", "stra\u00dfe.example", "\u4f8b\u3048.\u30c6\u30b9\u30c8", "*.b\u00fccher.example.org", "_acme-challenge.B\u00dccher.example", "a_b.example.org"]


def idna_rule(ctx, rid):
    """acme_common::to_idna EVALUATED on sample names (punycode::encode answered by Python's punycode codec): every label is
    lower-cased, a non-ASCII label becomes `xn--` + punycode(lower-cased label), labels are joined with '.'; an A-label given
    in mixed case is lower-cased like any other ASCII label. Shared by C01 (identifiers in the order/CSR), C06 (names compared
    with the certificate) and C16 (the name tacd puts in its certificate). Not evaluable -> no verdict from this rule."""
    prog = ctx.prog
    b = prog.body("acme_common::to_idna")
    if b is None:
        return

    def model(cs, args):
        n = cs.name or ""
        d = [a.deref() for a in args]
        if n.startswith("punycode::encode") and d and d[0].k == "str":
            return ok(Val("str", d[0].v.encode("punycode").decode("ascii")))
        return None
    rows = []
    for dn in IDNA_SAMPLES:
        try:
            r = run(b, {1: Val("ref", Val("str", dn))}, model, max_steps=60000)
        except Exception:
            return
        rv = r.ret.deref() if r.kind == "return" and r.ret is not None else None
        if rv is None or rv.k != "adt" or not rv.extra or rv.extra[1] != "Ok" or not rv.v or rv.v[0].deref().k != "str":
            return
        want = ".".join((l.lower() if all(ord(c) < 128 for c in l) else "xn--" + l.lower().encode("punycode").decode("ascii")) for l in dn.split("."))
        rows.append((dn, rv.v[0].deref().v, want))
    for dn, got, want in rows:
        ctx.require(rid, got == want, "%s:%s" % (b.file, b.line), "to_idna(%r) evaluates to %r (lower-cased A-labels: %r)" % (dn, got, want), ["acme_common::to_idna", "value", dn])


def normalisation_rule(ctx, R4):
    """Identifier::new(type, v).value, evaluated per identifier type: to_idna(v) for Dns, IpAddr::from_str(v).to_string() for Ip —
    shared with C06 (the certificate's SAN text is canonical, so a non-canonical configured IP would look `missing` for ever)"""
    prog = ctx.prog
    idna_rule(ctx, R4)
    inew = prog.must_body(IDENT + "::new")

    def model(cs_, args):
        if cs_.is_("acme_common::to_idna"):
            return ok(Val("unknown", "IDNA(%r)" % (args[0].deref(),)))
        if cs_.is_("core::str::traits::FromStr::from_str") or cs_.is_("core::net::ip_addr::IpAddr::from_str", "*IpAddr as core::str::traits::FromStr>::from_str"):
            return ok(Val("unknown", "IPADDR(%r)" % (args[0].deref(),)))
        if cs_.is_("alloc::string::ToString::to_string") and args and (args[0].deref().v or "").__class__ is str and "IPADDR" in str(args[0].deref().v):
            return Val("unknown", "TEXT(%s)" % args[0].deref().v)
        if cs_.is_("acmed::acme_proto::Challenge::from_str"):
            return ok(marker("CHALLENGE"))
        if cs_.is_("acmed::identifier::IdentifierType::supported_challenges"):
            return marker("SUPPORTED")
        if cs_.is_("core::slice::<impl [T]>::contains"):
            from ..absint import vbool
            return vbool(True)
        return None

    rows = identifier_new_table(prog)
    if rows is not None:
        # evaluation first: Identifier::new on concrete values (to_idna, the challenge parser and every identifier helper followed)
        for (t_, v_), got, want in rows:
            ctx.require(R4, got == want, "%s:%s" % (inew.file, inew.line), "Identifier::new(%s, %r).value = %r (expected %r: %s)" % (t_, v_, got, want, "to_idna(v)" if t_ == "Dns" else "IpAddr::from_str(v).to_string()"),
                        [IDENT + "::new", "normalise", t_, v_])
        return
    for v, wantpat in (("Dns", r"IDNA\(.*VALUE"), ("Ip", r"TEXT\(IPADDR\(.*VALUE")):
        r = run(inew, {1: variant(IDT, v), 2: Val("ref", marker("VALUE")), 3: Val("ref", marker("CH")), 4: Val("ref", marker("ENV"))}, model)
        got = None
        if r.kind == "return":
            ret = r.ret.deref()
            if ret.k == "adt" and ret.extra[1] == "Ok":
                idv = ret.v[0].deref()
                if idv.k == "adt":
                    names = prog.adt_fields(IDENT)
                    got = idv.v[names.index("value")].deref()
        ctx.require(R4, got is not None and re.search(wantpat, repr(got)) is not None, "%s:%s" % (inew.file, inew.line),
                    "Identifier::new(%s, v).value = %s (got %r, run %s)" % (v, "to_idna(v)" if v == "Dns" else "IpAddr::from_str(v).to_string()", got, r.kind), [IDENT + "::new", "normalise", v])


def new_order_table(prog):
    """NewOrder::new EVALUATED on lists of configured identifiers: [(input [(type, value)], got [(type, value)], want)] or None"""
    from ..absint import Interp, Val, struct_val, variant, vstr
    NO, OI, IT = "acmed::acme_proto::structs::order::NewOrder", "acmed::acme_proto::structs::order::Identifier", "acmed::identifier::IdentifierType"
    nb = prog.body(NO + "::new")
    if nb is None or prog.adt(IDENT) is None or prog.adt(OI) is None or "identifiers" not in prog.adt_fields(NO):
        return None
    f_in, f_out = prog.adt_fields(IDENT), prog.adt_fields(OI)
    if not {"id_type", "value"} <= set(f_in) or not {"id_type", "value"} <= set(f_out):
        return None
    rows = []
    samples = [[("Dns", "example.org"), ("Ip", "203.0.113.7"), ("Dns", "*.example.org"), ("Ip", "2001:db8::1"), ("Dns", "a.example.org")], [("Ip", "192.0.2.1")], [], [("Dns", "b.test"), ("Dns", "a.test"), ("Dns", "b.test")]]
    for names in samples:
        lst = Val("list", [struct_val(prog, IDENT, {"id_type": variant(IT, t), "value": vstr(v)}) for t, v in names])
        try:
            it = Interp(nb, None, 100000)
            it.follow = lambda cs: "acme_proto::structs::order::" in (cs.name or "") or "acmed::identifier::" in (cs.name or "")
            r = it.run({1: Val("ref", lst)})
        except Exception:
            return None
        rv = r.ret.deref() if r.kind == "return" and r.ret is not None else None
        if rv is None or rv.k != "adt":
            return None
        ids = rv.v[prog.adt_fields(NO).index("identifiers")].deref()
        if ids.k != "list":
            return None
        got = []
        for x in ids.v:
            xd = x.deref()
            if xd.k != "adt" or not xd.extra or xd.extra[0] != OI:
                return None
            t_, v_ = xd.v[f_out.index("id_type")].deref(), xd.v[f_out.index("value")].deref()
            if t_.k != "variant" or v_.k != "str":
                return None
            got.append((t_.v, v_.v))
        rows.append((names, got, list(names)))
    return rows


def identifier_new_table(prog):
    """Identifier::new EVALUATED: [((type, configured value), stored value | "Err", expected)] or None. Expected: lower-cased A-labels
    for DNS names (RFC 5891 through the punycode crate, answered by Python's codec), the canonical text of the address for IPs, an
    error for text that is not an address."""
    import ipaddress
    from ..absint import Interp, Val, ok as _ok, variant, vstr
    inew = prog.body(IDENT + "::new")
    if inew is None or inew.arg_count != 4:
        return None

    def model(cs, args):
        n = cs.name or ""
        d = [a.deref() for a in args]
        if n.startswith("punycode::encode") and d and d[0].k == "str":
            return _ok(Val("str", d[0].v.encode("punycode").decode("ascii")))
        return None
    samples = [("Dns", "example.org", "http-01"), ("Dns", "Example.ORG", "dns-01"), ("Dns", "*.Example.org", "dns-01"), ("Dns", "b\u00fccher.example", "tls-alpn-01"), ("Ip", "203.0.113.7", "http-01"),
               ("Ip", "2001:DB8:0:0:0:0:0:1", "tls-alpn-01"), ("Ip", "2001:db8::0:1", "http-01"), ("Ip", "::ffff:192.0.2.1", "http-01"), ("Ip", "::FFFF:C000:0201", "tls-alpn-01"), ("Ip", "::1", "http-01"), ("Ip", "not-an-address", "http-01"), ("Ip", "192.0.2.300", "http-01")]
    rows = []
    for t_, v_, ch_ in samples:
        try:
            it = Interp(inew, model, 100000)
            it.follow = lambda cs: (cs.name or "").startswith(("acmed::identifier::", "<acmed::identifier::", "acme_common::to_idna", "acmed::acme_proto::Challenge", "<acmed::acme_proto::Challenge"))
            r = it.run({1: variant(IDT, t_), 2: Val("ref", vstr(v_)), 3: Val("ref", vstr(ch_)), 4: Val("ref", Val("list", [], "map"))})
        except Exception:
            return None
        rv = r.ret.deref() if r.kind == "return" and r.ret is not None else None
        if rv is None or rv.k != "adt" or not rv.extra:
            return None
        if rv.extra[1] == "Err":
            got = "Err"
        else:
            idv = rv.v[0].deref() if rv.v else None
            if idv is None or idv.k != "adt":
                return None
            val = idv.v[prog.adt_fields(IDENT).index("value")].deref()
            if val.k != "str":
                return None
            got = val.v
        if t_ == "Dns":
            want = ".".join((l.lower() if all(ord(c) < 128 for c in l) else "xn--" + l.lower().encode("punycode").decode("ascii")) for l in v_.split("."))
        else:
            try:
                from ..absint import _ip_text
                want = _ip_text(Val("ip", list(ipaddress.ip_address(v_).packed)))      # the address as Rust prints it: NOT folded to IPv4 when v4-mapped
            except ValueError:
                want = "Err"
        rows.append(((t_, v_), got, want))
    return rows


def csr_new_trace(prog):
    """Csr::new EVALUATED with every OpenSSL call succeeding: [(what, got, expected)] or None. Inputs: domains [a.example, b.example,
    a.example], ips [192.0.2.1, 2001:db8::1], two subject attributes; and the same with empty lists / no attribute."""
    from ..absint import Interp, Val, marker, struct_val, success_model, variant, vstr
    cb = prog.body(CSR)
    SA = "acme_common::crypto::BaseSubjectAttribute"
    if cb is None or cb.arg_count != 5 or SA not in prog.adts:
        return None
    KP = "acme_common::crypto::openssl_keys::KeyPair"
    rows = []
    sav = prog.adt_variants(SA)
    if len(sav) < 2:
        return None
    for tag, doms, ips, attrs in (("full", ["a.example", "b.example", "a.example"], ["192.0.2.1", "2001:db8::1"], [(a_, "v%d" % i_) for i_, a_ in enumerate(sav)]), ("no-ip", ["c.example"], [], []), ("ip-only", [], ["203.0.113.9"], [(sav[-1], "vz")])):
        kp = struct_val(prog, KP, {"inner_key": marker("INNERKEY")})
        amap = Val("list", [Val("tuple", [variant(SA, a), vstr(v)]) for a, v in attrs], "map")
        try:
            it = Interp(cb, success_model(cb, None), 200000)
            it.follow = lambda cs: (cs.name or "").startswith(("acme_common::crypto::openssl_certificate::", "<acme_common::crypto::openssl_certificate::")) and not (cs.name or "").endswith("get_digest")
            r = it.run({1: Val("ref", kp), 2: marker("DIGEST"), 3: Val("ref", Val("list", [vstr(x) for x in doms])), 4: Val("ref", Val("list", [vstr(x) for x in ips])), 5: Val("ref", amap)})
        except Exception:
            return None
        if r.kind != "return":
            return None
        ev = []
        for c, a, res in r.calls:
            n = (c.name or "")
            m = n.rsplit("::", 1)[-1]
            if n.endswith("SubjectAlternativeName::dns") or n.endswith("SubjectAlternativeName::ip"):
                v = a[1].deref() if len(a) > 1 else None
                ev.append((m, v.v if v is not None and v.k == "str" else None))
            elif n.endswith("X509NameBuilder::append_entry_by_nid"):
                v = a[2].deref() if len(a) > 2 else None
                nid = a[1].deref() if len(a) > 1 else None
                ev.append(("attr", v.v if v is not None and v.k == "str" else None, "get_nid" in repr(nid) or nid.k in ("adt", "int")))
            elif n.endswith("X509ReqBuilder::set_pubkey") or n.endswith("X509ReqBuilder::sign"):
                ev.append((m, "INNERKEY" in repr(a[1].deref()) if len(a) > 1 else False))
            elif n.endswith("X509ReqBuilder::add_extensions") or n.endswith("X509ReqBuilder::set_subject_name") or n.endswith("SubjectAlternativeName::build") or n.endswith("X509ReqBuilder::build"):
                ev.append((m,))
        if any(e[0] in ("dns", "ip") and e[1] is None for e in ev) or any(e[0] == "attr" and e[1] is None for e in ev):
            return None
        rows.append(("%s: dNSName entries" % tag, [e[1] for e in ev if e[0] == "dns"], doms))
        rows.append(("%s: iPAddress entries" % tag, [e[1] for e in ev if e[0] == "ip"], ips))
        rows.append(("%s: subject attribute values" % tag, sorted(e[1] for e in ev if e[0] == "attr"), sorted(v for a, v in attrs)))
        rows.append(("%s: subject installed when attributes exist" % tag, ("set_subject_name",) in ev, bool(attrs)))
        rows.append(("%s: key of set_pubkey and sign" % tag, [e for e in ev if e[0] in ("set_pubkey", "sign")], [("set_pubkey", True), ("sign", True)]))
        names_ = [e[0] for e in ev]
        order_ok = "sign" in names_ and all(names_.index(x) < names_.index("sign") for x in ("build", "add_extensions") if x in names_) and "add_extensions" in names_ \
            and not [x for x in names_[names_.index("sign") + 1:] if x in ("dns", "ip", "attr", "add_extensions", "set_subject_name", "set_pubkey")]
        rows.append(("%s: SAN built and added before the request is signed, nothing set afterwards" % tag, order_ok, True))
    return rows
