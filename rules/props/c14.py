"""C14 — the most specific setting wins; included files merge as documented.

Decided:
  R1 fallback chains, as decision tables obtained by evaluating each getter's MIR for every presence/absence
     combination: certificate -> endpoint -> global -> built-in default for renew_delay, random_early_renew,
     file_name_format; certificate -> global -> DEFAULT_CERT_DIR for the storage directory; each level reads only its
     own like-named field and delegates only when it is absent; MainEventLoop::new fills the certificate from these getters;
  R2 the global merge of an included file assigns EVERY field of GlobalOptions, each from the same-named field of the
     included table (later file wins);
  R3 all six list sections of an included file are appended, each to the like-named list;
  R4 each file is read once: the visited test and insertion use the canonical path and precede the open; includes are
     resolved against the including file's canonical directory;
  R5 every failed lookup (endpoint, rate limit, hook/group, account, duplicate certificate id) is an Err that
     MainEventLoop::new propagates to its caller (start-up failure).
  Evaluation-first: R5 for hooks — Config::get_hook and Certificate/Account::get_hooks interpreted on a sample configuration with
  unknown names in every position (props/hook_table.py): an unresolved hook / group member is an error, never dropped.
"""
from ..absint import NONE, Val, marker, ok, run, some, struct_val
from ..flow import arg_origins, origins
from ..mir import op_local, try_edges
from ..util import agg_assigns, call_true_false_edges, result_return_kinds, unreachable_without, where

LEVEL = "other"
TECHNIQUE = ("decision-table extraction by abstract interpretation of the three-level getters over all presence/absence "
             "combinations; field-coverage and same-name pairing of the global merge and list appends; dominance rules on "
             "read_cnf's visited set; error-edge rules on reference lookups"
             '; evaluation of hook-name resolution on a sample configuration')
LEVEL_TEXT = ("Decides the precedence tables completely (every combination of set/unset at each level, not one example), that "
              "the include merge covers and correctly pairs every global option and list section, that de-duplication uses "
              "canonical paths before opening, and that unresolved references are start-up errors. TOML parsing and glob "
              "semantics are trusted.")
LEVEL_NOTE = ("Not decided: glob expansion, TOML/serde behaviour, filesystem canonicalisation itself. Trusted: rustc MIR, "
              "extractor, the abstract interpreter (rules/absint.py)."
              ' R5 (hooks) by evaluation is (sample-based: evaluation on the listed sample family is not a proof for all inputs; the structural rule is the fallback when the interpreter cannot run the code)')

C = "acmed::config::Certificate"
E = "acmed::config::Endpoint"
G = "acmed::config::GlobalOptions"
CFG = "acmed::config::Config"
CHAINS = {
    "renew_delay": ("get_renew_delay", "acmed::duration::parse_duration", "acmed::DEFAULT_CERT_RENEW_DELAY"),
    "random_early_renew": ("get_random_early_renew", "acmed::duration::parse_duration", "acmed::DEFAULT_CERT_RANDOM_EARLY_RENEW"),
    "file_name_format": ("get_crt_name_format", None, "acmed::DEFAULT_CERT_FORMAT"),
}


def model(cs, args):
    if cs.is_(C + "::do_get_endpoint"):
        return ok(marker("EP"))
    return None


def describe(r):
    """what a getter run returned: ('parse', marker) | ('call', callee, first-arg marker) | ('const', value) | ('value', marker)"""
    if r.kind != "return":
        return ("stuck", r.kind)
    v = r.ret.deref()
    if v.k == "adt" and v.extra and v.extra[1] == "Ok" and v.v:
        v = v.v[0].deref()
    if v.k == "unknown" and (v.v or "").startswith("ret:"):
        callee = v.v[4:]
        for cs, args, res in reversed(r.calls):
            if cs.name == callee:
                a = args[0].deref() if args else None
                if callee.endswith("Duration::new"):
                    return ("const", args[0].deref().v if args and args[0].deref().k == "int" else None)
                return ("call", callee, repr(a))
        return ("call", callee, None)
    if v.k == "unknown":
        return ("value", v.v)
    if v.k in ("str", "int"):
        return ("const", v.v)
    return ("other", repr(v))


def precedence_tables(ctx, R1, only=None):
    """decision tables of the three-level getters (certificate > endpoint > global > built-in default), evaluated for every presence
    combination; shared with C06 for the two renewal-timing options"""
    prog = ctx.prog
    rows = precedence_eval(prog)
    if rows is not None:
        # evaluation first: end-to-end value for every presence pattern; the per-level tables below are the fallback
        ctx.floor(R1, "evaluated presence patterns", len(rows), 42)
        for opt, pattern, got, want in rows:
            if only and opt not in only:
                continue
            gb_ = prog.must_body("%s::%s" % (C, CHAINS[opt][0] if opt in CHAINS else "get_crt_dir"))
            ctx.require(R1, got == want, "%s:%s" % (gb_.file, gb_.line), "%s with %s = %s (most specific level wins, else the built-in default: %s)" % (opt, pattern, got[-1], want[-1]),
                        ["config::precedence", opt, pattern])
        return True
    for opt, (getter, parser, dflt_const) in CHAINS.items():
        if only and opt not in only:
            continue
        dflt = prog.const(dflt_const)
        dval = dflt.get("int", dflt.get("str"))
        # certificate level
        cb = prog.must_body("%s::%s" % (C, getter))
        for present in (True, False):
            self_v = struct_val(prog, C, {opt: some(marker("CRT")) if present else NONE})
            r = run(cb, {1: Val("ref", self_v), 2: Val("ref", marker("CNF"))}, model)
            d = describe(r)
            if present:
                good = (d[0] == "call" and d[1] == parser and "CRT" in (d[2] or "")) if parser else (d[0] == "value" and "CRT" in (d[1] or ""))
                exp = "its own value"
            else:
                good = d[0] == "call" and d[1] == "%s::%s" % (E, getter) and "EP" in (d[2] or "")
                exp = "the endpoint's %s" % getter
            ctx.require(R1, good, "%s:%s" % (cb.file, cb.line), "certificate.%s %s -> %s (got %s)" % (opt, "set" if present else "unset", exp, d),
                        ["config::Certificate::" + getter, "set" if present else "unset"])
        # endpoint level
        eb = prog.must_body("%s::%s" % (E, getter))
        for present in (True, False):
            for glob in (True, False):
                self_v = struct_val(prog, E, {opt: some(marker("EPV")) if present else NONE})
                cnf = struct_val(prog, CFG, {"global": some(marker("GLOB")) if glob else NONE})
                r = run(eb, {1: Val("ref", self_v), 2: Val("ref", cnf)}, model)
                d = describe(r)
                if present:
                    good = (d[0] == "call" and d[1] == parser and "EPV" in (d[2] or "")) if parser else (d[0] == "value" and "EPV" in (d[1] or ""))
                    exp = "its own value"
                elif glob:
                    good = d[0] == "call" and d[1] == "%s::%s" % (G, getter) and "GLOB" in (d[2] or "")
                    exp = "the global table's %s" % getter
                else:
                    good = d[0] == "const" and d[1] == dval
                    exp = "%s = %r" % (dflt_const.rsplit("::", 1)[1], dval)
                ctx.require(R1, good, "%s:%s" % (eb.file, eb.line), "endpoint.%s %s, global %s -> %s (got %s)" %
                            (opt, "set" if present else "unset", "present" if glob else "absent", exp, d),
                            ["config::Endpoint::" + getter, "%s-%s" % ("set" if present else "unset", "glob" if glob else "noglob")])
        # global level
        gb = prog.must_body("%s::%s" % (G, getter))
        for present in (True, False):
            self_v = struct_val(prog, G, {opt: some(marker("GV")) if present else NONE})
            r = run(gb, {1: Val("ref", self_v)}, model)
            d = describe(r)
            if present:
                good = (d[0] == "call" and d[1] == parser and "GV" in (d[2] or "")) if parser else (d[0] == "value" and "GV" in (d[1] or ""))
                exp = "its own value"
            else:
                good = d[0] == "const" and d[1] == dval
                exp = "%s = %r" % (dflt_const.rsplit("::", 1)[1], dval)
            ctx.require(R1, good, "%s:%s" % (gb.file, gb.line), "global.%s %s -> %s (got %s)" % (opt, "set" if present else "unset", exp, d),
                        ["config::GlobalOptions::" + getter, "set" if present else "unset"])


def check(ctx):
    prog = ctx.prog
    R1 = ctx.rule("R1", "precedence certificate > endpoint > global > default for renew_delay, random_early_renew, file_name_format; certificate > global > default for the directory (decision tables)")
    absent_is_unset_rule(ctx, R1)
    if not precedence_tables(ctx, R1):
        _dir_table(ctx, R1)
    _endpoint_wiring(ctx, R1)
    _rest(ctx)


def _dir_table(ctx, R1):
    prog = ctx.prog
    # directory
    db = prog.must_body(C + "::get_crt_dir")
    ddir = prog.const("acmed::DEFAULT_CERT_DIR").get("str")
    for cset in (True, False):
        for gstate in ("set", "unset", "absent"):
            self_v = struct_val(prog, C, {"directory": some(marker("CDIR")) if cset else NONE})
            if gstate == "absent":
                g = NONE
            else:
                g = some(struct_val(prog, G, {"certificates_directory": some(marker("GDIR")) if gstate == "set" else NONE}))
            r = run(db, {1: Val("ref", self_v), 2: Val("ref", struct_val(prog, CFG, {"global": g}))}, model)
            d = describe(r)
            if cset:
                good = d[0] == "value" and "CDIR" in (d[1] or "")
            elif gstate == "set":
                good = d[0] == "value" and "GDIR" in (d[1] or "")
            else:
                good = d[0] == "const" and d[1] == ddir
            ctx.require(R1, good, "%s:%s" % (db.file, db.line), "directory: certificate %s, global %s -> %s" % ("set" if cset else "unset", gstate, d),
                        ["config::Certificate::get_crt_dir", "%s-%s" % ("set" if cset else "unset", gstate)])


def _endpoint_wiring(ctx, R1):
    prog = ctx.prog
    if precedence_eval(prog) is None:
        # do_get_endpoint selects by name equality with self.endpoint (evaluated above with two endpoints when precedence_eval runs)
        de = prog.must_body(C + "::do_get_endpoint")
        from .guards import name_lookup
        nl = name_lookup(prog, C + "::do_get_endpoint")
        good = (E, "name") in nl["fields"] and (C, "endpoint") in nl["fields"]
        ctx.require(R1, good, "%s:%s" % (de.file, de.line), "the certificate's endpoint is the one whose name equals certificate.endpoint", ["config::Certificate::do_get_endpoint", "by-name"])
    _wiring(ctx, R1)


def _wiring(ctx, R1):
    prog = ctx.prog
    # wiring in MainEventLoop::new
    nb = prog.async_body("acmed::main_event_loop::MainEventLoop::new")
    for i, st in agg_assigns(nb, "acmed::certificate::Certificate"):
        fs = st["rv"]["fields"]
        for fld, getter in (("renew_delay", "get_renew_delay"), ("random_early_renew", "get_random_early_renew")):
            sl = origins(nb, st["rv"]["ops"][fs.index(fld)])
            called = {x.name.rsplit("::", 1)[1] for x in sl.calls if x.name.startswith(C + "::get_")}
            ctx.require(R1, called == {getter}, where(nb, i), "Certificate.%s <- crt.%s(&cnf) (%s)" % (fld, getter, sorted(called)), ["MainEventLoop::new", "cert-field", fld])
    fms = agg_assigns(nb, "acmed::storage::FileManager")
    n_ok = 0
    for i, st in fms:
        fs = st["rv"]["fields"]
        got = {}
        for fld in ("crt_name_format", "crt_directory"):
            sl = origins(nb, st["rv"]["ops"][fs.index(fld)])
            got[fld] = {x.name.rsplit("::", 1)[1] for x in sl.calls if x.name.startswith(C + "::get_")}
        if got["crt_name_format"] == {"get_crt_name_format"} and got["crt_directory"] == {"get_crt_dir"}:
            n_ok += 1
        elif got["crt_name_format"] or got["crt_directory"]:
            ctx.fail(R1, where(nb, i), "certificate FileManager: crt_name_format/crt_directory wired to %s" % got, ["MainEventLoop::new", "fm-format-dir"])
    ctx.require(R1, n_ok >= 1, "%s:%s" % (nb.file, nb.line), "the certificate's FileManager takes crt_name_format / crt_directory from get_crt_name_format / get_crt_dir", ["MainEventLoop::new", "fm-format-dir-present"])


def _rest(ctx):
    prog = ctx.prog
    merge_pairing(ctx, ctx.rule("R2", "the include merge assigns every GlobalOptions field from the same-named field of the included [global] table"))

    R3 = ctx.rule("R3", "endpoint, rate-limit, hook, group, account and certificate lists of an included file are appended to the like-named lists")
    from . import include_model as _im
    inc_eval = _im.include_table(prog) is not None         # evaluation first: the structural forms below are the fallback
    rc = _im.reader(prog) if inc_eval else prog.must_body("acmed::config::read_cnf")
    lists = [f["name"] for f in prog.adt(CFG)["variants"][0]["fields"] if f["ty"].startswith("alloc::vec::Vec<acmed::config::")]
    ctx.floor(R3, "list sections of config::Config", len(lists), 6)
    seen = {}
    if inc_eval:
        for name, got, want in _im.include_table(prog):
            diffs = [d_ for d_ in _im.differences(got, want) if d_.startswith("section ")] if not (got and got[0] == "Err") else ["refused: %s" % got[1]]
            ctx.require(R3, not diffs, "%s:%s" % (rc.file, rc.line), "configuration tree `%s`: every section entry of every file is merged exactly once (%s)" % (name, diffs or "evaluated"),
                        ["config::read_cnf", "sections-evaluated", name])
        seen = {f: True for f in lists}
    for c in ([] if inc_eval else rc.calls_to("alloc::vec::Vec::append", "core::iter::traits::collect::Extend::extend", "alloc::vec::Vec::extend_from_slice")):
        a0 = {f for a, f in arg_origins(c, 0, stop_adts=(CFG,)).fields if a == CFG}
        o1 = arg_origins(c, 1, stop_adts=(CFG,))
        a1 = {f for a, f in o1.fields if a == CFG}
        src_rec = included_config_local(rc) in base_locals(rc, c.args[1])
        if len(a0) == 1 and a0 <= set(lists):
            f0 = next(iter(a0))
            ctx.require(R3, a1 == a0 and src_rec, c.where(), "config.%s receives the included file's %s (source %s)" % (f0, f0, sorted(a1)), ["config::read_cnf", "append-pair", f0])
            seen[f0] = True
    for f in lists:
        ctx.require(R3, f in seen, "%s:%s" % (rc.file, rc.line), "section `%s` of an included file is merged" % f, ["config::read_cnf", "append-missing", f])

    R4 = ctx.rule("R4", "each file is read once: visited test + insertion on the canonical path before the open; includes resolved from the including file's canonical directory")
    if inc_eval:
        for name, got, want in _im.include_table(prog):
            bad = (got and got[0] == "Err")
            twice = [] if bad else [d_ for d_ in _im.differences(got, want) if "merged twice" in d_ or "lost" in d_]
            ctx.require(R4, not bad and not twice, "%s:%s" % (rc.file, rc.line),
                        "configuration tree `%s` loads, each file read once whatever its spelling, includes resolved from the including file's directory (%s)" % (name, got[1] if bad else (twice or "evaluated")),
                        ["config::read_cnf", "read-once-evaluated", name])
        return _r5(ctx)
    opens = rc.calls_to("std::fs::File::open")
    from .guards import visited_guard
    neg, ins, cont, revisit = visited_guard(rc, lambda sl: sl.has_leaf("param:2"))
    ctx.floor(R4, "File::open in read_cnf", len(opens), 1)
    ctx.floor(R4, "visited-set test in read_cnf", len(cont), 1)
    ctx.floor(R4, "visited-set insertion in read_cnf", len(ins), 1)
    # the include list is walked as listed: no sort / dedup / reverse / retain on it (a later-included [global] overrides an earlier one,
    # so the order is part of the documented behaviour)
    REORDER = ("sort", "sort_unstable", "sort_by", "sort_by_key", "sort_unstable_by", "sort_unstable_by_key", "dedup", "dedup_by", "dedup_by_key", "reverse", "retain", "swap", "rotate_left",
               "rotate_right", "swap_remove", "truncate", "drain", "pop")
    reord = [c for c in rc.calls if c.bb in rc.live_blocks() and (c.name or "").rsplit("::", 1)[-1] in REORDER and c.args and (CFG, "include") in arg_origins(c, 0).fields]
    ctx.require(R4, not reord, reord[0].where() if reord else "%s:%s" % (rc.file, rc.line), "the include list is walked in the order it is written (%s)" % [c.name.rsplit("::", 1)[-1] for c in reord],
                ["config::read_cnf", "include-order"])
    for c in cont:
        ctx.require(R4, arg_origins(c, 1).via_any("std::path::Path::canonicalize"), c.where(), "the visited test uses the canonical path", ["config::read_cnf", "test-canonical"])
    for c in ins:
        ctx.require(R4, arg_origins(c, 1).via_any("std::path::Path::canonicalize"), c.where(), "the recorded path is the canonical path", ["config::read_cnf", "insert-canonical"])
    ok, hit = unreachable_without(rc, [c.bb for c in opens], removed_edges=neg)
    ctx.require(R4, bool(neg) and ok, opens[0].where() if opens else "-", "a file is opened only when it is not in the visited set", ["config::read_cnf", "open-unvisited"])
    ok, hit = unreachable_without(rc, [c.bb for c in opens], removed_nodes=[c.bb for c in ins])
    ctx.require(R4, ok and ins, opens[0].where() if opens else "-", "the file is recorded as visited before it is opened/parsed (cycles terminate)", ["config::read_cnf", "insert-before-open"])
    # already-loaded answer is an empty configuration
    for (sbb, tg) in revisit:
        r = rc.reachable([tg])
        ctx.require(R4, any(x.bb in r for x in rc.calls_to("core::default::Default::default")) and not any(o.bb in r for o in opens), where(rc, sbb),
                    "an already loaded file contributes an empty Config", ["config::read_cnf", "revisit-empty"])
    gp = prog.must_body("acmed::config::get_cnf_path")
    gl = gp.calls_to("glob::glob")
    ctx.floor(R4, "glob call in get_cnf_path", len(gl), 1)
    for c in gl:
        sl = arg_origins(c, 0)
        ctx.require(R4, sl.via_any("std::path::Path::canonicalize") and sl.via_any("std::path::PathBuf::pop") and sl.via_any("std::path::PathBuf::push") and sl.has_leaf("param:1") and sl.has_leaf("param:2"),
                    c.where(), "include pattern = canonical(including file).parent + pattern", ["config::get_cnf_path", "relative-to-includer"])

    _r5(ctx)


def _r5(ctx):
    prog = ctx.prog
    from .guards import name_lookup
    nb = prog.async_body("acmed::main_event_loop::MainEventLoop::new")
    R5 = ctx.rule("R5", "unresolved endpoint / rate limit / hook / group / account and duplicate certificate ids are errors that reach MainEventLoop::new's caller")
    from .hook_table import EXPECT_ERR, evaluated, hook_table, resolver
    ht = hook_table(prog)
    RES = resolver(prog).key
    hook_eval = evaluated(ht)
    if hook_eval:
        hb_ = prog.must_body(RES)
        for nm, why in sorted(EXPECT_ERR.items()):
            if why != "unknown":
                continue
            got = ht.get(nm)
            ctx.require(R5, got is not None and got[0] == "Err", "%s:%s" % (hb_.file, hb_.line),
                        "%s (evaluated on the sample configuration: %s)" % ("an unknown hook name is an error" if nm == "zz" else "an unresolved name inside a group fails the whole lookup", got),
                        [CFG + "::do_get_hook", "not-found-error" if nm == "zz" else "nested-error-dropped"])
    from .hook_table import consumer_table
    for key in ("acmed::config::Certificate::get_hooks", "acmed::config::Account::get_hooks"):
        ct_ = consumer_table(prog, key)
        if ct_ is None:
            continue
        kb = prog.must_body(key)
        for names, got, want in ct_:
            if want != "Err":
                continue
            ctx.require(R5, got == "Err", "%s:%s" % (kb.file, kb.line), "%s with hooks = %s is an error (an unresolved hook / group reference is not dropped): %s" % (key.rsplit("::", 2)[-2] + "::get_hooks", names, got),
                        [key, "unresolved-reference", repr(names)])
    for key, what in ((C + "::do_get_endpoint", "unknown endpoint"), (CFG + "::get_rate_limit", "unknown rate limit"), (RES, "unknown hook or group")):
        b = prog.must_body(key)
        if hook_eval and key == RES:
            continue
        nl = name_lookup(prog, key)
        ctx.require(R5, nl["good"], "%s:%s" % (b.file, b.line), "%s: Ok only after a name matched, otherwise Err (%s; shape %s)" % (key.rsplit("::", 1)[1], what, nl["shape"]), [key, "not-found-error"])
    # the recursive expansion of a group keeps every failure: each do_get_hook call inside do_get_hook is tested and its error edge
    # cannot reach Ok; inside a closure its Result must be handed to an error-preserving adaptor (map/try_*), never to
    # flat_map/filter_map/flatten/ok(), which iterate a Result as "zero or one item" and drop the error
    from .guards import body_family, closure_users
    gh = prog.must_body(RES)
    okg, errg, fwdg = result_return_kinds(gh)
    rec = [(fb, c) for fb in body_family(prog, RES) for c in fb.calls_to(RES)]
    if not hook_eval:
        ctx.floor(R5, "recursive do_get_hook calls (group expansion)", len(rec), 1)
    for fb, c in ([] if hook_eval else rec):
        if fb is gh:
            errs = [tg for t in try_edges(gh, [c.dest["l"]]) for tg in t["err"]]
            good = bool(errs) and all(not (set(okg) & gh.reachable([e])) for e in errs)
            ctx.require(R5, good, c.where(), "an unresolved name inside a group fails the whole lookup", [CFG + "::do_get_hook", "nested-error-dropped"])
        else:
            users = closure_users(gh, fb.key)
            names = [u.name.rsplit("::", 1)[-1] for u in users]
            good = bool(users) and all(n in ("map", "try_for_each", "try_fold", "and_then", "map_while") for n in names)
            # the mapped results must then be collected into a Result (tested by `?`/match): approximated by requiring no lossy adaptor at all
            lossy = [x.name for x in gh.calls if x.name.rsplit("::", 1)[-1] in ("flat_map", "filter_map", "flatten", "ok", "unwrap_or_default", "unwrap_or", "unwrap_or_else")]
            ctx.require(R5, good and not lossy, c.where(), "an unresolved name inside a group fails the whole lookup (closure result given to %s%s)" % (names, ", lossy: %s" % lossy if lossy else ""),
                        [CFG + "::do_get_hook", "nested-error-dropped"])
    lookups = [("acmed::config::Certificate::get_endpoint", "endpoint"), ("acmed::config::Certificate::get_hooks", "hooks"), ("acmed::config::Account::get_hooks", "account hooks"),
               ("acmed::config::Certificate::get_crt_name_format", "name format"), ("acmed::config::Certificate::get_renew_delay", "renew delay")]
    okb, errb, fwd = result_return_kinds(nb)
    for key, what in lookups:
        cs = nb.calls_to(key)
        ctx.floor(R5, "%s call in MainEventLoop::new" % key.rsplit("::", 1)[1], len(cs), 1)
        for c in cs:
            tests = try_edges(nb, [c.dest["l"]])
            errs = [tg for t in tests for tg in t["err"]]
            good = bool(errs) and all(not (set(okb) & nb.reachable([tg])) for tg in errs)
            ctx.require(R5, good, c.where(), "a failed %s lookup ends MainEventLoop::new with Err" % what, ["MainEventLoop::new", "lookup-propagated", what])
    # account not found / duplicate id
    gm = nb.calls_to("std::collections::hash::map::HashMap::get_mut")
    ck = nb.calls_to("std::collections::hash::map::HashMap::contains_key")
    good_acc = False
    for c in gm:
        if (C, "account") in arg_origins(c, 1).fields:
            for t in try_edges(nb, [c.dest["l"]]):
                for tg in t["err"]:
                    if not (set(okb) & nb.reachable([tg])):
                        good_acc = True
    ctx.require(R5, good_acc, "%s:%s" % (nb.file, nb.line), "a certificate naming an unknown account is rejected", ["MainEventLoop::new", "unknown-account"])
    good_dup = False
    for c in ck:
        sl = arg_origins(c, 1)
        if any(x.is_("acmed::certificate::Certificate::get_id") for x in sl.calls):
            t, f = call_true_false_edges(nb, c)
            if t and all(not (set(okb) & nb.reachable([tg])) for _, tg in t):
                good_dup = True
    ctx.require(R5, good_dup, "%s:%s" % (nb.file, nb.line), "a duplicate certificate id is rejected", ["MainEventLoop::new", "duplicate-id"])
    # rate limits of the endpoint are resolved with `?`
    tg = prog.must_body("acmed::config::Endpoint::to_generic")
    okb2, errb2, fwd2 = result_return_kinds(tg)
    for c in tg.calls_to(CFG + "::get_rate_limit"):
        errs = [t2 for t in try_edges(tg, [c.dest["l"]]) for t2 in t["err"]]
        ctx.require(R5, bool(errs) and all(not (set(okb2 + fwd2) & tg.reachable([x])) for x in errs), c.where(), "an unknown rate limit of the endpoint is an error", ["config::Endpoint::to_generic", "rate-limit-lookup"])


def included_config_local(rc):
    """the local receiving read_cnf(..)?'s Config (add_cnf)"""
    ls = rc.locals_named("add_cnf")
    return ls[0] if ls else None


def base_locals(body, op):
    """base locals of the places reached from operand through refs/moves without leaving field projections"""
    from ..mir import op_place
    out = set()
    seen = set()
    todo = [op_local(op)]
    while todo:
        l = todo.pop()
        if l is None or l in seen:
            continue
        seen.add(l)
        out.add(l)
        for kind, bb, j, x in body.defs.get(l, []):
            if kind == "stmt" and x["s"] == "assign" and x["rv"]["k"] in ("ref", "use", "rawptr"):
                pl = x["rv"].get("place") or op_place(x["rv"].get("op"))
                if pl is not None:
                    todo.append(pl["l"])
    return out


def merge_pairing(ctx, rid, only=None):
    prog = ctx.prog
    from . import include_model as _im
    if _im.include_table(prog) is not None:
        # evaluation first: the merged [global] table is computed on the virtual trees; the structural pairing below is the fallback
        ctx.floor(rid, "Option fields of GlobalOptions", len(_im.option_fields(prog) or []), 14)
        return include_rule(ctx, rid, only)
    rc = prog.must_body("acmed::config::read_cnf")
    fields = [f["name"] for f in prog.adt(G)["variants"][0]["fields"]]
    ctx.floor(rid, "fields of GlobalOptions", len(fields), 15)
    written = {f: [] for f in fields}

    def gfield_of_place(p):
        for e in p["p"]:
            if isinstance(e, dict) and e.get("adt") == G and "n" in e:
                return e["n"]
        return None

    for i in sorted(rc.live_blocks()):
        for st in rc.blocks[i]["stmts"]:
            if st["s"] != "assign":
                continue
            f = gfield_of_place(st["lhs"])
            if f is None and st["lhs"]["p"] and st["lhs"]["p"][0] == "*":
                # `*target = value` where target is a `&mut global.<field>` handed to an (inlined) helper
                tsl = origins(rc, {"l": st["lhs"]["l"], "p": []}, stop_adts=(G,))
                tf_ = {x for a, x in tsl.fields if a == G}
                if len(tf_) == 1:
                    f = next(iter(tf_))
            if f is None:
                continue
            rv = st["rv"]
            src = origins(rc, [rv.get("op"), rv.get("a"), rv.get("b")] + rv.get("ops", []) + ([rv["place"]] if "place" in rv else []), stop_adts=(G,))
            written[f].append((i, {x for a, x in src.fields if a == G}))
            keeps_old = sorted(v for v in src.via if v.rsplit("::", 1)[-1] in ("or", "or_else", "xor", "take", "get_or_insert", "get_or_insert_with", "replace") and "option::Option" in v)
            if keeps_old and (not only or f in only):
                # `to = to.take().or(from)` keeps the EARLIER value: the documented rule is that a later-included file overrides
                ctx.fail(rid, where(rc, i), "global.%s: the merge prefers the value already present over the included one (%s) — a later-included [global] option must override earlier ones" % (f, [v.rsplit("::", 1)[-1] for v in keeps_old]),
                         ["config::read_cnf", "merge-keeps-old", f])
        t = rc.term(i)
        if t["t"] == "call":
            from ..mir import CallSite
            cs = CallSite(rc, i, t)
            tys = t.get("arg_tys", [])
            for pos, a in enumerate(cs.args):
                if pos < len(tys) and tys[pos].startswith("&mut "):
                    sl = origins(rc, a, stop_adts=(G,))
                    tf = {x for aa, x in sl.fields if aa == G}
                    if len(tf) == 1 and not cs.is_("core::ops::deref::DerefMut::deref_mut"):
                        others = origins(rc, [x for j, x in enumerate(cs.args) if j != pos], stop_adts=(G,))
                        srcf = {x for aa, x in others.fields if aa == G}
                        if srcf:
                            written[next(iter(tf))].append((i, srcf))
    for f in fields:
        if only and f not in only:
            continue
        ws = written[f]
        paired = [w for w in ws if w[1] == {f}]
        ctx.require(rid, bool(paired), "%s:%s" % (rc.file, rc.line), "global.%s of an included file is merged (writes: %s)" % (f, [sorted(w[1]) for w in ws]),
                    ["config::read_cnf", "merge-missing", f])
        for bb, srcs in ws:
            wrong = srcs - {f}
            ctx.require(rid, not wrong, where(rc, bb), "global.%s is assigned from the same-named option (found %s)" % (f, sorted(srcs)), ["config::read_cnf", "merge-crosswired", f])
    include_rule(ctx, rid, only)


def absent_is_unset_rule(ctx, rid):
    """the precedence chain and the include merge both rely on `key absent in this table` = `option not set here`: the derived
    Deserialize of the three option-carrying tables fills an Option field from the input or with None, never from a default function
    (`#[serde(default = "..")]` would make every parsed table `set` the option: a later [global] without the key resets it, a
    certificate without the key hides the endpoint's value)"""
    prog = ctx.prog
    n = 0
    for adt in (G, E, C):
        short_ = adt.rsplit("::", 1)[1]
        for k, b in prog.bodies.items():
            if ("for %s>::deserialize::__Visitor" % adt) in k and k.endswith("::visit_map"):
                n += 1
                foreign = sorted({(c.name or "") for c in b.calls if c.bb in b.live_blocks() and (c.name or "").startswith(("acmed::", "<acmed::")) and short_ not in (c.name or "")
                                  and "deserialize" not in (c.name or "").lower() and "Visitor" not in (c.name or "")})
                # default providers for NON-Option fields are fine (`env: HashMap` uses Default); a provider whose result is an Option is not
                bad = []
                for c in b.calls:
                    if c.bb in b.live_blocks() and (c.name or "") in foreign and c.dest is not None and b.local_ty(c.dest["l"]).startswith("core::option::Option<"):
                        bad.append(c.name)
                ctx.require(rid, not bad, "%s:%s" % (b.file, b.line), "%s: an option missing from the table deserialises to None (default functions found: %s)" % (short_, sorted(set(bad))), [adt, "absent-is-unset"])
    ctx.floor(rid, "derived visit_map of the option-carrying configuration tables", n, 3)


def include_rule(ctx, rid, only=None):
    """the include merge EVALUATED on virtual configuration trees (include_model): sections merged once each, later-included
    [global] options override earlier ones, nothing is lost, cycles/diamonds/repeated spellings terminate with each file read once.
    `only` restricts the comparison to some global options (the sharing properties)."""
    from . import include_model as im
    tab = im.include_table(ctx.prog)
    rc = im.reader(ctx.prog)
    loc = "%s:%s" % (rc.file, rc.line) if rc is not None else "acmed/src/config.rs"
    if tab is None:
        ctx.ok(rid, "include merge NOT evaluable on this tree (structural rules only)")
        return
    for name, got, want in tab:
        if got and got[0] == "Err":
            if only is None:
                ctx.fail(rid, loc, "configuration tree `%s`: %s" % (name, got[1]), ["config::read_cnf", "include-evaluated", name, "refused"])
            continue
        diffs = [d_ for d_ in im.differences(got, want) if only is None or any(d_.startswith("global option %s:" % o) for o in only)]
        for d_ in diffs:
            kind = d_.split(":", 1)[0].replace(" ", "-")
            ctx.fail(rid, loc, "configuration tree `%s`: %s" % (name, d_), ["config::read_cnf", "include-evaluated", name, kind])
        if not diffs:
            ctx.ok(rid, "configuration tree `%s` evaluated: sections %s, %d global options, as expected" % (name, {k: len(v) for k, v in want[0].items()}.get("endpoint"), len(want[1])))


def precedence_eval(prog):
    """the three-level getters EVALUATED end to end: Certificate::<getter>(&certificate, &config) interpreted (every config method
    followed) on a configuration with two endpoints, for every presence pattern certificate x endpoint x global(absent|unset|set),
    with distinct marker values per level; parse_duration answers Ok("parsed(<text>)"). Also the storage directory (certificate >
    global > default). [(option, pattern, got, want)] or None when some run does not evaluate.
    Expected value: the most specific level that sets the option, else the built-in default constant."""
    from ..absint import Interp, Val, some, struct_val, success_model, vstr, ok as _ok
    rows = []
    follow = lambda cs: (cs.name or "").startswith(("acmed::config::", "<acmed::config::"))

    def mdl(cs, args):
        n = cs.name or ""
        if n.endswith("duration::parse_duration") and args and args[0].deref().k == "str":
            return _ok(vstr("parsed(%s)" % args[0].deref().v))
        return None

    def result(r):
        if r.kind != "return" or r.ret is None:
            return None
        v = r.ret.deref()
        if v.k == "adt" and v.extra and v.extra[0] == "core::result::Result":
            if v.extra[1] != "Ok":
                return ("Err",)
            v = v.v[0].deref()
        if v.k == "str":
            return ("str", v.v)
        if v.k == "int":
            return ("int", v.v)
        return None
    specs = [(opt, getter, opt, opt, opt, parser, dc, True) for opt, (getter, parser, dc) in CHAINS.items()]
    specs.append(("directory", "get_crt_dir", "directory", None, "certificates_directory", None, "acmed::DEFAULT_CERT_DIR", False))
    for opt, getter, cf, ef, gf, parser, dflt_const, has_ep in specs:
        cb = prog.body("%s::%s" % (C, getter))
        if cb is None or cf not in prog.adt_fields(C) or gf not in prog.adt_fields(G) or (has_ep and ef not in prog.adt_fields(E)):
            return None
        dflt = prog.const(dflt_const)
        dval = dflt.get("int", dflt.get("str"))
        for pc in (True, False):
            for pe in ((True, False) if has_ep else (False,)):
                for pg in ("absent", "unset", "set"):
                    epf = {"name": vstr("ep")}
                    other = {"name": vstr("other")}
                    if has_ep:
                        epf[ef] = some(vstr("EPV")) if pe else NONE
                        other[ef] = some(vstr("OTHER"))
                    gl = NONE if pg == "absent" else some(struct_val(prog, G, {gf: some(vstr("GV")) if pg == "set" else NONE}, default=NONE))
                    cnf = struct_val(prog, CFG, {"endpoint": Val("list", [struct_val(prog, E, other), struct_val(prog, E, epf)]), "global": gl})
                    crt = struct_val(prog, C, {"endpoint": vstr("ep"), cf: some(vstr("CRT")) if pc else NONE})
                    try:
                        it = Interp(cb, success_model(cb, mdl), 60000)
                        it.follow = follow
                        r = it.run({1: Val("ref", crt), 2: Val("ref", cnf)})
                    except Exception:
                        return None
                    got = result(r)
                    if got is None:
                        return None
                    src = "CRT" if pc else ("EPV" if pe else ("GV" if pg == "set" else None))
                    if src is None:
                        want = ("int", dval) if isinstance(dval, int) else ("str", dval)
                    else:
                        want = ("str", "parsed(%s)" % src if parser else src)
                    if got[0] == "int" and want[0] == "int":
                        pass
                    rows.append((opt, "certificate %s, endpoint %s, global %s" % ("set" if pc else "unset", ("set" if pe else "unset") if has_ep else "n/a", pg), got, want))
    return rows
