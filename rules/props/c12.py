"""C12 — concurrent renewals never deadlock, double-register or share nonces.

Decided (T4 lock-state dataflow + who-may-access, sound over-approximation of every path of every task):
  L1 lock order: no acquisition of class Account while a guard of class Endpoint may be held (order Account -> Endpoint);
  L2 no acquisition (any mode) of a class the task may already hold — async_lock's RwLock is write-preferring, so even
     read-after-read can deadlock against a queued writer; self-deadlock for write;
     both at direct acquisition sites and at calls / awaits of workspace code that may acquire (call-graph summaries);
  L3 one lock instance per class and task: request_certificate receives exactly one AccountSync and one EndpointSync and
     every acquisition's receiver is one of those two handles;
  L4 nonce serialisation: Endpoint.nonce is read only in http::post and written only by update_nonce / Endpoint::new, all
     through `&mut Endpoint`; post keeps that exclusive borrow from reading the nonce to storing the next one;
  L5 registration is check-and-act under the account write lock: Account::synchronize / register take `&mut self`
     obtained from an Account write guard, and the re-registration in request_certificate is guarded by `!new_reg`;
  L6 guards are never leaked (no mem::forget / ManuallyDrop / Box::leak of guard-owning values), futures are never
     cancelled (no select!/timeout/abort in the workspace), so RAII releases on every exit.
Obligations = every acquisition site and every call/await made while a guard may be held.
  L5 also: a successful registration records everything the next synchronize compares (shared with C11.R4) — a missing record is a
  second registration.
"""
from ..flow import arg_origins, origins
from ..locks import acquisition_of, analyse, classes_of, direct_acquisitions, guard_locals, may_acquire
from ..mir import op_local, strip_generics, try_edges
from ..util import POLL, call_true_false_edges, unreachable_without, where

LEVEL = "proof"
TECHNIQUE = ("lock-state dataflow (maybe-held guard classes per program point over pre-borrowck MIR, RAII drops included) "
             "with call-graph acquisition summaries; lock-order / re-entrancy rules at every acquisition and call; "
             "who-may-access rule for Endpoint.nonce")
LEVEL_TEXT = ("Sound over-approximation: the set of lock classes a task may hold is computed for every program point of every "
              "body that acquires or calls something that acquires; every acquisition (direct or through a callee/awaited "
              "coroutine) is an obligation discharged by the order Account -> Endpoint and by non-re-entrancy. With one lock "
              "per class and task and no leaked guard this excludes every wait-for cycle, for all interleavings and thread "
              "counts at once — which no sampled schedule can show.")
LEVEL_NOTE = ("Trusted: rustc MIR, extractor's guard-ownership marking, async_lock semantics, no future cancellation "
              "(checked: no select!/timeout/abort). Not decided: CA-side duplicate accounts when two tasks are both told "
              "'unknown' (allowed by the statement); fairness/timing.")

ACCOUNT = "acmed::account::Account"
ENDPOINT = "acmed::endpoint::Endpoint"
ORDER = {ACCOUNT: 0, ENDPOINT: 1}
RC = "acmed::acme_proto::request_certificate"


def order_violation(held_classes, acq):
    cls, mode = acq
    for (hc, hm) in held_classes:
        if hc == cls:
            return "L2", "acquires %s (%s) while a %s guard of the same lock may be held (re-entrant acquisition deadlocks)" % (
                cls.rsplit("::", 1)[1], mode, hm)
    for (hc, hm) in held_classes:
        if hc in ORDER and cls in ORDER and ORDER[hc] > ORDER[cls]:
            return "L1", "acquires %s while holding %s: lock order is Account before Endpoint" % (
                cls.rsplit("::", 1)[1], hc.rsplit("::", 1)[1])
        if (hc in ORDER) != (cls in ORDER) or (hc not in ORDER and cls not in ORDER and hc != cls):
            return "L1", "acquires lock class %s while holding %s: no order is defined between them" % (cls, hc)
    return None


def check(ctx):
    prog = ctx.prog
    L1 = ctx.rule("L1", "lock order Account -> Endpoint at every acquisition (direct, or via a called/awaited workspace body that may acquire)")
    L2 = ctx.rule("L2", "no acquisition of a lock class the task may already hold (any mode)")
    L3 = ctx.rule("L3", "one AccountSync and one EndpointSync per task; every acquisition's receiver is one of them")
    acq_sum, direct = lock_rules(ctx)
    # L3
    rc = prog.must_body(RC)
    L1, L2 = "L1", "L2"
    lock_rules_tail(ctx, L3, rc, direct)


def lock_rules(ctx):
    """L1/L2 over every body of acmed that holds or acquires a lock (rules "L1" and "L2" must be registered by the caller);
    shared with C07 (an attempt that waits for ever on a lock neither ends nor reports)"""
    prog = ctx.prog
    L1 = "L1"
    acq_sum, direct = may_acquire(prog)
    ctx.notes.append("bodies with direct acquisitions: %s" % sorted(direct.keys()))
    n_sites = 0
    n_calls_checked = 0
    # every body that holds a guard anywhere or acquires
    interesting = [b for b in prog.bodies.values() if b.crate == "acmed" and (guard_locals(b) or b.key in acq_sum)]
    for b in interesting:
        before, inn = analyse(b)
        live = b.live_blocks()
        for c in b.calls:
            if c.bb not in live:
                continue
            held = classes_of(b, before.get(c.bb, frozenset()))
            a = acquisition_of(c)
            if a:
                n_sites += 1
                v = order_violation(held, a)
                role = "%s-%s" % (a[0].rsplit("::", 1)[1], a[1])
                if v:
                    ctx.fail(v[0], c.where(), "%s — %s; held: %s" % (b.key, v[1], sorted(held)), [root_of(b), v[0], role, held_key(held)])
                else:
                    ctx.ok("L1", "%s:%s acquire %s(%s) holding %s" % (b.file_of(c.bb), c.line, a[0].rsplit("::", 1)[1], a[1],
                                                                     sorted(x[0].rsplit("::", 1)[1] + ":" + x[1] for x in held) or "nothing"))
                    ctx.ok("L2", "%s:%s %s(%s) not re-entrant" % (b.file_of(c.bb), c.line, a[0].rsplit("::", 1)[1], a[1]))
                continue
            if not held:
                continue
            # call / await of workspace code that may acquire
            targets = set()
            for nm in (c.term.get("res"), c.term.get("fn")):
                for cand in (nm, strip_generics(nm) if nm else None):
                    if cand and cand in prog.bodies:
                        targets.add(cand)
            for g in c.gbodies:
                if g in prog.bodies:
                    targets.add(g)
            for tkey in targets:
                # a sync call to an async fn only creates the future: its acquisitions happen at the poll site (also visited)
                for a in sorted(acq_sum.get(tkey, ())):
                    n_calls_checked += 1
                    v = order_violation(held, a)
                    if v:
                        ctx.fail(v[0], c.where(), "%s calls/awaits %s which may acquire %s(%s) — %s; held: %s" %
                                 (b.key, tkey, a[0], a[1], v[1], sorted(held)), [root_of(b), v[0], "via", tkey.split("::{closure")[0], held_key(held)])
                    else:
                        ctx.ok("L1", "%s:%s await/call %s (may acquire %s) holding %s: ordered" %
                               (b.file_of(c.bb), c.line, tkey.rsplit("::", 2)[-2] if "{closure" in tkey else tkey.rsplit("::", 1)[-1],
                                a[0].rsplit("::", 1)[1], sorted(x[0].rsplit("::", 1)[1] for x in held)))
    ctx.floor(L1, "lock acquisition sites in the workspace", n_sites, 10)
    return acq_sum, direct


def lock_rules_tail(ctx, L3, rc, direct):
    prog = ctx.prog
    ins = rc.raw.get("inputs", [])
    n_acc = sum(1 for t in ins if "RwLock<acmed::account::Account>" in t)
    n_ep = sum(1 for t in ins if "RwLock<acmed::endpoint::Endpoint>" in t)
    ctx.require(L3, n_acc == 1 and n_ep == 1, "%s:%s" % (rc.file, rc.line),
                "request_certificate takes exactly one AccountSync and one EndpointSync (found %d, %d)" % (n_acc, n_ep), [RC, "handles"])
    rcc = prog.async_body(RC)
    from ..util import effective_owner

    def owned_by_rc(k):
        base = k.split("::{closure")[0]
        return base != RC and prog.absorbed(base) and effective_owner(prog, k) <= {RC}
    # closures of request_certificate, and closures of new helpers that only request_certificate uses (inlined there)
    for b in [rcc] + [x for x in prog.bodies.values() if (x.root == RC and x.key != rcc.key and x.key != RC) or (x.kind == "Closure" and owned_by_rc(x.key) and not prog.absorbed(x.key))]:
        for c, a in direct_acquisitions(b):
            sl = arg_origins(c, 0)
            # receiver: upvar 1 (account_s) / upvar 2 (endpoint_s) of the fn's coroutine, or a capture of them in async blocks
            ok = sl.has_leaf("upvar:") and not [x for x in sl.calls if x.is_("async_lock::rwlock::RwLock::new", "alloc::sync::Arc::new")]
            ctx.require(L3, ok, c.where(), "acquisition receiver is the task's own lock handle (origins %s)" % sorted(sl.leaves),
                        [RC, "receiver", a[0].rsplit("::", 1)[1]])
    # acquisitions anywhere else in acmed are reported (the discipline above covers request_certificate's tree only)
    for k in direct:
        b = prog.bodies[k]
        if b.crate == "acmed" and b.root != RC:
            if owned_by_rc(k):
                # a new helper used only by request_certificate and inlined there: its acquisitions were checked above
                # (receiver rule on the helper-transparent view; order rules through the may-acquire summaries)
                continue
            ctx.fail(L3, "%s:%s" % (b.file, b.line), "lock acquisition outside request_certificate's task body: %s (holder context unknown)" % k,
                     [k.split("::{closure")[0], "foreign-acquisition"])
    check_nonce(ctx)
    check_registration(ctx)
    check_no_leak(ctx)


def root_of(b):
    return (b.root or b.key).split("::{closure")[0]


def held_key(held):
    return "+".join(sorted("%s:%s" % (c.rsplit("::", 1)[1], m) for c, m in held)) or "none"


def field_accesses(prog, adt, field):
    """(body, bb, 'read'|'write', where) for every place mentioning adt.field in user bodies"""
    out = []

    def has(p):
        return any(isinstance(e, dict) and e.get("adt") == adt and e.get("n") == field for e in p["p"])

    for b in prog.bodies.values():
        if b.crate not in ("acmed", "tacd", "acme_common"):
            continue
        for i in b.live_blocks():
            blk = b.blocks[i]
            for st in blk["stmts"]:
                if st["s"] != "assign":
                    continue
                if has(st["lhs"]):
                    out.append((b, i, "write", st.get("line")))
                rv = st["rv"]
                for key in ("op", "a", "b"):
                    o = rv.get(key)
                    if isinstance(o, dict):
                        p = o.get("move") or o.get("copy")
                        if p and has(p):
                            out.append((b, i, "read", st.get("line")))
                if rv["k"] in ("ref", "rawptr", "discr") and has(rv["place"]):
                    out.append((b, i, "mutref" if rv.get("bk") == "mut" else "read", st.get("line")))
                if rv["k"] == "agg":
                    for o in rv["ops"]:
                        p = o.get("move") or o.get("copy")
                        if p and has(p):
                            out.append((b, i, "read", st.get("line")))
                    if rv.get("agg") == "adt" and strip_generics(rv.get("adt")) == adt and field in rv.get("fields", []):
                        out.append((b, i, "init", st.get("line")))
            t = blk["term"]
            if t["t"] == "call":
                for o in t["args"]:
                    p = o.get("move") or o.get("copy")
                    if p and has(p):
                        out.append((b, i, "read", t.get("line")))
                if t.get("dest") and has(t["dest"]):
                    out.append((b, i, "write", t.get("line")))
            elif t["t"] == "drop" and has(t["place"]):
                out.append((b, i, "write", t.get("line")))
    return out


def check_nonce(ctx):
    prog = ctx.prog
    L4 = ctx.rule("L4", "Endpoint.nonce is read only by http::post, written only by http::update_nonce / Endpoint::new, always through `&mut Endpoint` held for the whole request")
    acc = field_accesses(prog, ENDPOINT, "nonce")
    ctx.floor(L4, "accesses to Endpoint.nonce", len(acc), 3)
    readers = {"acmed::http::post::{closure#0}"}
    writers = {"acmed::http::update_nonce", "acmed::endpoint::Endpoint::new"}
    for b, bb, kind, line in acc:
        if b.exp and b.kind != "Closure":   # derive(Clone, Debug)
            continue
        k = b.key
        from ..util import effective_owner
        own = effective_owner(prog, k)      # a new helper counts as the original function(s) that use it
        rd = {x.split("::{closure")[0] for x in readers}
        wr_ = {x.split("::{closure")[0] for x in writers}
        if kind in ("read",):
            ok = k in readers or k in writers or (bool(own) and own <= (rd | wr_))
        else:
            ok = k in writers or (bool(own) and own <= wr_)
        ctx.require(L4, ok, "%s:%s (%s)" % (b.file, line, k), "%s of Endpoint.nonce in %s" % (kind, k), [k.split("::{closure")[0], "nonce-" + kind])
    for key in ("acmed::http::post", "acmed::http::update_nonce"):
        b = prog.must_body(key)
        ins = b.raw.get("inputs", [])
        ctx.require(L4, bool(ins) and ins[0].startswith("&mut ") and ins[0].endswith("acmed::endpoint::Endpoint"),
                    "%s:%s" % (b.file, b.line), "%s takes `&mut Endpoint` (exclusive for the whole call): %s" % (key, ins[:1]), [key, "exclusive-borrow"])
    # every &mut Endpoint in request_certificate comes from a write guard's deref_mut
    rcc = prog.async_body(RC)
    n = 0
    for c in rcc.calls:
        if c.bb in rcc.live_blocks() and c.res and c.res.startswith("<async_lock::rwlock::RwLockWriteGuard<") and c.res.endswith("core::ops::deref::DerefMut>::deref_mut"):
            n += 1
    ctx.floor(L4, "deref_mut of write guards in request_certificate", n, 5)
    # every `&mut Endpoint` handed out in request_certificate IS the shared endpoint (deref_mut of its write guard), never a private
    # copy that is written back later: a copy carries a stale nonce (and a private request log) and restores it over the fresh one
    n_ep = 0
    for c in rcc.calls:
        if c.bb not in rcc.live_blocks():
            continue
        tys = c.term.get("arg_tys") or []
        for k_, t_ in enumerate(tys):
            if t_.replace(" ", "") not in ("&mutacmed::endpoint::Endpoint",) or k_ >= len(c.args):
                continue
            if (c.name or "").endswith("deref_mut") or (c.name or "").startswith("core::") :
                continue
            n_ep += 1
            sl = arg_origins(c, k_)
            wr = [x for x in sl.calls if acquisition_of(x) is not None and acquisition_of(x)[1] in ("W", "write") and "Endpoint" in acquisition_of(x)[0]]
            copies = sorted(v for v in sl.via if v.rsplit("::", 1)[-1] in ("clone", "to_owned", "clone_from", "take", "replace", "default"))
            ctx.require(L4, bool(wr) and not copies, c.where(), "%s works on the shared endpoint through its write guard (copies: %s)" % (c.name.rsplit("::", 1)[-1], copies),
                        [RC, "endpoint-snapshot", c.name.rsplit("::", 1)[-1]])
    ctx.floor(L4, "calls taking &mut Endpoint in request_certificate", n_ep, 5)
    # a nonce leaves the shared endpoint only for the request that signs with it, and every response — accepted or refused —
    # puts the server's next nonce back before the endpoint guard is released (rules shared with C04.R2 / C08.R6)
    from .http_common import fresh_nonce_rule, nonce_update_rule
    nonce_update_rule(ctx, L4)
    fresh_nonce_rule(ctx, L4)


def check_registration(ctx):
    prog = ctx.prog
    L5 = ctx.rule("L5", "registration is check-and-act under the account write lock: synchronize/register take &mut Account from a write guard; re-registration in request_certificate only when !new_reg")
    # a registration that succeeded records everything the next synchronize compares (URL, key / contacts / external-account
    # fingerprints): a missing record makes the next check-and-act register the same account a second time
    from .c11 import REG as _REG, bookkeeping_rule
    bookkeeping_rule(ctx, L5, (_REG,))
    from . import c11 as _c11
    ctx.shared("C11", _c11.check)      # when an account counts as registered, and what a registration records (no second newAccount)
    # declaring that a certificate uses an endpoint must not forget what is stored for it: in Account::add_endpoint_name a plain
    # `endpoints.insert(..)` is only reachable when the name was found absent (entry().or_insert*/or_default are the other accepted form)
    ACC_ = "acmed::account::Account"
    ab = prog.body(ACC_ + "::add_endpoint_name")
    if ab is not None:
        ins = [c for c in ab.calls if c.bb in ab.live_blocks() and (c.name or "").endswith("HashMap::insert") and (ACC_, "endpoints") in arg_origins(c, 0).fields]
        absent_edges = []
        for c in ab.calls:
            if c.bb in ab.live_blocks() and (c.name or "").endswith(("HashMap::contains_key",)) and (ACC_, "endpoints") in arg_origins(c, 0).fields:
                t_, f_ = call_true_false_edges(ab, c)
                absent_edges += f_
            if c.bb in ab.live_blocks() and (c.name or "").endswith(("HashMap::get", "HashMap::get_mut")) and (ACC_, "endpoints") in arg_origins(c, 0).fields and c.dest is not None:
                for t in try_edges(ab, [c.dest["l"]]):
                    absent_edges += [(t["bb"], tg) for tg in t["err"]]
        for c in ins:
            ok_, hit_ = unreachable_without(ab, [c.bb], removed_edges=absent_edges)
            ctx.require(L5, bool(absent_edges) and ok_, c.where(), "add_endpoint_name inserts a fresh record only for a name that has none (a stored registration is kept)", [ACC_ + "::add_endpoint_name", "overwrites-record"])
        entries = [c for c in ab.calls if (c.name or "").rsplit("::", 1)[-1] in ("or_insert_with", "or_insert", "or_default", "or_insert_with_key")]
        ctx.require(L5, bool(ins) or bool(entries), "%s:%s" % (ab.file, ab.line), "add_endpoint_name creates the record when the name is new (entry API or guarded insert)", [ACC_ + "::add_endpoint_name", "creates-record"])
    for key in ("acmed::account::Account::synchronize", "acmed::account::Account::register", "acmed::acme_proto::account::register_account"):
        b = prog.must_body(key)
        ins = b.raw.get("inputs", [])
        ok = any(t.startswith("&mut ") and t.endswith("acmed::account::Account") for t in ins)
        ctx.require(L5, ok, "%s:%s" % (b.file, b.line), "%s requires `&mut Account`: %s" % (key, ins), [key, "exclusive-account"])
    rcc = prog.async_body(RC)
    regs = rcc.calls_to("acmed::account::Account::register")
    ctx.floor(L5, "Account::register call in request_certificate", len(regs), 1)
    # check-and-act on the SHARED account: the receiver of synchronize/register is the deref_mut of a write guard of the task's
    # AccountSync — not a copy that is written back later (lost update between two certificates sharing the account)
    for c in regs + rcc.calls_to("acmed::account::Account::synchronize"):
        sl = arg_origins(c, 0)
        wr = [x for x in sl.calls if acquisition_of(x) is not None and acquisition_of(x)[1] in ("W", "write") and "Account" in acquisition_of(x)[0]]
        copies = sorted(v for v in sl.via if v.rsplit("::", 1)[-1] in ("clone", "to_owned", "clone_from", "take", "replace", "default"))
        ctx.require(L5, bool(wr) and not copies, c.where(), "%s acts on the shared account through its write guard (acquisitions %s, copies %s)"
                    % (c.name.rsplit("::", 1)[1], [x.name.rsplit("::", 1)[-1] for x in wr], copies), [RC, "account-snapshot", c.name.rsplit("::", 1)[1]])
    # guarded by a one-shot latch (`new_reg` today; found by its role, not its name): register is reachable only through the
    # latch's false edge, and the latch is set to true after the registration
    from ..util import latch_flags
    latches = latch_flags(rcc, [c.bb for c in regs])
    good = False
    for l, (sets, tr, fl) in latches.items():
        ok, hit = unreachable_without(rcc, [c.bb for c in regs], removed_edges=fl)
        if ok:
            good = True
    # or it is not inside any loop at all (a straight-line `try, register, try again`)
    if len(regs) == 1 and all(rcc.scc_of(c.bb) is None for c in regs):
        good = True
    ctx.require(L5, good, regs[0].where() if regs else "-",
                "Account::register in request_certificate is reachable only while a latch that is set right after it is still false (at most one re-registration per attempt)",
                [RC, "reregister-guard"])


def check_no_leak(ctx):
    prog = ctx.prog
    L6 = ctx.rule("L6", "no guard leak / future cancellation primitive in the workspace (mem::forget, ManuallyDrop, Box::leak, select, timeout, abort, JoinHandle::abort)")
    bad = ("core::mem::forget", "core::mem::manually_drop::ManuallyDrop::new", "alloc::boxed::Box::leak",
           "tokio::time::timeout::timeout", "tokio::time::timeout", "tokio::task::join::JoinHandle::abort",
           "futures_util::future::select::select", "futures_util::future::abortable::abortable",
           "futures_util::future::future::FutureExt::now_or_never")
    found = prog.all_calls_to(*bad, crates=("acmed",), include_derive=True)
    for c in found:
        ctx.fail(L6, c.where(), "%s used in acmed: a guard may be leaked or a future holding a lock cancelled" % c.name, [c.body.key.split("::{closure")[0], "leak", c.name])
    if not found:
        ctx.ok(L6, "0 leak/cancellation primitives among %d acmed bodies" % sum(1 for b in prog.bodies.values() if b.crate == "acmed"))
    # positive control: the matcher does fire on a known callee
    ctrl = prog.all_calls_to("core::mem::drop", crates=("acmed",))
    ctx.floor(L6, "positive control (mem::drop call sites matched by the same who-may-call engine)", len(ctrl), 1)
