"""Tables of acme_common::crypto extracted from MIR and compared with RFC 7518 / 8037 / 7638 (shared by C04, C05, C15)."""
import re

from ..absint import Interp, Val, enum_table, marker, ok, run, variant, vbool
from ..flow import arg_origins, origins
from ..mir import op_const, op_local
from ..util import agg_assigns, unreachable_without, where

KT = "acme_common::crypto::key_type::KeyType"
ALG = "acme_common::crypto::jws_signature_algorithm::JwsSignatureAlgorithm"
KEYS = "acme_common::crypto::openssl_keys::KeyPair"

DEFAULT_ALG = {"Rsa2048": "Rs256", "Rsa4096": "Rs256", "EcdsaP256": "Es256", "EcdsaP384": "Es384", "EcdsaP521": "Es512", "Ed25519": "Ed25519", "Ed448": "Ed448"}
ALG_NAMES = {"Rs256": ("RS256",), "Es256": ("ES256",), "Es384": ("ES384",), "Es512": ("ES512",), "Hs256": ("HS256",), "Hs384": ("HS384",), "Hs512": ("HS512",),
             "Ed25519": ("EdDSA", "Ed25519"), "Ed448": ("EdDSA", "Ed448")}
EC_WIDTH = {"EcdsaP256": 32, "EcdsaP384": 48, "EcdsaP521": 66}
EC_JWK = {"EcdsaP256": ("P-256", "ES256", 32, 415), "EcdsaP384": ("P-384", "ES384", 48, 715), "EcdsaP521": ("P-521", "ES512", 66, 716)}
SIGN_DISPATCH = {"Rs256": ("sign_rsa", None), "Es256": ("sign_ecdsa", "Sha256"), "Es384": ("sign_ecdsa", "Sha384"), "Es512": ("sign_ecdsa", "Sha512"),
                 "Ed25519": ("sign_eddsa", None), "Ed448": ("sign_eddsa", None), "Hs256": ("error", None), "Hs384": ("error", None), "Hs512": ("error", None)}
JWK_MEMBERS = {"rsa": ({"kty": "RSA"}, {"alg": "RS256", "use": "sig"}, {"e", "n"}),
               "ec": ({"kty": "EC"}, {"use": "sig"}, {"x", "y"}),
               "okp": ({"kty": "OKP"}, {"alg": "EdDSA", "use": "sig"}, {"x"})}


def key_variants(prog):
    return prog.adt_variants(KT)


def check_alg_tables(ctx, rid):
    """default algorithm, compatibility, sign dispatch, header names"""
    prog = ctx.prog
    kts = key_variants(prog)
    algs = prog.adt_variants(ALG)
    ctx.floor(rid, "KeyType variants", len(kts), 7)
    ctx.floor(rid, "JwsSignatureAlgorithm variants", len(algs), 9)
    gd = prog.must_body(KT + "::get_default_signature_alg")
    tab = enum_table(prog, gd, KT)
    for v, r in tab.items():
        got = r.ret.deref().v if r.kind == "return" and r.ret.deref().k == "variant" else repr(r)
        ctx.require(rid, got == DEFAULT_ALG.get(v), "%s:%s" % (gd.file, gd.line), "default JWS algorithm of %s = %s (expected %s)" % (v, got, DEFAULT_ALG.get(v)), ["get_default_signature_alg", v])
    cc = prog.must_body(KT + "::check_alg_compatibility")

    def model(cs, args):
        if cs.is_(KT + "::get_default_signature_alg") and args and args[0].deref().k == "variant":
            return variant(ALG, DEFAULT_ALG.get(args[0].deref().v, "?"))
        return None

    for k in kts:
        for a in algs:
            r = run(cc, {1: Val("ref", variant(KT, k)), 2: Val("ref", variant(ALG, a))}, model)
            if r.kind != "return":
                ctx.fail(rid, "%s:%s" % (cc.file, cc.line), "check_alg_compatibility(%s,%s) cannot be evaluated (%s)" % (k, a, r.kind), ["check_alg_compatibility", "eval", k, a])
                continue
            rv = r.ret.deref()
            is_ok = rv.k == "adt" and rv.extra[1] == "Ok"
            exp = DEFAULT_ALG.get(k) == a
            ctx.require(rid, is_ok == exp, "%s:%s" % (cc.file, cc.line), "%s key with %s: %s (expected %s)" % (k, a, "accepted" if is_ok else "rejected", "accepted" if exp else "rejected"),
                        ["check_alg_compatibility", k, a])
    # header names
    disp = [b for kk, b in prog.bodies.items() if kk.startswith("<" + ALG + " as core::fmt::Display>::fmt")]
    ctx.floor(rid, "Display for JwsSignatureAlgorithm", len(disp), 1)
    if disp:
        db = disp[0]
        for a in algs:
            r = run(db, {1: Val("ref", variant(ALG, a)), 2: Val("ref", marker("FMT"))})
            strs = [x.deref().v for c, args, res in r.calls for x in args if x.deref().k == "str"]
            strs += [v.v for v in (r.env or {}).values() if isinstance(v, Val) and v.deref().k == "str" for v in [v.deref()]]
            names = {s for s in strs if s and s.isalnum() and s.upper()[:2] in ("RS", "ES", "HS", "ED")}
            ctx.require(rid, bool(names) and names <= set(ALG_NAMES.get(a, ())), "%s:%s" % (db.file, db.line), "JWS `alg` text of %s = %s (allowed %s)" % (a, sorted(names), ALG_NAMES.get(a)),
                        ["JwsSignatureAlgorithm::Display", a])
    # sign dispatch
    sg = prog.must_body(KEYS + "::sign")

    def model2(cs, args):
        if cs.is_(KT + "::check_alg_compatibility"):
            return ok(Val("unit"))
        return None

    first = [c for c in sg.calls if c.bb in sg.live_blocks() and not c.exp]
    comp = sg.calls_to(KT + "::check_alg_compatibility")
    ctx.require(rid, bool(comp), "%s:%s" % (sg.file, sg.line), "KeyPair::sign checks key/algorithm compatibility", [KEYS + "::sign", "compat-called"])
    if comp:
        signers = [c for c in sg.calls if c.name and c.name.startswith(KEYS + "::sign_")]
        good, hit = unreachable_without(sg, [c.bb for c in signers], removed_nodes=[c.bb for c in comp])
        ctx.require(rid, good and signers, comp[0].where(), "no signing routine runs before check_alg_compatibility", [KEYS + "::sign", "compat-first"])
        from ..mir import try_edges
        for c in comp:
            errs = [tg for t in try_edges(sg, [c.dest["l"]]) for tg in t["err"]]
            ctx.require(rid, bool(errs) and all(not ({s.bb for s in signers} & sg.reachable([e])) for e in errs), c.where(), "an incompatible algorithm is an error, nothing is signed", [KEYS + "::sign", "compat-error"])
    for a in algs:
        r = run(sg, {1: Val("ref", marker("KEY")), 2: Val("ref", variant(ALG, a)), 3: Val("ref", marker("DATA"))}, model2)
        called = [(c.name.rsplit("::", 1)[1], [x.deref() for x in args]) for c, args, res in r.calls if c.name.startswith(KEYS + "::sign_")]
        exp = SIGN_DISPATCH.get(a)
        if exp is None:
            ctx.fail(rid, "%s:%s" % (sg.file, sg.line), "no oracle row for algorithm %s" % a, [KEYS + "::sign", "oracle", a])
            continue
        if exp[0] == "error":
            rv = r.ret.deref() if r.kind == "return" else None
            ctx.require(rid, not called and rv is not None and rv.k == "adt" and rv.extra[1] == "Err", "%s:%s" % (sg.file, sg.line), "%s cannot sign with a key pair (error)" % a, [KEYS + "::sign", a])
        else:
            good = len(called) == 1 and called[0][0] == exp[0]
            if good and exp[1]:
                hv = [x for x in called[0][1] if x.k == "variant"]
                good = bool(hv) and hv[0].v == exp[1]
            ctx.require(rid, good, "%s:%s" % (sg.file, sg.line), "%s -> %s%s (got %s)" % (a, exp[0], "(%s)" % exp[1] if exp[1] else "", called), [KEYS + "::sign", a])
            if good:
                last = called[0][1][-1] if called[0][1] else None
                ctx.require(rid, last is not None and last.k == "unknown" and last.v == "DATA", "%s:%s" % (sg.file, sg.line),
                            "%s: the bytes signed are the caller's message, unchanged (got %r)" % (a, last), [KEYS + "::sign", "message", a])
    rs = prog.must_body(KEYS + "::sign_rsa")
    srs = [c for c in sg.calls_to(KEYS + "::sign_rsa")]
    for c in srs:
        d = arg_origins(c, 1)
        ctx.require(rid, d.via_any("openssl::hash::MessageDigest::sha256"), c.where(), "RS256 signs over SHA-256", [KEYS + "::sign", "rs256-digest"])


def ec_width_tables(ctx, rid):
    """ECDSA signature component width == JWK coordinate width == RFC 7518 section 3.4 (32/48/66); padding idiom present"""
    prog = ctx.prog
    out = {}
    for fn in ("sign_ecdsa", "get_ecdsa_jwk"):
        b = prog.must_body(KEYS + "::" + fn)
        widths = {}
        for i in sorted(b.live_blocks()):
            t = b.term(i)
            if t["t"] != "switch":
                continue
            dl = op_local(t["discr"])
            names = {}
            for kind, bb, j, st in b.defs.get(dl, []):
                if kind == "stmt" and st["s"] == "assign" and st["rv"]["k"] == "discr" and st["rv"].get("adt", "").endswith("KeyType"):
                    names = {int(v[0]): v[1] for v in st["rv"].get("variants", [])}
            if not names:
                continue
            it = Interp(b)
            for v, tg in t["arms"]:
                r = it.run({}, start_bb=tg)
                ints = sorted({x.v for x in (r.env or {}).values() if isinstance(x, Val) and x.k == "int"} |
                              {y.v for x in (r.env or {}).values() if isinstance(x, Val) and x.k == "tuple" for y in x.v if isinstance(y, Val) and y.k == "int"})
                strs = sorted({y.deref().v for x in (r.env or {}).values() if isinstance(x, Val) and x.k == "tuple" for y in x.v if isinstance(y, Val) and y.deref().k == "str"})
                widths[names.get(v)] = (ints, strs)
            break
        out[fn] = widths
        for k, w in EC_WIDTH.items():
            got = widths.get(k, ([], []))[0]
            ctx.require(rid, w in got and not (set(EC_WIDTH.values()) - {w}) & set(got), "%s:%s" % (b.file, b.line), "%s: %s width = %d bytes (found %s)" % (fn, k, w, got), [KEYS + "::" + fn, "width", k])
    return out


EC_SIG = {"EcdsaP256": (32, "Es256"), "EcdsaP384": (48, "Es384"), "EcdsaP521": (66, "Es512")}


def ecdsa_signature_table(prog):
    """KeyPair::sign EVALUATED for the three EC key types on signatures whose components are short (r two bytes short and s full
    width; r full and s one byte short; both three bytes short): [(key type, case, got bytes, expected bytes)] or None. Expected:
    each component left-padded with zero bytes to the curve width, r then s (RFC 7518 section 3.4)."""
    from ..absint import UNIT, Val, marker, ok, run, struct_val, success_model, variant, vint
    JSA = "acme_common::crypto::jws_signature_algorithm::JwsSignatureAlgorithm"
    b = prog.body(KEYS + "::sign")
    if b is None:
        return None
    rows = []
    for kt, (w, alg) in EC_SIG.items():
        for case, (dr, ds) in (("r-2", (2, 0)), ("s-1", (0, 1)), ("both-3", (3, 3)), ("full", (0, 0))):
            rbytes = [((7 * i + 1) % 255) + 1 for i in range(w - dr)]
            sbytes = [((5 * i + 3) % 255) + 1 for i in range(w - ds)]

            def ov(cs, args, rbytes=rbytes, sbytes=sbytes):
                n = cs.name or ""
                d = [a.deref() for a in args]
                if n.endswith("EcdsaSigRef::r"):
                    return Val("unknown", "BN_R")
                if n.endswith("EcdsaSigRef::s"):
                    return Val("unknown", "BN_S")
                if n.endswith("BigNumRef::to_vec") and d:
                    return Val("list", [vint(x) for x in (rbytes if "BN_R" in repr(d[0]) else sbytes)])
                if n.endswith("BigNumRef::num_bytes") and d:
                    return vint(len(rbytes if "BN_R" in repr(d[0]) else sbytes))
                if n.endswith("BigNumRef::to_vec_padded") and len(d) > 1 and d[1].k == "int":
                    src = rbytes if "BN_R" in repr(d[0]) else sbytes
                    if d[1].v < len(src):
                        return None
                    return ok(Val("list", [vint(0)] * (d[1].v - len(src)) + [vint(x) for x in src]))
                if n.endswith("check_alg_compatibility"):
                    return ok(UNIT)
                return None
            try:
                kp = struct_val(prog, KEYS, {"key_type": variant(KT, kt), "inner_key": marker("PKEY")})
                r = run(b, {1: Val("ref", kp), 2: Val("ref", variant(JSA, alg)), 3: Val("ref", marker("DATA"))}, success_model(b, ov, skip_unknown_loops=True), max_steps=200000,
                        follow=lambda cs: (cs.name or "").startswith("acme_common::crypto::openssl_keys::"))
            except Exception:
                return None
            rv = r.ret.deref() if r.kind == "return" and r.ret is not None else None
            if rv is None or rv.k != "adt" or not rv.extra or rv.extra[1] != "Ok" or not rv.v or rv.v[0].deref().k != "list" or not all(x.deref().k == "int" for x in rv.v[0].deref().v):
                return None
            rows.append((kt, case, [x.deref().v for x in rv.v[0].deref().v], [0] * dr + rbytes + [0] * ds + sbytes))
    return rows


def padding_rules(ctx, rid):
    prog = ctx.prog
    sig = ecdsa_signature_table(prog)
    if sig is not None:
        sb_ = prog.must_body(KEYS + "::sign")
        for kt, case, got, want in sig:
            ctx.require(rid, got == want, "%s:%s" % (sb_.file, sb_.line), "%s signature, components %s: %d bytes%s (expected %d: r and s each left-padded with zeroes to the curve width)"
                        % (kt, case, len(got), "" if got == want else ", starts %s" % got[:4], len(want)), [KEYS + "::sign", "signature-width", kt, case])
        return jwk_padding_rules(ctx, rid)
    # signature: both r and s are padded to `sig_size` (resize_with(size - len) + append, or to_vec_padded(size))
    b = prog.must_body(KEYS + "::sign_ecdsa")
    parts = {"r": b.calls_to("openssl::ecdsa::EcdsaSigRef::r"), "s": b.calls_to("openssl::ecdsa::EcdsaSigRef::s")}
    for nm, cs in parts.items():
        ctx.require(rid, len(cs) == 1, "%s:%s" % (b.file, b.line), "signature component %s is read once" % nm, [KEYS + "::sign_ecdsa", "part", nm])
    pads = b.calls_to("alloc::vec::Vec::resize_with", "alloc::vec::Vec::resize") + b.calls_to("openssl::bn::BigNumRef::to_vec_padded")
    ctx.require(rid, len(pads) >= 2, "%s:%s" % (b.file, b.line), "both components go through a fixed-width padding step (%d found)" % len(pads), [KEYS + "::sign_ecdsa", "padding-sites"])
    for c in b.calls_to("alloc::vec::Vec::resize_with", "alloc::vec::Vec::resize"):
        n = arg_origins(c, 1)
        ctx.require(rid, "binop:SubWithOverflow" in n.via or "binop:Sub" in n.via, c.where(), "the padding length is size - len (all missing leading bytes, not one)", [KEYS + "::sign_ecdsa", "padding-length"])
    # a single inserted zero byte is not a padding to width
    ins = b.calls_to("alloc::vec::Vec::insert")
    ctx.require(rid, not ins or len(pads) >= 2, ins[0].where() if ins else "-", "components are not padded by a single insert(0, 0)", [KEYS + "::sign_ecdsa", "single-insert"])
    # result = r || s
    app = b.calls_to("alloc::vec::Vec::append", "alloc::vec::Vec::extend_from_slice", "core::iter::traits::collect::Extend::extend")
    ret = origins(b, {"l": 0, "p": []})
    ctx.require(rid, any(x.is_("openssl::ecdsa::EcdsaSigRef::r") for x in ret.calls) and any(x.is_("openssl::ecdsa::EcdsaSigRef::s") for x in ret.calls), "%s:%s" % (b.file, b.line),
                "the signature returned is built from r and s", [KEYS + "::sign_ecdsa", "r-and-s"])
    jwk_padding_rules(ctx, rid)


def jwk_padding_rules(ctx, rid):
    prog = ctx.prog
    # JWK coordinates: to_vec_padded(size) for x and y
    j = prog.must_body(KEYS + "::get_ecdsa_jwk")
    tvp = j.calls_to("openssl::bn::BigNumRef::to_vec_padded")
    tv = j.calls_to("openssl::bn::BigNumRef::to_vec")
    ctx.require(rid, len(tvp) >= 2 and not tv, (tv[0].where() if tv else "%s:%s" % (j.file, j.line)), "EC coordinates x and y are encoded with to_vec_padded(size) (fixed width), never to_vec()", [KEYS + "::get_ecdsa_jwk", "fixed-width"])
    for c in tvp:
        sl = arg_origins(c, 1)
        ctx.require(rid, not [cc for cc in sl.consts if "int" in cc and cc["int"] not in EC_WIDTH.values()] and bool(sl.consts), c.where(), "the width passed to to_vec_padded comes from the curve table", [KEYS + "::get_ecdsa_jwk", "width-source"])
    r = prog.must_body(KEYS + "::get_rsa_jwk")
    ctx.require(rid, len(r.calls_to("openssl::bn::BigNumRef::to_vec")) >= 2 and not r.calls_to("openssl::bn::BigNumRef::to_vec_padded"), "%s:%s" % (r.file, r.line),
                "RSA n and e use the minimal big-endian encoding (to_vec)", [KEYS + "::get_rsa_jwk", "minimal"])


def json_members(body):
    """objects built by json!: list of dicts key -> const str / None (dynamic) found as (key insert) sequences"""
    objs = []
    cur = None
    for c in sorted([c for c in body.calls if c.bb in body.live_blocks()], key=lambda c: c.bb):
        if c.is_("serde_json::map::Map::new", "serde_json::map::Map<alloc::string::String, serde_json::value::Value>::new"):
            cur = {}
            objs.append(cur)
    return objs


JWK_ORACLE = {"Rsa2048": ("RSA", None, "RS256"), "Rsa4096": ("RSA", None, "RS256"), "EcdsaP256": ("EC", "P-256", "ES256"), "EcdsaP384": ("EC", "P-384", "ES384"),
              "EcdsaP521": ("EC", "P-521", "ES512"), "Ed25519": ("OKP", "Ed25519", "EdDSA"), "Ed448": ("OKP", "Ed448", "EdDSA")}
JWK_KEY_MEMBERS = {"RSA": ("e", "n"), "EC": ("x", "y"), "OKP": ("x",)}


def jwk_table(prog):
    """The JWK objects, EVALUATED from the two public entry points (KeyPair::jwk_public_key / jwk_public_key_thumbprint) for every
    key type: the interpreter follows every KeyPair / KeyType method, every fallible call succeeds, and the `Map::insert` calls are
    read off the trace, whatever the shape of the builders (bool flag, enum, shared helper, ...).
    Returns {(key_type, "full"|"thumb"): {member: constant string or None}} or None when some run does not return."""
    from ..absint import Val, marker, ok, run, struct_val, success_model, variant
    out = {}
    follow = lambda cs: (cs.name or "").startswith(KEYS + "::") or (cs.name or "").startswith(KT + "::") or (cs.name or "").startswith("<" + KT + " as ")

    def ov(cs, args):
        if (cs.name or "").endswith("value::to_value") and args:
            return ok(args[0].deref())
        return None
    for entry, tag in (("jwk_public_key", "full"), ("jwk_public_key_thumbprint", "thumb")):
        b = prog.body(KEYS + "::" + entry)
        if b is None:
            return None
        for kt in key_variants(prog):
            kp = struct_val(prog, KEYS, {"key_type": variant(KT, kt), "inner_key": marker("PKEY")})
            try:
                r = run(b, {1: Val("ref", kp)}, success_model(b, ov, skip_unknown_loops=True), max_steps=60000, follow=follow)
            except Exception:
                return None
            if r.kind != "return":
                return None
            members = {}
            for c, a, res in r.calls:
                n = c.name or ""
                if n.endswith("::insert") and "serde_json" in n and len(a) > 2:
                    k, v = a[1].deref(), a[2].deref()
                    if k.k != "str":
                        return None
                    members[k.v] = v.v if v.k == "str" else None
            out[(kt, tag)] = members
    return out


def jwk_objects(prog, fn):
    """evaluate the JWK builder for thumbprint true/false: returns {thumb: {member: const-or-None}}"""
    b = prog.must_body(KEYS + "::" + fn)
    out = {}

    def model(cs, args):
        return None

    for thumb in (True, False):
        # run until the first unknown branch is not possible (key material); instead collect Map::insert calls per branch of `thumbprint`
        members = {}
        # find the switch on the thumbprint parameter (local 2)
        for i in sorted(b.live_blocks()):
            t = b.term(i)
            if t["t"] == "switch" and t["dty"] == "bool" and op_local(t["discr"]) is not None:
                sl = origins(b, t["discr"])
                if sl.has_leaf("param:2"):
                    from ..util import bool_edges
                    tr, fl = bool_edges(b, i)
                    start = tr if thumb else fl
                    other = fl if thumb else tr
                    region = b.reachable([start]) - b.reachable([other])
                    for c in b.calls:
                        if c.bb in region and c.is_("serde_json::map::Map::insert"):
                            k = arg_origins(c, 1)
                            v = arg_origins(c, 2)
                            ks = [x.get("str") for x in k.consts if "str" in x]
                            vs = [x.get("str") for x in v.consts if "str" in x]
                            if ks:
                                members[ks[0]] = vs[0] if vs and not [l for l in v.leaves if not l.startswith("const:")] else None
        out[thumb] = members
    return out


# documented spellings (tacd(8) / acmed.toml(5): `-` and `_` are both accepted for key types, case is ignored)
PARSE_ORACLE = {
    "acme_common::crypto::key_type::KeyType": {"rsa2048": "Rsa2048", "rsa4096": "Rsa4096", "ecdsa-p256": "EcdsaP256", "ecdsa_p256": "EcdsaP256", "ecdsa-p384": "EcdsaP384",
                                               "ecdsa_p384": "EcdsaP384", "ecdsa-p521": "EcdsaP521", "ecdsa_p521": "EcdsaP521", "ECDSA-P256": "EcdsaP256", "ed25519": "Ed25519",
                                               "ed448": "Ed448", "rsa1024": None, "ecdsa": None, "": None},
    "acme_common::crypto::BaseHashFunction": {"sha256": "Sha256", "sha384": "Sha384", "sha512": "Sha512", "SHA-256": "Sha256", "sha_384": "Sha384", "sha1": None, "md5": None},
    "acme_common::crypto::jws_signature_algorithm::JwsSignatureAlgorithm": {"HS256": "Hs256", "hs384": "Hs384", "HS512": "Hs512", "RS256": "Rs256", "ES256": "Es256", "es384": "Es384",
                                                                            "ES512": "Es512", "Ed25519": "Ed25519", "ed448": "Ed448", "none": None, "RS512": None},
}


LISTED = {"acme_common::crypto::key_type::KeyType": ["rsa2048", "rsa4096", "ecdsa-p256", "ecdsa-p384", "ecdsa-p521", "ed25519", "ed448"],
          "acme_common::crypto::BaseHashFunction": ["sha256", "sha384", "sha512"]}


def listed_values_rule(ctx, rid, only=None):
    """`list_possible_values()` (tacd's command-line whitelist) EVALUATED: the listed spellings are the documented ones and every one of
    them is accepted by FromStr for the like-named variant — a typo in the list makes a key type unusable from the command line"""
    from ..absint import Val, run, vstr
    prog = ctx.prog
    for adt, want in LISTED.items():
        if only and adt not in only:
            continue
        lb = prog.body(adt + "::list_possible_values")
        fb = prog.body("<%s as core::str::traits::FromStr>::from_str" % adt)
        if lb is None or fb is None:
            continue
        try:
            r = run(lb, {}, None, max_steps=20000)
        except Exception:
            continue
        rv = r.ret.deref() if r.kind == "return" and r.ret is not None else None
        if rv is None or rv.k != "list" or not all(x.deref().k == "str" for x in rv.v):
            continue
        got = [x.deref().v for x in rv.v]
        ctx.require(rid, sorted(got) == sorted(want), "%s:%s" % (lb.file, lb.line), "%s::list_possible_values() = %s (documented: %s)" % (adt.rsplit("::", 1)[1], got, want), [adt, "listed-values"])
        for name in got:
            r2 = run(fb, {1: Val("ref", vstr(name))}, None, max_steps=20000)
            rv2 = r2.ret.deref() if r2.kind == "return" and r2.ret is not None else None
            okv = rv2 is not None and rv2.k == "adt" and rv2.extra and rv2.extra[1] == "Ok"
            ctx.require(rid, okv, "%s:%s" % (lb.file, lb.line), "the listed value `%s` is accepted by %s::from_str" % (name, adt.rsplit("::", 1)[1]), [adt, "listed-parses", name])


def parse_tables(ctx, rid, only=None):
    """FromStr of the key-type / digest / signature-algorithm names, EVALUATED for every documented spelling (and a few that must
    be refused): the name on the command line or in the configuration selects the like-named variant"""
    from ..absint import Val, run, vstr
    prog = ctx.prog
    for adt, table in PARSE_ORACLE.items():
        if only and adt not in only:
            continue
        fb = [b for k, b in prog.bodies.items() if k == "<%s as core::str::traits::FromStr>::from_str" % adt]
        ctx.floor(rid, "FromStr body of %s" % adt.rsplit("::", 1)[1], len(fb), 1)
        if not fb:
            continue
        body = prog.body(fb[0].key)
        variants = set(prog.adt_variants(adt))
        for name, want in sorted(table.items()):
            if want is not None and want not in variants:
                continue        # variant compiled out (ed25519/ed448 features)
            r = run(body, {1: Val("ref", vstr(name))}, None, max_steps=20000)
            got = None
            if r.kind == "return" and r.ret is not None:
                rv = r.ret.deref()
                if rv.k == "adt" and rv.extra and rv.extra[1] == "Ok":
                    x = rv.v[0].deref()
                    got = x.v if x.k == "variant" else repr(x)
                elif rv.k == "adt" and rv.extra and rv.extra[1] == "Err":
                    got = None
                else:
                    got = "?" + repr(rv)
            else:
                got = "?" + str(r.kind)
            ctx.require(rid, got == want, "%s:%s" % (body.file, body.line), "%s::from_str(%r) = %s (expected %s)" % (adt.rsplit("::", 1)[1], name, got, want or "an error"),
                        [adt.rsplit("::", 1)[1] + "::from_str", name])


OKP_PREFIX = {"Ed25519": "302a300506032b6570032100", "Ed448": "3043300506032b6571033a00"}         # RFC 8410 SubjectPublicKeyInfo headers


def _okp_samples():
    def raw(n, special):
        r = bytearray((i * 37 + 11) % 256 for i in range(n))
        for i, v in special.items():
            r[i] = v
        return bytes(r)
    # Ed25519: one PEM body line that ends in '='; Ed448: two body lines, the second one starting with '+', '/', or a letter;
    # '+' and '/' inside lines
    return [("Ed25519", raw(32, {0: 0xfb, 1: 0xff, 2: 0xbf, 31: 0xff})), ("Ed25519", raw(32, {})), ("Ed448", raw(57, {36: 0xf8})),
            ("Ed448", raw(57, {36: 0xfc, 37: 0x3f, 0: 0xff, 1: 0xff, 2: 0xfe})), ("Ed448", raw(57, {36: 0xfb, 37: 0xef, 38: 0xbe, 56: 0xff})), ("Ed448", raw(57, {}))]


def okp_x_table(prog):
    """the OKP `x` member EVALUATED: KeyPair::jwk_public_key / jwk_public_key_thumbprint interpreted (every KeyPair method followed)
    with the key's public PEM answered by a concrete RFC 8410 SubjectPublicKeyInfo; expected x = base64url(raw public key) without
    padding. [(key type, entry, got, want)] or None when something does not evaluate."""
    import base64
    from ..absint import Val, marker, ok, run, struct_val, success_model, variant, vstr
    follow = lambda cs: (cs.name or "").startswith(KEYS + "::") or (cs.name or "").startswith(KT + "::") or (cs.name or "").startswith("<" + KT + " as ")
    rows = []
    kvs = key_variants(prog)
    for kt, rw in _okp_samples():
        if kt not in kvs:
            return None
        b64 = base64.b64encode(bytes.fromhex(OKP_PREFIX[kt]) + rw).decode()
        pem = "-----BEGIN PUBLIC KEY-----\n" + "".join(b64[i:i + 64] + "\n" for i in range(0, len(b64), 64)) + "-----END PUBLIC KEY-----\n"
        der = bytes.fromhex(OKP_PREFIX[kt]) + rw

        def ov(cs, args):
            n = cs.name or ""
            if n.endswith("value::to_value") and args:
                return ok(args[0].deref())
            if n.endswith("::public_key_to_pem") and not n.startswith(KEYS):
                return ok(vstr(pem))
            if n in ("alloc::string::String::from_utf8", "core::str::converts::from_utf8", "alloc::string::String::from_utf8_lossy") and args and args[0].deref().k == "str":
                return ok(args[0].deref()) if not n.endswith("lossy") else args[0].deref()
            return None
        for entry in ("jwk_public_key", "jwk_public_key_thumbprint"):
            b = prog.body(KEYS + "::" + entry)
            if b is None:
                return None
            kp = struct_val(prog, KEYS, {"key_type": variant(KT, kt), "inner_key": marker("PKEY")})
            try:
                r = run(b, {1: Val("ref", kp)}, success_model(b, ov), max_steps=80000, follow=follow)
            except Exception:
                return None
            if r.kind != "return":
                return None
            x = None
            for c, a, res in r.calls:
                n = c.name or ""
                if n.endswith("::insert") and "serde_json" in n and len(a) > 2 and a[1].deref().k == "str" and a[1].deref().v == "x":
                    x = a[2].deref()
            if x is None or x.k != "str":
                return None
            rows.append((kt, entry, x.v, base64.urlsafe_b64encode(rw).decode().rstrip("=")))
    return rows
